//! prql-facts: a rustc_private driver that type-checks a crate exactly as cargo
//! would and writes resolved-program facts (call graph with resolved callees,
//! panic-capable MIR terminators, ADT construction sites, statics, trait impl
//! tables) to $PRQL_FACTS_DIR/<crate>.json.  Used through RUSTC_WORKSPACE_WRAPPER.
#![feature(rustc_private)]

extern crate rustc_driver;
extern crate rustc_hir;
extern crate rustc_interface;
extern crate rustc_middle;
extern crate rustc_span;

use rustc_driver::Compilation;
use rustc_hir::def::DefKind;
use rustc_hir::def_id::{DefId, LOCAL_CRATE};
use rustc_middle::mir::visit::Visitor;
use rustc_middle::mir::{self, AggregateKind, Location, Rvalue, TerminatorKind};
use rustc_middle::ty::{self, Instance, TyCtxt, TypingEnv};
use rustc_span::Span;
use std::fmt::Write as _;

fn esc(s: &str) -> String {
    let mut o = String::with_capacity(s.len() + 2);
    o.push('"');
    for c in s.chars() {
        match c {
            '"' => o.push_str("\\\""),
            '\\' => o.push_str("\\\\"),
            '\n' => o.push_str("\\n"),
            '\r' => o.push_str("\\r"),
            '\t' => o.push_str("\\t"),
            c if (c as u32) < 0x20 => {
                let _ = write!(o, "\\u{:04x}", c as u32);
            }
            c => o.push(c),
        }
    }
    o.push('"');
    o
}

fn did_id(tcx: TyCtxt<'_>, did: DefId) -> String {
    format!("{}{}", tcx.crate_name(did.krate), tcx.def_path(did).to_string_no_crate_verbose())
}

struct Loc {
    file: String,
    line: usize,
    col: usize,
    mac: Option<String>,
}

fn loc(tcx: TyCtxt<'_>, span: Span) -> Loc {
    let mac = if span.from_expansion() {
        let d = span.ctxt().outer_expn_data();
        Some(format!("{}", d.kind.descr()))
    } else {
        None
    };
    // for macro-expanded code, report the outermost invocation site in user code
    let sp = if span.from_expansion() { span.source_callsite() } else { span };
    let sm = tcx.sess.source_map();
    let l = sm.lookup_char_pos(sp.lo());
    let file = match &l.file.name {
        rustc_span::FileName::Real(r) => match r.local_path() {
            Some(p) => p.display().to_string(),
            None => format!("{:?}", l.file.name),
        },
        other => format!("{:?}", other),
    };
    Loc { file, line: l.line, col: l.col.0, mac }
}

fn loc_json(l: &Loc) -> String {
    format!(
        "\"file\":{},\"l\":{},\"c\":{},\"macro\":{}",
        esc(&l.file),
        l.line,
        l.col,
        match &l.mac {
            Some(m) => esc(m),
            None => "null".into(),
        }
    )
}

struct BodyFacts<'tcx> {
    tcx: TyCtxt<'tcx>,
    owner: DefId,
    env: TypingEnv<'tcx>,
    refs: Vec<String>,
    asserts: Vec<String>,
    aggs: Vec<String>,
    statics: Vec<String>,
    call_spans: Vec<Span>,
}

impl<'tcx> BodyFacts<'tcx> {
    fn fn_ref(&mut self, def_id: DefId, args: ty::GenericArgsRef<'tcx>, span: Span, kind: &str, recv_ty: Option<String>) {
        self.fn_ref2(def_id, args, span, kind, recv_ty, None)
    }

    fn fn_ref2(
        &mut self,
        def_id: DefId,
        args: ty::GenericArgsRef<'tcx>,
        span: Span,
        kind: &str,
        recv_ty: Option<String>,
        fn_span: Option<Span>,
    ) {
        let tcx = self.tcx;
        let dk = tcx.def_kind(def_id);
        let mut resolved_id = def_id;
        let mut resolved = true;
        let mut resolved_args = args;
        let mut virt = false;
        if matches!(dk, DefKind::Fn | DefKind::AssocFn) {
            match Instance::try_resolve(tcx, self.env, def_id, args) {
                Ok(Some(inst)) => {
                    resolved_id = inst.def_id();
                    resolved_args = inst.args;
                    if let ty::InstanceKind::Virtual(..) = inst.def {
                        virt = true;
                        resolved = false;
                    }
                }
                _ => {
                    resolved = false;
                }
            }
        }
        // is the *original* target a trait method?
        let trait_of = tcx.trait_of_assoc(def_id).map(|t| tcx.def_path_str(t));
        let l = loc(tcx, span);
        let full = tcx.def_path_str_with_args(resolved_id, resolved_args);
        let def = tcx.def_path_str(resolved_id);
        let orig = tcx.def_path_str(def_id);
        let krate = tcx.crate_name(resolved_id.krate).to_string();
        let self_ty = if !args.is_empty() {
            match args[0].as_type() {
                Some(t) => Some(format!("{}", t)),
                None => None,
            }
        } else {
            None
        };
        let mut adts: Vec<String> = vec![];
        for ga in resolved_args.iter() {
            if let Some(t) = ga.as_type() {
                for inner in t.walk() {
                    if let Some(it) = inner.as_type() {
                        if let ty::Adt(ad, _) = it.kind() {
                            let cn = tcx.crate_name(ad.did().krate).to_string();
                            if cn == "prqlc" || cn == "prqlc_parser" {
                                let id = did_id(tcx, ad.did());
                                if !adts.contains(&id) {
                                    adts.push(id);
                                }
                            }
                        }
                    }
                }
            }
        }
        let adts_json = format!("[{}]", adts.iter().map(|a| esc(a)).collect::<Vec<_>>().join(","));
        let mut s = String::new();
        let _ = write!(
            s,
            "{{\"ml\":{},\"arg_adts\":{},\"kind\":{},\"id\":{},\"orig_id\":{},\"def\":{},\"full\":{},\"orig\":{},\"crate\":{},\"resolved\":{},\"virtual\":{},\"trait\":{},\"self\":{},\"recv\":{},{}}}",
            match fn_span {
                Some(fs) if !fs.from_expansion() => {
                    // line of the method name / callee path: the end of the callee part of the call
                    let sm = tcx.sess.source_map();
                    sm.lookup_char_pos(fs.lo()).line as i64
                }
                _ => -1,
            },
            adts_json,
            esc(kind),
            esc(&did_id(tcx, resolved_id)),
            esc(&did_id(tcx, def_id)),
            esc(&def),
            esc(&full),
            esc(&orig),
            esc(&krate),
            resolved,
            virt,
            match &trait_of { Some(t) => esc(t), None => "null".into() },
            match &self_ty { Some(t) => esc(t), None => "null".into() },
            match &recv_ty { Some(t) => esc(t), None => "null".into() },
            loc_json(&l)
        );
        self.refs.push(s);
    }
}

impl<'tcx> Visitor<'tcx> for BodyFacts<'tcx> {
    fn visit_terminator(&mut self, term: &mir::Terminator<'tcx>, location: Location) {
        match &term.kind {
            TerminatorKind::Call { func, args, fn_span, .. } | TerminatorKind::TailCall { func, args, fn_span, .. } => {
                let body = self.tcx.optimized_mir(self.owner);
                let fty = func.ty(&body.local_decls, self.tcx);
                let recv = args.get(0).map(|a| format!("{}", a.node.ty(&body.local_decls, self.tcx)));
                match fty.kind() {
                    ty::FnDef(did, ga) => {
                        if let Some(c) = func.constant() {
                            self.call_spans.push(c.span);
                        }
                        self.fn_ref2(*did, ga, term.source_info.span, "call", recv, Some(*fn_span));
                    }
                    _ => {
                        let l = loc(self.tcx, term.source_info.span);
                        self.refs.push(format!(
                            "{{\"kind\":\"indirect\",\"def\":null,\"fnty\":{},{}}}",
                            esc(&format!("{}", fty)),
                            loc_json(&l)
                        ));
                    }
                }
            }
            TerminatorKind::Assert { msg, .. } => {
                let kind = match &**msg {
                    mir::AssertKind::BoundsCheck { .. } => "bounds",
                    mir::AssertKind::Overflow(op, ..) => match op {
                        mir::BinOp::Sub | mir::BinOp::SubWithOverflow | mir::BinOp::SubUnchecked => "overflow_sub",
                        mir::BinOp::Add | mir::BinOp::AddWithOverflow | mir::BinOp::AddUnchecked => "overflow_add",
                        mir::BinOp::Mul | mir::BinOp::MulWithOverflow | mir::BinOp::MulUnchecked => "overflow_mul",
                        _ => "overflow",
                    },
                    mir::AssertKind::OverflowNeg(..) => "overflow_neg",
                    mir::AssertKind::DivisionByZero(..) => "div_zero",
                    mir::AssertKind::RemainderByZero(..) => "rem_zero",
                    _ => "other",
                };
                let l = loc(self.tcx, term.source_info.span);
                // operand type of an arithmetic check: i64 is the type of PRQL integer literals (user values), usize a size
                let opty = match &**msg {
                    mir::AssertKind::Overflow(_, a, _) | mir::AssertKind::OverflowNeg(a) => {
                        let body = self.tcx.optimized_mir(self.owner);
                        format!("{}", a.ty(&body.local_decls, self.tcx))
                    }
                    _ => String::new(),
                };
                self.asserts.push(format!("{{\"kind\":{},\"ty\":{},{}}}", esc(kind), esc(&opty), loc_json(&l)));
            }
            _ => {}
        }
        self.super_terminator(term, location);
    }

    fn visit_rvalue(&mut self, rv: &Rvalue<'tcx>, location: Location) {
        if let Rvalue::Aggregate(kind, _) = rv {
            if let AggregateKind::Adt(did, variant, _, _, _) = &**kind {
                let adt = self.tcx.adt_def(*did);
                let vname = adt.variant(*variant).name.to_string();
                let body = self.tcx.optimized_mir(self.owner);
                let span = body.source_info(location).span;
                let l = loc(self.tcx, span);
                self.aggs.push(format!(
                    "{{\"adt\":{},\"variant\":{},\"is_enum\":{},{}}}",
                    esc(&self.tcx.def_path_str(*did)),
                    esc(&vname),
                    adt.is_enum(),
                    loc_json(&l)
                ));
            }
            if let AggregateKind::Closure(did, _) = &**kind {
                let body = self.tcx.optimized_mir(self.owner);
                let span = body.source_info(location).span;
                let l = loc(self.tcx, span);
                self.refs.push(format!(
                    "{{\"kind\":\"closure\",\"id\":{},\"orig_id\":{},\"def\":{},\"full\":{},\"orig\":{},\"crate\":{},\"resolved\":true,\"virtual\":false,\"trait\":null,\"self\":null,\"recv\":null,{}}}",
                    esc(&did_id(self.tcx, *did)),
                    esc(&did_id(self.tcx, *did)),
                    esc(&self.tcx.def_path_str(*did)),
                    esc(&self.tcx.def_path_str(*did)),
                    esc(&self.tcx.def_path_str(*did)),
                    esc(&self.tcx.crate_name(did.krate).to_string()),
                    loc_json(&l)
                ));
            }
        }
        self.super_rvalue(rv, location);
    }

    fn visit_const_operand(&mut self, c: &mir::ConstOperand<'tcx>, _location: Location) {
        let ty = c.const_.ty();
        if let ty::FnDef(did, ga) = ty.kind() {
            // a function item mentioned as a value (or as the callee of a Call,
            // which is recorded separately with kind=call)
            if !self.call_spans.contains(&c.span) {
                self.fn_ref(*did, ga, c.span, "ref", None);
            }
        }
        if let Some(did) = c.check_static_ptr(self.tcx) {
            let l = loc(self.tcx, c.span);
            self.statics.push(format!(
                "{{\"id\":{},\"def\":{},{}}}",
                esc(&did_id(self.tcx, did)),
                esc(&self.tcx.def_path_str(did)),
                loc_json(&l)
            ));
        }
    }
}

struct Cb;

impl rustc_driver::Callbacks for Cb {
    fn after_analysis<'tcx>(&mut self, _c: &rustc_interface::interface::Compiler, tcx: TyCtxt<'tcx>) -> Compilation {
        let dir = match std::env::var("PRQL_FACTS_DIR") {
            Ok(d) => d,
            Err(_) => return Compilation::Continue,
        };
        let krate = tcx.crate_name(LOCAL_CRATE).to_string();
        let want = std::env::var("PRQL_FACTS_CRATES").unwrap_or_else(|_| "prqlc,prqlc_parser".into());
        if !want.split(',').any(|w| w == krate) {
            return Compilation::Continue;
        }
        let mut out = String::new();
        out.push_str("{\"crate\":");
        out.push_str(&esc(&krate));
        out.push_str(",\"run_id\":");
        out.push_str(&esc(&std::env::var("PRQL_FACTS_RUN_ID").unwrap_or_default()));
        out.push_str(",\"fns\":[");
        let mut first = true;
        for ldid in tcx.hir_body_owners() {
            let did = ldid.to_def_id();
            let dk = tcx.def_kind(did);
            let kind = match dk {
                DefKind::Fn => "fn",
                DefKind::AssocFn => "method",
                DefKind::Closure => "closure",
                DefKind::Static { .. } => "static",
                DefKind::Const { .. } | DefKind::AssocConst { .. } => "const",
                _ => continue,
            };
            // MIR
            let body: &mir::Body<'tcx> = match dk {
                DefKind::Fn | DefKind::AssocFn | DefKind::Closure => {
                    if tcx.is_const_fn(did) && false {
                        tcx.mir_for_ctfe(ldid)
                    } else {
                        tcx.optimized_mir(did)
                    }
                }
                _ => tcx.mir_for_ctfe(did),
            };
            let mut bf = BodyFacts {
                tcx,
                owner: did,
                env: TypingEnv::post_analysis(tcx, did),
                refs: vec![],
                asserts: vec![],
                aggs: vec![],
                statics: vec![],
                call_spans: vec![],
            };
            if matches!(dk, DefKind::Fn | DefKind::AssocFn | DefKind::Closure) {
                bf.visit_body(body);
            } else {
                // visit_body calls optimized_mir(owner) in helpers; for consts/statics use a
                // reduced walk that only needs the ctfe body
                for (bb, data) in body.basic_blocks.iter_enumerated() {
                    if let Some(term) = &data.terminator {
                        if let TerminatorKind::Call { func, .. } = &term.kind {
                            let fty = func.ty(&body.local_decls, tcx);
                            if let ty::FnDef(d, ga) = fty.kind() {
                                bf.fn_ref(*d, ga, term.source_info.span, "call", None);
                            }
                        }
                    }
                    let _ = bb;
                }
            }
            let span = tcx.def_span(did);
            let l = loc(tcx, span);
            let full_span = body.span;
            let sm = tcx.sess.source_map();
            let el = sm.lookup_char_pos(full_span.hi()).line;
            let sl = sm.lookup_char_pos(full_span.lo()).line;
            let parent = if dk == DefKind::Closure {
                let p = tcx.typeck_root_def_id(did);
                Some(tcx.def_path_str(p))
            } else {
                None
            };
            let vis = if matches!(dk, DefKind::Fn | DefKind::AssocFn) {
                format!("{:?}", tcx.visibility(did))
            } else {
                String::new()
            };
            let impl_self_id: Option<String> = match dk {
                DefKind::AssocFn => tcx.trait_impl_of_assoc(did).and_then(|i| {
                    let tr = tcx.impl_trait_ref(i).skip_binder();
                    match tr.self_ty().kind() {
                        ty::Adt(ad, _) => Some(did_id(tcx, ad.did())),
                        _ => None,
                    }
                }),
                _ => None,
            };
            let (impl_of_trait, trait_item) = match dk {
                DefKind::AssocFn => {
                    let ti = tcx.trait_item_of(did).map(|t| tcx.def_path_str(t));
                    let io = tcx.trait_impl_of_assoc(did).map(|i| {
                        let tr = tcx.impl_trait_ref(i).skip_binder();
                        format!("{}", tr.self_ty())
                    });
                    (io, ti)
                }
                _ => (None, None),
            };
            if !first {
                out.push(',');
            }
            first = false;
            let _ = write!(
                out,
                "{{\"impl_self_id\":{},\"id\":{},\"parent_id\":{},\"trait_item_id\":{},\"path\":{},\"kind\":{},\"parent\":{},\"vis\":{},\"impl_self\":{},\"trait_item\":{},\"sl\":{},\"el\":{},{},\"refs\":[{}],\"asserts\":[{}],\"aggs\":[{}],\"statics\":[{}]}}",
                match &impl_self_id { Some(p) => esc(p), None => "null".into() },
                esc(&did_id(tcx, did)),
                match dk { DefKind::Closure => esc(&did_id(tcx, tcx.typeck_root_def_id(did))), _ => "null".into() },
                match dk { DefKind::AssocFn => match tcx.trait_item_of(did) { Some(t) => esc(&did_id(tcx, t)), None => "null".into() }, _ => "null".into() },
                esc(&tcx.def_path_str(did)),
                esc(kind),
                match &parent { Some(p) => esc(p), None => "null".into() },
                esc(&vis),
                match &impl_of_trait { Some(p) => esc(p), None => "null".into() },
                match &trait_item { Some(p) => esc(p), None => "null".into() },
                sl,
                el,
                loc_json(&l),
                bf.refs.join(","),
                bf.asserts.join(","),
                bf.aggs.join(","),
                bf.statics.join(",")
            );
        }
        out.push_str("],\"statics\":[");
        let mut first = true;
        for ldid in tcx.hir_body_owners() {
            let did = ldid.to_def_id();
            if let DefKind::Static { .. } = tcx.def_kind(did) {
                let ty = tcx.type_of(did).instantiate_identity().skip_norm_wip();
                let freeze = ty.is_freeze(tcx, TypingEnv::post_analysis(tcx, did));
                let l = loc(tcx, tcx.def_span(did));
                if !first {
                    out.push(',');
                }
                first = false;
                let _ = write!(
                    out,
                    "{{\"id\":{},\"path\":{},\"ty\":{},\"freeze\":{},\"mutable\":{},{}}}",
                    esc(&did_id(tcx, did)),
                    esc(&tcx.def_path_str(did)),
                    esc(&format!("{}", ty)),
                    freeze,
                    tcx.is_mutable_static(did),
                    loc_json(&l)
                );
            }
        }
        out.push_str("],\"type_reach\":[");
        // fields reachable from the serialised IR roots, with their instantiated types
        let roots = std::env::var("PRQL_FACTS_ROOTS").unwrap_or_else(|_| "RelationalQuery,ModuleDef".into());
        let mut first = true;
        for ldid in tcx.hir_crate_items(()).definitions() {
            let did = ldid.to_def_id();
            if !matches!(tcx.def_kind(did), DefKind::Struct | DefKind::Enum) {
                continue;
            }
            let name = tcx.item_name(did).to_string();
            if !roots.split(',').any(|r| r == name) {
                continue;
            }
            let root_ty = tcx.type_of(did).instantiate_identity().skip_norm_wip();
            let mut seen: Vec<ty::Ty<'tcx>> = vec![];
            let mut work: Vec<ty::Ty<'tcx>> = vec![root_ty];
            while let Some(t) = work.pop() {
                if seen.contains(&t) {
                    continue;
                }
                seen.push(t);
                match t.kind() {
                    ty::Adt(ad, args) => {
                        let cn = tcx.crate_name(ad.did().krate).to_string();
                        if cn == "prqlc" || cn == "prqlc_parser" {
                            for v in ad.variants().iter() {
                                for f in v.fields.iter() {
                                    let fty = f.ty(tcx, args);
                                    let fs = format!("{}", fty);
                                    if !first {
                                        out.push(',');
                                    }
                                    first = false;
                                    let _ = write!(
                                        out,
                                        "{{\"root\":{},\"owner\":{},\"owner_id\":{},\"variant\":{},\"field\":{},\"ty\":{}}}",
                                        esc(&name),
                                        esc(&tcx.def_path_str(ad.did())),
                                        esc(&did_id(tcx, ad.did())),
                                        esc(&v.name.to_string()),
                                        esc(&f.name.to_string()),
                                        esc(&fs)
                                    );
                                    work.push(fty);
                                }
                            }
                        } else {
                            // std / external containers: descend into their type arguments
                            for ga in args.iter() {
                                if let Some(it) = ga.as_type() {
                                    work.push(it);
                                }
                            }
                        }
                    }
                    ty::Tuple(ts) => {
                        for it in ts.iter() {
                            work.push(it);
                        }
                    }
                    ty::Array(it, _) | ty::Slice(it) => work.push(*it),
                    ty::Ref(_, it, _) => work.push(*it),
                    _ => {}
                }
            }
        }
        out.push_str("]}");
        let path = format!("{}/{}.json", dir, krate);
        std::fs::write(&path, out).expect("write facts");
        Compilation::Continue
    }
}

fn main() {
    let mut args: Vec<String> = std::env::args().collect();
    // RUSTC_WORKSPACE_WRAPPER passes the real rustc path as argv[1]
    if args.len() > 1 && (args[1].ends_with("rustc") || args[1].contains("/rustc")) {
        args.remove(1);
    }
    rustc_driver::run_compiler(&args, &mut Cb);
}
