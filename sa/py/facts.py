"""Build and memoise the facts every rule reads, from /repo's *current* tree.

Three fact sets:
  syn  : syntax trees of every non-test item of prqlc and prqlc-parser (synfacts)
  mir  : resolved call graph / panic terminators / ADT sites / statics (rustc driver)
  std  : parsed std.prql and std.sql.prql (stdlib.py)

Facts are memoised under a SHA-256 of every input file plus the tool binaries, so
an edit to /repo always forces a fresh analysis; a failing build fails closed.
"""
import fcntl
import hashlib
import json
import os
import shutil
import subprocess
import sys
import time

REPO = os.environ.get("VERIF_REPO", "/repo")
VERIF = os.path.dirname(os.path.dirname(os.path.dirname(os.path.abspath(__file__))))
CACHE = os.path.join(VERIF, ".cache")
SYNFACTS_BIN = os.path.join(CACHE, "synfacts-target", "release", "synfacts")
DRIVER_BIN = os.path.join(CACHE, "driver-target", "release", "prql-facts")
TARGET_NIGHTLY = os.environ.get("VERIF_TARGET") or os.path.join(CACHE, "target-nightly")   # VERIF_TARGET: the parallel self-test gives every worker its own target dir

CRATES = {
    "prqlc": "prqlc/prqlc/src/lib.rs",
    "prqlc_parser": "prqlc/prqlc-parser/src/lib.rs",
}
# extra syn-only roots (binary crate with the CLI: `prqlc fmt`, `prqlc compile`)
SYN_EXTRA = {
    "prqlc_bin": "prqlc/prqlc/src/main.rs",
}


class BuildFailed(Exception):
    def __init__(self, what, log):
        super().__init__(what)
        self.what = what
        self.log = log


def _sha_file(h, path):
    with open(path, "rb") as f:
        h.update(path.encode())
        h.update(b"\0")
        h.update(f.read())
        h.update(b"\0")


def input_files():
    out = []
    for root in ("prqlc/prqlc", "prqlc/prqlc-parser", "prqlc/prqlc-macros"):
        base = os.path.join(REPO, root)
        for dp, dn, fn in os.walk(base):
            dn[:] = sorted(d for d in dn if d not in ("target", "snapshots", ".git"))
            for f in sorted(fn):
                if f.endswith((".rs", ".prql", ".toml")) or f == "build.rs":
                    out.append(os.path.join(dp, f))
    for f in ("Cargo.toml", "Cargo.lock", "rust-toolchain.toml"):
        p = os.path.join(REPO, f)
        if os.path.exists(p):
            out.append(p)
    return out


def tree_hash(extra=()):
    h = hashlib.sha256()
    for p in input_files():
        _sha_file(h, p)
    for p in extra:
        if os.path.exists(p):
            _sha_file(h, p)
        else:
            h.update(b"missing:" + p.encode())
    return h.hexdigest()[:24]


class _Lock:
    def __init__(self, name):
        os.makedirs(CACHE, exist_ok=True)
        self.path = os.path.join(CACHE, name + ".lock")

    def __enter__(self):
        self.f = open(self.path, "w")
        fcntl.flock(self.f, fcntl.LOCK_EX)
        return self

    def __exit__(self, *a):
        fcntl.flock(self.f, fcntl.LOCK_UN)
        self.f.close()


def ensure_tools(log=sys.stderr):
    """Build synfacts and the driver if their binaries are missing or stale."""
    with _Lock("tools"):
        for name, d, binp in (
            ("synfacts", os.path.join(VERIF, "sa", "synfacts"), SYNFACTS_BIN),
            ("driver", os.path.join(VERIF, "sa", "driver"), DRIVER_BIN),
        ):
            src = os.path.join(d, "src", "main.rs")
            if os.path.exists(binp) and os.path.getmtime(binp) >= os.path.getmtime(src):
                continue
            t0 = time.time()
            env = dict(os.environ, CARGO_NET_OFFLINE="true", CARGO_TARGET_DIR=os.path.join(CACHE, name + "-target"))   # (a snapshot of /verif builds into its own .cache)
            env.pop("RUSTC_WORKSPACE_WRAPPER", None)
            env.pop("RUSTFLAGS", None)
            r = subprocess.run(
                ["cargo", "build", "--release", "--offline"],
                cwd=d, env=env, stdout=subprocess.PIPE, stderr=subprocess.STDOUT, text=True,
            )
            if r.returncode != 0 or not os.path.exists(binp):
                raise BuildFailed(f"building {name} failed", r.stdout)
            print(f"[facts] built {name} in {time.time()-t0:.1f}s", file=log)


def _nightly_sysroot():
    r = subprocess.run(["rustc", "+nightly", "--print", "sysroot"], stdout=subprocess.PIPE, text=True)
    return r.stdout.strip()


def facts_dir():
    ensure_tools()
    h = tree_hash(extra=(SYNFACTS_BIN, DRIVER_BIN))
    # (the self-test keeps the facts of a scratch copy inside that copy, so they disappear with it and no other worker prunes them)
    return os.path.join(os.environ.get("VERIF_FACTS_DIR") or os.path.join(CACHE, "facts"), h)


def _prune_old(keep):
    if os.environ.get("VERIF_FACTS_DIR"):
        return
    base = os.path.join(CACHE, "facts")
    if not os.path.isdir(base):
        return
    ents = sorted(
        (os.path.join(base, e) for e in os.listdir(base)),
        key=lambda p: os.path.getmtime(p),
    )
    for p in ents[:-(48 if os.environ.get("VERIF_SELFTEST") else 6)]:
        if p != keep:
            shutil.rmtree(p, ignore_errors=True)


def syn_facts(log=sys.stderr):
    d = facts_dir()
    out = os.path.join(d, "syn.json")
    with _Lock("syn"):
        if not os.path.exists(out):
            os.makedirs(d, exist_ok=True)
            specs = []
            for k, v in list(CRATES.items()) + list(SYN_EXTRA.items()):
                p = os.path.join(REPO, v)
                if not os.path.exists(p):
                    raise BuildFailed(f"crate root missing: {v}", "")
                specs.append(f"{k}={p}")
            tmp = out + ".tmp"
            r = subprocess.run([SYNFACTS_BIN, tmp] + specs, stdout=subprocess.PIPE, stderr=subprocess.STDOUT, text=True)
            if r.returncode != 0:
                raise BuildFailed("synfacts could not parse the tree", r.stdout)
            os.rename(tmp, out)
            _prune_old(d)
    with open(out) as f:
        data = json.load(f)
    # make file paths relative to REPO
    pre = REPO.rstrip("/") + "/"
    for c in data.values():
        for sect in c.values():
            for it in sect:
                if isinstance(it, dict) and isinstance(it.get("file"), str) and it["file"].startswith(pre):
                    it["file"] = it["file"][len(pre):]
    return data


def mir_facts(log=sys.stderr, features=None):
    """Run the rustc driver over prqlc + prqlc-parser (lib targets, real flags)."""
    d = facts_dir()
    tag = "mir" if not features else "mir-" + hashlib.sha1(" ".join(features).encode()).hexdigest()[:8]
    outdir = os.path.join(d, tag)
    done = os.path.join(outdir, "DONE")
    with _Lock("mir" if not os.environ.get("VERIF_TARGET") else "mir-" + hashlib.sha1(TARGET_NIGHTLY.encode()).hexdigest()[:8]):
        if not os.path.exists(done):
            shutil.rmtree(outdir, ignore_errors=True)
            os.makedirs(outdir, exist_ok=True)
            run_id = f"{os.getpid()}-{time.time()}"
            tgt = TARGET_NIGHTLY
            # cargo's freshness cache would skip the wrapper: drop the members' fingerprints
            fp = os.path.join(tgt, "debug", ".fingerprint")
            if os.path.isdir(fp):
                for e in os.listdir(fp):
                    if e.startswith(("prqlc-", "prqlc-parser-", "prqlc_parser-")):
                        shutil.rmtree(os.path.join(fp, e), ignore_errors=True)
            env = dict(os.environ)
            sysroot = _nightly_sysroot()
            env.update(
                CARGO_NET_OFFLINE="true",
                LD_LIBRARY_PATH=os.path.join(sysroot, "lib") + ":" + env.get("LD_LIBRARY_PATH", ""),
                RUSTFLAGS="-Zmir-opt-level=0 -Awarnings",
                RUSTC_WORKSPACE_WRAPPER=DRIVER_BIN,
                CARGO_TARGET_DIR=tgt,
                PRQL_FACTS_DIR=outdir,
                PRQL_FACTS_RUN_ID=run_id,
            )
            cmd = ["cargo", "+nightly", "check", "--offline", "-p", "prqlc", "-p", "prqlc-parser", "--lib"]
            if features:
                cmd += features
            t0 = time.time()
            r = subprocess.run(cmd, cwd=REPO, env=env, stdout=subprocess.PIPE, stderr=subprocess.STDOUT, text=True)
            if r.returncode != 0:
                raise BuildFailed("cargo +nightly check of /repo failed", r.stdout)
            for c in CRATES:
                p = os.path.join(outdir, c + ".json")
                if not os.path.exists(p):
                    raise BuildFailed(f"driver wrote no facts for {c} (stale cargo cache?)", r.stdout)
                with open(p) as f:
                    head = f.read(400)
                if run_id not in head:
                    raise BuildFailed(f"facts for {c} are not from this run", r.stdout)
            with open(done, "w") as f:
                f.write(run_id)
            print(f"[facts] driver run over /repo took {time.time()-t0:.1f}s", file=log)
            _prune_old(d)
    out = {}
    for c in CRATES:
        with open(os.path.join(outdir, c + ".json")) as f:
            out[c] = json.load(f)
    return out
