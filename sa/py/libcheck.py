"""Thorough tier: re-read the vendored dependency sources that oracles/libs.json cites and confirm they still
say what the oracle says (fail closed if the version in Cargo.lock changed or the text is gone)."""
import glob
import os
import re

from facts import REPO


def locked_version(crate):
    txt = open(os.path.join(REPO, "Cargo.lock")).read()
    m = re.search(r'name = "%s"\nversion = "([^"]+)"' % re.escape(crate), txt)
    return m.group(1) if m else None


def src_dir(crate, version):
    c = glob.glob(os.path.expanduser(f"~/.cargo/registry/src/*/{crate}-{version}"))
    return c[0] if c else None


CHECKS = [
    ("ariadne", "src/lib.rs", r"index_type:\s*IndexType::Char", "Config::default() indexes by Char"),
    ("ariadne", "src/source.rs", r"pub fn get_offset_line\(&self, offset: usize\)", "Source::get_offset_line exists (char offset lookup)"),
    ("ariadne", "src/source.rs", r"pub fn get_byte_line\(&self, byte_offset: usize\)", "Source::get_byte_line is the byte variant"),
    ("sqlparser", "src/ast/value.rs", r"if previous_char == '\\\\'", "EscapeQuotedString skips a quote that follows a backslash"),
    ("sqlparser", "src/ast/value.rs", r"the quote is already escaped with another quote, skip", "EscapeQuotedString skips an already doubled quote"),
]


def run(rep, crates=None):
    rep.rule("LIB", "vendored dependency sources still say what oracles/libs.json says (thorough tier)", floor=1)
    for crate, rel, pattern, what in CHECKS:
        if crates and crate not in crates:
            continue
        v = locked_version(crate)
        key = f"lib:{crate}:{what[:40]}"
        if v is None:
            rep.bad(key, f"{crate} is not in Cargo.lock any more: the oracle about it must be re-established")
            continue
        d = src_dir(crate, v)
        if d is None or not os.path.exists(os.path.join(d, rel)):
            rep.bad(key, f"source of {crate} {v} ({rel}) not found in the cargo registry: cannot re-verify the oracle")
            continue
        txt = open(os.path.join(d, rel), encoding="utf-8", errors="replace").read()
        rep.check(re.search(pattern, txt) is not None, key, f"{crate} {v} {rel} no longer matches /{pattern}/: {what} - oracles/libs.json must be revisited", detail={"version": v})
