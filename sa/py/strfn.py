"""Evaluate a character-wise string transformer of the source on representative one-character inputs (no program is run).

The escaping helpers of the formatter look at their input only through comparisons with character literals, so every character that
is not mentioned behaves like every other one: the function is decided by its values on the mentioned characters plus one
representative per class (printable ASCII, control, non-ASCII, NUL).  Two spellings are understood:
  * chains       `s.replace('a', "b").replace(..)`           (applied in order, as Rust does)
  * loops        `let mut out = String::new(); for ch in s.chars() { if / match on ch .. out.push(ch) / out.push_str(".."),
                  out.extend(ch.escape_default()) .. } out`
"""
from synq import show, walk, lit_val, last_seg, pat_alts, pat_head


class Unreadable(Exception):
    pass


def escape_default(c):
    o = ord(c)
    if c == "\t":
        return "\\t"
    if c == "\r":
        return "\\r"
    if c == "\n":
        return "\\n"
    if c in ("'", '"', "\\"):
        return "\\" + c
    if 0x20 <= o <= 0x7e:
        return c
    return "\\u{%x}" % o


def escape_debug(c):
    o = ord(c)
    if c == "\0":
        return "\\0"
    if c in ("\t", "\r", "\n", "'", '"', "\\"):
        return escape_default(c)
    if o < 0x20 or o == 0x7f:
        return "\\u{%x}" % o
    return c        # printable, including non-ASCII


def _lit(e):
    if e.get("k") == "lit" and e.get("t") in ("char", "str"):
        return lit_val(e)
    if e.get("k") in ("ref", "paren"):
        return _lit(e["e"])
    if e.get("k") == "mcall" and e["m"] in ("to_string", "as_str", "to_owned", "into") and not e["a"]:
        return _lit(e["r"])
    return None


def eval_chain(expr, var, value):
    """value of a `.replace(..)` chain rooted at `var` when var == value"""
    e = expr
    while e.get("k") in ("ref", "paren"):
        e = e["e"]
    if e.get("k") == "path" and e["p"] == var:
        return value
    if e.get("k") == "mcall":
        if e["m"] in ("as_str", "to_string", "to_owned", "clone", "into", "as_ref") and not e["a"]:
            return eval_chain(e["r"], var, value)
        if e["m"] == "replace" and len(e["a"]) == 2:
            a, b = _lit(e["a"][0]), _lit(e["a"][1])
            if a is None or b is None:
                raise Unreadable("replace with non-literal arguments: " + show(e)[:60])
            return eval_chain(e["r"], var, value).replace(a, b)
    raise Unreadable("not a replace chain over `%s`: %s" % (var, show(e)[:60]))


def _cond(c, ch_name, ch):
    k = c.get("k")
    if k == "paren":
        return _cond(c["e"], ch_name, ch)
    if k == "un" and c["op"] == "!":
        return not _cond(c["e"], ch_name, ch)
    if k == "bin" and c["op"] in ("||", "&&"):
        a, b = _cond(c["lhs"], ch_name, ch), _cond(c["rhs"], ch_name, ch)
        return (a or b) if c["op"] == "||" else (a and b)
    if k == "bin" and c["op"] in ("==", "!="):
        l, r = c["lhs"], c["rhs"]
        ls, rs = show(l).lstrip("*&"), show(r).lstrip("*&")
        if ls == ch_name and _lit(r) is not None:
            v = ch == _lit(r)
        elif rs == ch_name and _lit(l) is not None:
            v = ch == _lit(l)
        else:
            raise Unreadable("comparison " + show(c)[:50])
        return v if c["op"] == "==" else not v
    if k == "macro" and c.get("n") == "matches" and c.get("a") and show(c["a"][0]).lstrip("*&") == ch_name:
        alts = [pat_head(a) for a in pat_alts(c["pat"])]
        return any(isinstance(h, tuple) and h[0] == "lit" and h[1] == ch for h in alts)
    if k == "mcall" and show(c["r"]).lstrip("*&") == ch_name and not c["a"]:
        m = c["m"]
        table = {"is_ascii": ord(ch) < 128, "is_ascii_control": ord(ch) < 0x20 or ord(ch) == 0x7f, "is_control": ord(ch) < 0x20 or 0x7f <= ord(ch) < 0xa0,
                 "is_ascii_alphanumeric": ch.isascii() and ch.isalnum(), "is_alphanumeric": ch.isalnum(), "is_ascii_graphic": 0x21 <= ord(ch) <= 0x7e,
                 "is_whitespace": ch.isspace(), "is_ascii_whitespace": ch in " \t\n\r\x0c", "is_ascii_punctuation": ch.isascii() and not ch.isalnum() and 0x21 <= ord(ch) <= 0x7e}
        if m in table:
            return table[m]
    raise Unreadable("condition " + show(c)[:60])


def _emit(st, out_name, ch_name, ch):
    """text appended to the accumulator by one statement (None = not an append)"""
    k = st.get("k")
    if k == "mcall" and show(st["r"]) == out_name and st["a"]:
        a = st["a"][0]
        if st["m"] == "push":
            if show(a).lstrip("*&") == ch_name:
                return ch
            v = _lit(a)
            if v is not None:
                return v
        if st["m"] == "push_str":
            v = _lit(a)
            if v is not None:
                return v
            if a.get("k") == "ref" and show(a["e"]).replace(" ", "") in (ch_name + ".to_string()",):
                return ch
        if st["m"] == "extend":
            t = show(a).replace(" ", "")
            if t == ch_name + ".escape_default()":
                return escape_default(ch)
            if t == ch_name + ".escape_debug()":
                return escape_debug(ch)
            if t == ch_name + ".escape_unicode()":
                return "\\u{%x}" % ord(ch)
        raise Unreadable("append " + show(st)[:60])
    if k == "bin" and st["op"] == "+=" and show(st["lhs"]) == out_name:
        v = _lit(st["rhs"])
        if v is not None:
            return v
        raise Unreadable("append " + show(st)[:60])
    return None


def _run(stmts, out_name, ch_name, ch):
    acc = ""
    for st in stmts:
        k = st.get("k")
        if k == "if" and st["c"].get("k") != "let":
            br = st["t"] if _cond(st["c"], ch_name, ch) else st.get("e")
            if br is not None:
                acc += _run(br["s"] if br.get("k") == "block" else [br], out_name, ch_name, ch)
            continue
        if k == "match" and show(st["e"]).lstrip("*&") == ch_name:
            done = False
            for arm in st["arms"]:
                heads = [pat_head(a) for a in pat_alts(arm["pat"])]
                hit = any((isinstance(h, tuple) and h[0] == "lit" and h[1] == ch) or h == "_" or (isinstance(h, str) and h not in ("_",) and arm["pat"].get("k") == "p_ident") for h in heads)
                if hit and (arm.get("guard") is None or _cond(arm["guard"], ch_name, ch)):
                    b = arm["body"]
                    acc += _run(b["s"] if b.get("k") == "block" else [b], out_name, ch_name, ch)
                    done = True
                    break
            if not done:
                raise Unreadable("no arm for character")
            continue
        e = _emit(st, out_name, ch_name, ch)
        if e is not None:
            acc += e
            continue
        if k in ("local", "macro"):
            continue
        raise Unreadable("statement " + show(st)[:60])
    return acc


def eval_loop(body, ch):
    """value of `let mut out = String::new(); for c in s.chars() { .. } out` on the one-character input `ch`"""
    out_name = None
    for st in body["s"]:
        if st.get("k") == "local" and st["pat"].get("k") == "p_ident" and st["pat"].get("mut") and st.get("init") is not None and ("String::new" in show(st["init"]) or "String::with_capacity" in show(st["init"])):
            out_name = st["pat"]["n"]
    loops = [st for st in body["s"] if st.get("k") == "for" and ".chars()" in show(st["e"])]
    if out_name is None and not loops:
        # the same loop written as `s.chars().fold(String::new(), |mut out, c| { ..; out })`
        folds = [n for n in walk(body) if n.get("k") == "mcall" and n["m"] == "fold" and ".chars()" in show(n["r"]) and len(n["a"]) == 2
                 and n["a"][1].get("k") == "closure" and ("String::new" in show(n["a"][0]) or "String::with_capacity" in show(n["a"][0]))]
        if len(folds) == 1:
            cl = folds[0]["a"][1]
            ps = [[x["n"] for x in walk(p_) if x.get("k") == "p_ident"] for p_ in cl["params"]]
            if len(ps) == 2 and len(ps[0]) == 1 and len(ps[1]) == 1:
                b = cl["body"]
                stmts = list(b["s"]) if b.get("k") == "block" else [b]
                if stmts and stmts[-1].get("k") == "path" and stmts[-1]["p"] == ps[0][0]:
                    return _run(stmts[:-1], ps[0][0], ps[1][0], ch)
        raise Unreadable("not an accumulate-per-character loop")
    if out_name is None or len(loops) != 1:
        raise Unreadable("not an accumulate-per-character loop")
    names = [x["n"] for x in walk(loops[0]["pat"]) if x.get("k") == "p_ident"]
    if len(names) != 1:
        raise Unreadable("loop variable")
    return _run(loops[0]["body"]["s"], out_name, names[0], ch)


REPRESENTATIVES = ['"', "'", "\\", "\n", "\t", "\r", "a", " ", "{", "}", "é", "\0", "\x7f", "\x01"]
