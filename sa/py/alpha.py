"""Name-independent rendering of expressions.

Rules that compare an expression with an expected text must not depend on how the function names its locals or its
closure parameters: a rename, an extra intermediate `let`, or the removal of one leaves behaviour unchanged.
`Inliner(f).show(expr)` renders `expr` with
  * every use of a local bound by a plain `let name = init;` (identifier pattern, never re-assigned) replaced by its
    initialiser, recursively (lexical scoping through guards.visible_defs);
  * closure parameters renamed positionally (`_c0`, `_c1`, ... per closure, nested closures continue the numbering);
  * `(x)` parentheses and `.clone()` / `&` / `*` noise optionally stripped (`strip=True`).
Function parameters keep their names (they are part of the signature the rules anchor on).
"""
import guards
from synq import walk, show


class Inliner:
    def __init__(self, f, maxdepth=14, max_inline=6):
        self.max_inline = max_inline
        self.f = f
        self.body = f["body"]
        self.par = guards.parents(self.body)
        self.maxdepth = maxdepth
        self.reassigned = {show(n["lhs"]) for n in walk(self.body) if n.get("k") == "assign"}
        for n in walk(self.body):
            if n.get("k") == "bin" and n["op"] in ("+=", "-=", "*=", "|=", "&="):
                self.reassigned.add(show(n["lhs"]))
            if n.get("k") == "ref" and n.get("mut"):
                self.reassigned.add(show(n["e"]))
            if n.get("k") == "mcall" and n["m"] in ("push", "insert", "extend", "remove", "pop", "clear", "append", "retain", "sort", "sort_by", "sort_by_key", "reverse", "truncate", "drain", "push_str"):
                self.reassigned.add(show(n["r"]))
        self.mut_locals = {show(n["pat"]).replace("mut ", "") for n in walk(self.body) if n.get("k") == "local" and n["pat"].get("k") == "p_ident" and n["pat"].get("mut")}

    def _init_of(self, use, name):
        st = guards.visible_def_nodes(self.par, use, name)
        if st is None or st["pat"].get("mut") or st.get("init") is None or st.get("else") is not None:
            return None       # only immutable `let name = init;` bindings are inlined (they cannot be re-assigned)
        return st["init"]

    def show(self, e, strip=False, _env=None, _depth=0, _inl=0, label=None):
        """label: optional function(text of an inlined local's initialiser) -> short name | None; lets a rule name a
        sub-expression by its role (e.g. '<take>' for `range_of_ranges(..)?`) instead of repeating it"""
        if label is not None:
            self._label = label
        label = getattr(self, "_label", None) if _depth or _inl else label
        if _depth == 0 and _inl == 0:
            self._label = label
        env = _env or {}
        if e is None:
            return ""
        if not isinstance(e, dict):
            return str(e)
        if _depth > self.maxdepth:
            return "…"
        k = e.get("k")
        s = lambda x: self.show(x, strip, env, _depth + 1, _inl)
        if k == "path" and "::" not in e["p"]:
            p = e["p"]
            if p in env:
                return env[p]
            if _inl < self.max_inline:
                init = self._init_of(e, p)
                if init is not None:
                    t = self.show(init, strip, env, _depth + 1, _inl + 1)
                    lab = self._label(t) if getattr(self, "_label", None) else None
                    return lab if lab else t
            return p
        if k == "closure":
            env2 = dict(env)
            base = sum(1 for v in env.values() if v.startswith("_c"))
            names = []
            for i, prm in enumerate(e["params"]):
                for n in walk(prm):
                    if n.get("k") == "p_ident":
                        env2[n["n"]] = f"_c{base + len(names)}"
                        names.append(env2[n["n"]])
            return "|" + ", ".join(names) + "| " + self.show(e["body"], strip, env2, _depth + 1, _inl)
        if k == "paren":
            return s(e["e"]) if strip else "(" + s(e["e"]) + ")"
        if strip and k == "mcall" and e["m"] in ("clone", "to_owned", "as_ref", "as_str", "to_string", "into") and not e["a"]:
            return s(e["r"])
        if strip and k == "ref":
            return s(e["e"])
        if strip and k == "un" and e["op"] == "*":
            return s(e["e"])
        if k == "call":
            return f"{s(e['f'])}({', '.join(s(a) for a in e['a'])})"
        if k == "mcall":
            return f"{s(e['r'])}.{e['m']}({', '.join(s(a) for a in e['a'])})"
        if k == "field":
            return f"{s(e['e'])}.{e['f']}"
        if k == "bin":
            return f"({s(e['lhs'])} {e['op']} {s(e['rhs'])})"
        if k == "un":
            return f"{e['op']}{s(e['e'])}"
        if k == "ref":
            return ("&mut " if e.get("mut") else "&") + s(e["e"])
        if k == "try":
            return s(e["e"]) + "?"
        if k == "tuple":
            return "(" + ", ".join(s(x) for x in e["e"]) + ")"
        if k == "array":
            return "[" + ", ".join(s(x) for x in e["e"]) + "]"
        if k == "struct":
            return f"{e['p']}{{{', '.join(f[0] + ': ' + s(f[1]) for f in e['f'])}{', ..' if 'rest' in e else ''}}}"
        if k == "macro" and "a" in e:
            return f"{e['n']}!({', '.join(s(a) for a in e['a'])})"
        if k == "range":
            return (s(e["s"]) if e.get("s") is not None else "") + ("..=" if e.get("closed") else "..") + (s(e["e"]) if e.get("e") is not None else "")
        if k == "index":
            return f"{s(e['e'])}[{s(e['i'])}]"
        if k == "block":
            st = e["s"]
            if len(st) == 1 and st[0].get("k") not in ("local", "item_fn"):
                return s(st[0])          # `{ expr }` is `expr`
            if st and st[-1].get("k") not in ("local", "item_fn"):
                return "{ " + s(st[-1]) + " }"
            return "{…}"
        if k == "if":
            return f"if {s(e['c'])} {s(e['t'])}" + (f" else {s(e['e'])}" if e.get("e") is not None else "")
        return show(e, 0, max(2, self.maxdepth - _depth))

    def tail(self):
        st = self.body["s"]
        return st[-1] if st and st[-1].get("k") not in ("local", "item_fn") else None
