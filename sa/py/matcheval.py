"""Select the arm a `match` (nest) takes for a constructed value, by matching the arms' patterns in order (no program is run).

A value is V(ctor, args=[..], fields={..}); `None` stands for "any value" (matches only irrefutable patterns).  Used to read per-variant
tables whatever the match is spelled like: nested `Binary(BinaryExpr { op, .. }) => match op { .. }`, flattened
`Binary(BinaryExpr { op: BinOp::Pow, .. }) => ..`, or a per-operator helper of the same file."""
from synq import show, last_seg, tail_expr, walk


class Unknown(Exception):
    pass


class V:
    def __init__(self, ctor, args=None, fields=None):
        self.ctor, self.args, self.fields = ctor, args or [], fields or {}

    def __repr__(self):
        return f"V({self.ctor})"


def match_pat(pat, val, env):
    k = pat.get("k")
    if k == "p_wild" or k == "p_rest":
        return True
    if k == "p_ident":
        n = pat.get("n")
        if n and n[0].isupper():            # a unit variant / constant written without a path
            if val is None:
                raise Unknown("refutable pattern on an unknown value")
            return val.ctor == n
        if pat.get("sub") is not None:
            if not match_pat(pat["sub"], val, env):
                return False
        env[n] = val
        return True
    if k in ("p_ref", "p_paren", "p_type"):
        return match_pat(pat.get("pat") or pat.get("e"), val, env)
    if k == "p_or":
        for c in pat["c"]:
            e2 = dict(env)
            if match_pat(c, val, e2):
                env.update(e2)
                return True
        return False
    if val is None:
        raise Unknown("refutable pattern on an unknown value: " + show(pat)[:40])
    if k == "p_path":
        return last_seg(pat["p"]) == val.ctor
    if k == "p_ts":
        if last_seg(pat["p"]) != val.ctor:
            return False
        subs = pat.get("e") or []
        for i, sp in enumerate(subs):
            if sp.get("k") == "p_rest":
                break
            v = val.args[i] if i < len(val.args) else None
            if not match_pat(sp, v, env):
                return False
        return True
    if k == "p_struct":
        if last_seg(pat["p"]) != val.ctor:
            return False
        for fld in pat["f"]:
            name = fld[0]
            sp = fld[1] if len(fld) > 1 and isinstance(fld[1], dict) else {"k": "p_ident", "n": name}
            if not match_pat(sp, val.fields.get(name), env):
                return False
        return True
    if k == "lit":
        raise Unknown("literal pattern")
    raise Unknown("pattern " + str(k))


def _scrut(e, env):
    while e.get("k") in ("ref", "paren") or (e.get("k") == "un" and e["op"] == "*"):
        e = e["e"]
    if e.get("k") == "path" and e["p"] in env:
        return env[e["p"]]
    if e.get("k") == "field":
        b = _scrut(e["e"], env)
        if isinstance(b, V) and e["f"] in b.fields:
            return b.fields[e["f"]]
    if e.get("k") == "tuple":
        return V("()", args=[_scrut(x, env) for x in e["e"]])
    raise Unknown("scrutinee " + show(e)[:40])


def select(node, env, syn=None, owner=None, depth=0):
    """The expression node `node` evaluates to for the bindings `env`: matches are decided by their patterns, blocks by their tail, a call of a
    private helper of the same file (all arguments known values) by the helper's body."""
    if node is None or depth > 12:
        raise Unknown("empty / too deep")
    k = node.get("k")
    if k == "block":
        t = tail_expr(node)
        if t is None:
            raise Unknown("block without value")
        return select(t, env, syn, owner, depth + 1)
    if k == "paren":
        return select(node["e"], env, syn, owner, depth + 1)
    if k == "match":
        val = _scrut(node["e"], env)
        for arm in node["arms"]:
            e2 = dict(env)
            if match_pat(arm["pat"], val, e2):
                if arm.get("guard") is not None:
                    raise Unknown("guarded arm")
                return select(arm["body"], e2, syn, owner, depth + 1)
        raise Unknown("no arm matches")
    if k == "call" and syn is not None and owner is not None and node["f"].get("k") == "path":
        hs = [h for h in syn.fns if h["crate"] == owner["crate"] and h["file"] == owner["file"] and h["name"] == last_seg(node["f"]["p"]) and "body" in h]
        if len(hs) == 1 and len(hs[0].get("params", [])) == len(node["a"]):
            try:
                vals = [_scrut(a, env) for a in node["a"]]
            except Unknown:
                return node
            henv = {p["name"]: v for p, v in zip(hs[0]["params"], vals)}
            return select(hs[0]["body"], henv, syn, hs[0], depth + 1)
    return node
