"""Evaluate a small boolean Rust expression over an enumerated environment (truth-table comparison instead of text comparison).

Supported: `!`, `&&`, `||`, parentheses, `==`/`!=` between atoms, `matches!(x, P | Q)` on enum paths, atoms supplied by the
caller through `atom(node_text) -> value | None`. Locals are inlined through alpha.Inliner."""
from synq import show, pat_alts, pat_head, last_seg


class Unknown(Exception):
    def __init__(self, msg, atom=None):
        super().__init__(msg)
        self.atom = atom


def ev(node, atom, inl, depth=0):
    if node is None or depth > 40:
        raise Unknown("empty / too deep")
    k = node.get("k")
    if k == "paren":
        return ev(node["e"], atom, inl, depth + 1)
    if k == "block" and len(node["s"]) == 1:
        return ev(node["s"][0], atom, inl, depth + 1)
    if k == "lit" and node.get("t") == "bool":
        return bool(node["v"])
    if k == "un" and node["op"] == "!":
        return not ev(node["e"], atom, inl, depth + 1)
    if k == "bin" and node["op"] == "&&":
        return ev(node["lhs"], atom, inl, depth + 1) and ev(node["rhs"], atom, inl, depth + 1)
    if k == "bin" and node["op"] == "||":
        return ev(node["lhs"], atom, inl, depth + 1) or ev(node["rhs"], atom, inl, depth + 1)
    if k == "path" and "::" not in node["p"] and inl is not None:
        v = atom(node["p"])                       # the name as written first (a rule may give a value to a local by name)
        if isinstance(v, bool):
            return v
        init = inl._init_of(node, node["p"])
        if init is not None:
            return ev(init, atom, inl, depth + 1)
    if k == "macro" and node.get("n") == "matches" and node.get("a"):
        v = atom(show(node["a"][0]).lstrip("&*"))
        if v is None:
            raise Unknown("matches! on " + show(node["a"][0]))
        heads = [last_seg(str(pat_head(a))) for a in pat_alts(node["pat"])]
        if node.get("guard") is not None:
            raise Unknown("matches! with guard")
        return last_seg(str(v)) in heads
    if k == "bin" and node["op"] in ("==", "!="):
        def val(x):
            v_ = atom(show(x).lstrip("&*"))            # the name as written first (a rule may give a value to a local by name)
            if v_ is None and inl is not None:
                v_ = atom(inl.show(x).lstrip("&*"))      # then what it was computed from
            return v_
        a, b = val(node["lhs"]), val(node["rhs"])
        if a is None:
            a = show(node["lhs"]) if node["lhs"].get("k") == "path" and "::" in node["lhs"]["p"] else None
        if b is None:
            b = show(node["rhs"]) if node["rhs"].get("k") == "path" and "::" in node["rhs"]["p"] else None
        if a is None or b is None:
            raise Unknown("comparison " + show(node))
        eq = last_seg(str(a)) == last_seg(str(b))
        return eq if node["op"] == "==" else not eq
    if k == "match":
        return _ev_match(node, atom, inl)
    if k == "if" and node.get("e") is not None:
        br = node["t"] if ev(node["c"], atom, inl, depth + 1) else node["e"]
        return ev_body(br, atom, inl)
    if k == "mcall" and node["m"] in ("clone", "as_str", "as_ref") and not node["a"]:
        return ev(node["r"], atom, inl, depth + 1)
    txt = show(node, maxdepth=8)
    v = atom(txt)
    if v is None and inl is not None:
        txt = inl.show(node)
        v = atom(txt)
    if v is None:
        raise Unknown("atom " + txt[:80], atom=txt)
    return v


def ev_body(block, atom, inl):
    """Value of a function body / block that decides a boolean: `let`s are inlined on demand, `if c { return e }` statements
    are early exits, the last expression is the result."""
    if block.get("k") != "block":
        return ev(block, atom, inl)
    for st in block["s"]:
        k = st.get("k")
        if k in ("local", "item_fn", "macro"):
            continue
        if k == "if" and any(x.get("k") == "return" for x in __import__("synq").walk(st)):
            c = ev(st["c"], atom, inl)
            br = st["t"] if c else st.get("e")
            if br is None:
                continue
            r = _returned(br, atom, inl)
            if r is not None:
                return r
            continue
        if k == "return":
            return ev(st["e"], atom, inl)
        if st is block["s"][-1]:
            return ev_expr(st, atom, inl)
    raise Unknown("no result expression")


def _returned(block, atom, inl):
    sts = block["s"] if block.get("k") == "block" else [block]
    for st in sts:
        if st.get("k") == "return":
            return ev(st["e"], atom, inl)
        if st.get("k") == "if":
            c = ev(st["c"], atom, inl)
            br = st["t"] if c else st.get("e")
            if br is not None:
                r = _returned(br, atom, inl)
                if r is not None:
                    return r
    return None


def ev_expr(node, atom, inl):
    """like ev, plus `if c {a} else {b}` and `match x { P => a, .. }` expressions with boolean branches"""
    k = node.get("k")
    if k == "if" and node.get("e") is not None:
        br = node["t"] if ev(node["c"], atom, inl) else node["e"]
        return ev_body(br, atom, inl)
    if k == "match":
        return _ev_match(node, atom, inl)
    return ev(node, atom, inl)


def _ev_match(node, atom, inl):
    v = atom(show(node["e"]).lstrip("&*"))
    if v is None:
        raise Unknown("match on " + show(node["e"]))
    for arm in node["arms"]:
        heads = [str(pat_head(a)) for a in pat_alts(arm["pat"])]
        if any(h == "_" or last_seg(h) == last_seg(str(v)) for h in heads):
            if arm.get("guard") is not None and not ev(arm["guard"], atom, inl):
                continue
            b = arm["body"]
            return ev_body(b, atom, inl) if b.get("k") == "block" else ev_expr(b, atom, inl)
    raise Unknown("no arm matches " + str(v))


def leaf(node, atom, inl, depth=0):
    """The expression a value-returning block / expression evaluates to under the environment `atom`: decisions (`if`, `match` on a
    scrutinee the environment knows, early returns, locals bound to such decisions) are taken, everything else is the leaf."""
    from synq import walk
    if node is None or depth > 30:
        raise Unknown("empty / too deep")
    k = node.get("k")
    if k == "paren":
        return leaf(node["e"], atom, inl, depth + 1)
    if k == "block":
        for st in node["s"]:
            sk = st.get("k")
            if sk in ("local", "item_fn", "macro") and st is not node["s"][-1]:
                continue
            if sk == "return":
                return leaf(st["e"], atom, inl, depth + 1)
            if sk == "if" and st is not node["s"][-1] and any(x.get("k") == "return" for x in walk(st)):
                br = st["t"] if ev(st["c"], atom, inl) else st.get("e")
                if br is not None:
                    rets = [x for x in br["s"] if x.get("k") == "return"] if br.get("k") == "block" else []
                    if rets:
                        return leaf(rets[0]["e"], atom, inl, depth + 1)
                continue
            if st is node["s"][-1]:
                return leaf(st, atom, inl, depth + 1)
        raise Unknown("no result expression")
    if k == "if" and node.get("e") is not None:
        return leaf(node["t"] if ev(node["c"], atom, inl) else node["e"], atom, inl, depth + 1)
    if k == "match":
        v = atom(show(node["e"]).lstrip("&*"))
        if v is None and inl is not None:
            v = atom(inl.show(node["e"]).lstrip("&*"))
        if v is None:
            raise Unknown("match on " + show(node["e"]))
        for arm in node["arms"]:
            heads = [str(pat_head(a)) for a in pat_alts(arm["pat"])]
            if any(h == "_" or last_seg(h) == last_seg(str(v)) for h in heads):
                if arm.get("guard") is not None and not ev(arm["guard"], atom, inl):
                    continue
                return leaf(arm["body"], atom, inl, depth + 1)
        raise Unknown("no arm matches " + str(v))
    if k == "path" and "::" not in node["p"] and inl is not None:
        init = inl._init_of(node, node["p"])
        if init is not None and init.get("k") in ("if", "match", "block"):
            try:
                return leaf(init, atom, inl, depth + 1)
            except Unknown:
                return node          # a decision the environment says nothing about: the local itself is the leaf
    return node


def rows(cond, inl, fixed, max_free=6):
    """Truth table of `cond`: atoms for which `fixed(text)` gives a value are fixed, every other atom met during evaluation is enumerated.
    -> [({free atom text: value}, value of cond)]"""
    import itertools
    free = []
    for _ in range(max_free + 1):
        try:
            out = []
            for vals in itertools.product((True, False), repeat=len(free)):
                env = dict(zip(free, vals))

                def atom(t, env=env):
                    t = t.replace(" ", "")
                    v = fixed(t)
                    return v if v is not None else env.get(t)
                out.append((env, ev(cond, atom, inl)))
            return out
        except Unknown as e:
            a = (e.atom or "").replace(" ", "")
            if not a or a in free or len(free) >= max_free:
                raise
            free.append(a)
    raise Unknown("too many free atoms")
