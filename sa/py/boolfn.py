"""Evaluate a small boolean Rust expression over an enumerated environment (truth-table comparison instead of text comparison).

Supported: `!`, `&&`, `||`, parentheses, `==`/`!=` between atoms, `matches!(x, P | Q)` on enum paths, atoms supplied by the
caller through `atom(node_text) -> value | None`. Locals are inlined through alpha.Inliner."""
from synq import show, pat_alts, pat_head, last_seg


class Unknown(Exception):
    pass


def ev(node, atom, inl, depth=0):
    if node is None or depth > 40:
        raise Unknown("empty / too deep")
    k = node.get("k")
    if k == "paren":
        return ev(node["e"], atom, inl, depth + 1)
    if k == "block" and len(node["s"]) == 1:
        return ev(node["s"][0], atom, inl, depth + 1)
    if k == "lit" and node.get("t") == "bool":
        return bool(node["v"])
    if k == "un" and node["op"] == "!":
        return not ev(node["e"], atom, inl, depth + 1)
    if k == "bin" and node["op"] == "&&":
        return ev(node["lhs"], atom, inl, depth + 1) and ev(node["rhs"], atom, inl, depth + 1)
    if k == "bin" and node["op"] == "||":
        return ev(node["lhs"], atom, inl, depth + 1) or ev(node["rhs"], atom, inl, depth + 1)
    if k == "path" and "::" not in node["p"] and inl is not None:
        init = inl._init_of(node, node["p"])
        if init is not None:
            return ev(init, atom, inl, depth + 1)
    if k == "macro" and node.get("n") == "matches" and node.get("a"):
        v = atom(show(node["a"][0]).lstrip("&*"))
        if v is None:
            raise Unknown("matches! on " + show(node["a"][0]))
        heads = [last_seg(str(pat_head(a))) for a in pat_alts(node["pat"])]
        if node.get("guard") is not None:
            raise Unknown("matches! with guard")
        return last_seg(str(v)) in heads
    if k == "bin" and node["op"] in ("==", "!="):
        a, b = atom(show(node["lhs"]).lstrip("&*")), atom(show(node["rhs"]).lstrip("&*"))
        if a is None:
            a = show(node["lhs"]) if node["lhs"].get("k") == "path" and "::" in node["lhs"]["p"] else None
        if b is None:
            b = show(node["rhs"]) if node["rhs"].get("k") == "path" and "::" in node["rhs"]["p"] else None
        if a is None or b is None:
            raise Unknown("comparison " + show(node))
        eq = last_seg(str(a)) == last_seg(str(b))
        return eq if node["op"] == "==" else not eq
    v = atom(show(node, maxdepth=8))
    if v is None:
        raise Unknown("atom " + show(node, maxdepth=6))
    return v
