"""Report / evidence / known-findings plumbing shared by all rule modules."""
import json
import os
import sys
import time

from facts import VERIF, REPO, BuildFailed, syn_facts, mir_facts
from synq import Syn, AnchorMissing

EVID = os.path.join(VERIF, "evidence")
if os.environ.get("VERIF_SELFTEST"):
    # self-test runs analyse scratch copies: their evidence must not replace the evidence of /repo
    # (one directory per process: parallel self-test workers run the same property at the same time)
    import atexit
    import shutil
    import tempfile
    EVID = tempfile.mkdtemp(prefix="prql-selftest-evidence-")
    atexit.register(shutil.rmtree, EVID, True)
KNOWN = os.path.join(VERIF, "known_findings.json")


class Ctx:
    """Lazy access to the fact sets for one run."""

    def __init__(self, tier, seed, features=None):
        self.tier = tier
        self.seed = seed
        self.features = features
        self._syn = None
        self._mir = None
        self._std = None
        self._cg = None
        self.repo = REPO

    @property
    def syn(self):
        if self._syn is None:
            self._syn = Syn(syn_facts())
        return self._syn

    @property
    def mir(self):
        if self._mir is None:
            self._mir = mir_facts(features=self.features)
        return self._mir

    @property
    def std(self):
        if self._std is None:
            import stdlib
            self._std = stdlib.load(self.repo)
        return self._std

    @property
    def cg(self):
        if self._cg is None:
            import callgraph
            self._cg = callgraph.CallGraph(self.mir)
        return self._cg

    def read(self, rel):
        with open(os.path.join(self.repo, rel), encoding="utf-8") as f:
            return f.read()


class Report:
    def __init__(self, pid, tier, seed):
        self.pid = pid
        self.tier = tier
        self.seed = seed
        self.rules = {}  # rule id -> dict(desc, instances=[...])
        self.violations = []  # dict(rule,key,msg,file,line,fn)
        self.notes = []
        self.t0 = time.time()
        self.cur = None

    # --- rule bookkeeping -------------------------------------------------
    def rule(self, rid, desc, floor=0):
        self.cur = rid
        self.rules[rid] = {"desc": desc, "floor": floor, "instances": [], "nontrivial": set()}
        return rid

    def ok(self, key, detail=None, rule=None, nontrivial=True):
        r = self.rules[rule or self.cur]
        r["instances"].append({"key": key, "ok": True, "detail": detail})
        if nontrivial:
            r["nontrivial"].add(key)

    def bad(self, key, msg, file=None, line=None, fn=None, rule=None, detail=None):
        rid = rule or self.cur
        r = self.rules[rid]
        r["instances"].append({"key": key, "ok": False, "detail": detail or msg})
        r["nontrivial"].add(key)
        self.violations.append(
            {"rule": rid, "key": f"{rid}:{key}", "msg": msg, "file": file, "line": line, "fn": fn, "detail": detail}
        )

    def check(self, cond, key, msg, detail=None, **loc):
        if cond:
            self.ok(key, detail)
        else:
            self.bad(key, msg, detail=detail, **loc)
        return cond

    def borrowed(self, rule_fn, ctx, as_id, why, only=None):
        """Run another property's rule under this property's id: the invariant it decides is one this property relies on.
        `only`: regular expression; instances whose key does not match are left to the owning property
        (floors are not borrowed when a filter is given)."""
        import re as _re
        real = self.rule
        n = [0]

        def renamed(rid, desc, floor=0):
            n[0] += 1
            return real(as_id if n[0] == 1 else f"{as_id}{chr(ord('a') + n[0] - 1)}", f"{why} [= {rid}: {desc}]", 0 if only else floor)
        self.rule = renamed
        if only is not None:
            pat = _re.compile(only)
            real_ok, real_bad = self.ok, self.bad

            def ok_f(key, *a, **k):
                if pat.search(key):
                    return real_ok(key, *a, **k)

            def bad_f(key, *a, **k):
                if pat.search(key):
                    return real_bad(key, *a, **k)
            self.ok, self.bad = ok_f, bad_f
        try:
            self.guard(rule_fn, ctx)
        finally:
            self.rule = real
            if only is not None:
                del self.ok, self.bad

    def guard(self, rule_fn, ctx):
        """Run one rule; a missing anchor is a violation of that rule, other rules still run."""
        try:
            rule_fn(ctx, self)
        except AnchorMissing as e:
            rid = self.cur or "anchor"
            if rid not in self.rules:
                self.rule(rid, "anchors")
            self.bad("anchor", str(e) + " (fail closed: the rule cannot be evaluated)", rule=rid)

    def note(self, s):
        self.notes.append(s)

    def finish_floors(self):
        for rid, r in self.rules.items():
            n = len(r["instances"])
            if n < r["floor"]:
                self.violations.append(
                    {
                        "rule": rid,
                        "key": f"{rid}:floor",
                        "msg": f"rule matched {n} instance(s), fewer than the {r['floor']} confirmed by hand "
                        "when the rule was armed: an anchor moved or the rule has gone vacuous",
                        "file": None, "line": None, "fn": None, "detail": None,
                    }
                )


def load_known():
    if not os.path.exists(KNOWN):
        return []
    with open(KNOWN) as f:
        return json.load(f)["findings"]


def emit(rep, level_text, assumptions, explanation, exhaustive=False, extra_cov=None):
    """Print the report, write evidence, return the exit code."""
    rep.finish_floors()
    known = [k for k in load_known() if k["property"] == rep.pid]
    known_keys = {k["key"]: k for k in known if k.get("status", "known") == "known"}
    real, kf = [], []
    for v in rep.violations:
        if v["key"] in known_keys:
            kf.append(v)
        else:
            real.append(v)
    print(f"== {rep.pid} ({rep.tier}) ==")
    n_inst = 0
    distinct = set()
    samples = []
    for rid, r in rep.rules.items():
        n = len(r["instances"])
        n_inst += n
        nbad = sum(1 for i in r["instances"] if not i["ok"])
        for k in r["nontrivial"]:
            distinct.add(f"{rid}:{k}")
        print(f"  {rid}: {r['desc']}  [{n} instance(s), floor {r['floor']}, {nbad} failing]")
        for i in r["instances"][:2]:
            samples.append({"rule": rid, "instance": i["key"], "ok": i["ok"], "detail": i["detail"]})
    for s in rep.notes:
        print("  note:", s)
    for v in kf:
        k = known_keys[v["key"]]
        print(f"KNOWN-FINDING: property={rep.pid} {v['key']} {k.get('what') or v['msg']}")
    stale = [k for k in known_keys if k not in {v["key"] for v in kf}]
    for k in stale:
        print(f"  note: known finding {k} no longer matches (fixed or code moved)")
    code = 0
    vdir = os.path.join(EVID, "violations")
    # clear old violation files of this property
    if os.path.isdir(vdir):
        for f in os.listdir(vdir):
            if f.startswith(rep.pid + "-"):
                os.remove(os.path.join(vdir, f))
    for n, v in enumerate(real, 1):
        os.makedirs(vdir, exist_ok=True)
        p = os.path.join(vdir, f"{rep.pid}-{n}.json")
        with open(p, "w") as f:
            json.dump(v, f, indent=1)
        where = ""
        if v.get("file"):
            where = f" at {v['file']}:{v.get('line')}"
        if v.get("fn"):
            where += f" in {v['fn']}"
        print(f"  FAIL {v['key']}{where}: {v['msg']}")
        print(f"VIOLATION property={rep.pid} replay={os.path.relpath(p, VERIF)}")
        code = 1
    cov = {
        "explanation": explanation,
        "evaluations": max(n_inst, 1),
        "distinct_nontrivial": len(distinct),
        "rule": "one evaluation = one rule instance (a table row, call site, construction site, template or "
        "path obligation) extracted from /repo's current source; distinct = distinct (rule, instance key); "
        "non-trivial = the instance had a condition to decide (not merely listed)",
        "obligations": n_inst,
        "discharged": n_inst - len(rep.violations),
        "samples": samples[:40],
        "exhaustive": bool(exhaustive),
        "rules": {rid: {"desc": r["desc"], "instances": len(r["instances"]), "floor": r["floor"],
                         "failing": [i["key"] for i in r["instances"] if not i["ok"]]}
                  for rid, r in rep.rules.items()},
        "known_findings_matched": [v["key"] for v in kf],
        "notes": rep.notes,
    }
    if extra_cov:
        cov.update(extra_cov)
    ev = {
        "property_id": rep.pid,
        "tier": rep.tier,
        "seed": rep.seed,
        "level": "other",
        "coverage": cov,
        "assumptions": assumptions,
        "wall_s": round(time.time() - rep.t0, 3),
        "violations": len(real),
    }
    os.makedirs(EVID, exist_ok=True)
    with open(os.path.join(EVID, rep.pid + ".json"), "w") as f:
        json.dump(ev, f, indent=1, default=str)
    print(f"  -> {n_inst} instances, {len(real)} violation(s), {len(kf)} known finding(s), "
          f"{ev['wall_s']}s; evidence/{rep.pid}.json")
    return code


def fail_closed(pid, tier, seed, what, log):
    """The tree could not be analysed: report as a violation, never as a pass."""
    vdir = os.path.join(EVID, "violations")
    os.makedirs(vdir, exist_ok=True)
    p = os.path.join(vdir, f"{pid}-build.log")
    with open(p, "w") as f:
        f.write(what + "\n\n" + (log or ""))
    ev = {
        "property_id": pid, "tier": tier, "seed": seed, "level": "other",
        "coverage": {"explanation": "analysis could not run: " + what, "evaluations": 1, "distinct_nontrivial": 0,
                     "samples": [what]},
        "assumptions": [], "wall_s": 0.0, "violations": 1,
    }
    with open(os.path.join(EVID, pid + ".json"), "w") as f:
        json.dump(ev, f, indent=1)
    print(f"  FAIL {pid}: {what}")
    print(f"VIOLATION property={pid} replay={os.path.relpath(p, VERIF)}")
    return 1
