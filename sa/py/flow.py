"""Small structured control-flow rules over syntax trees (no closures entered).

must_precede_exits(block, marker): every non-error exit of `block` (an explicit `return`
whose value is not `Err(..)`, or falling off its end) must be preceded on that path by a
statement for which marker(node) is true.  `?` exits are error exits and are ignored.
"""
from synq import walk_no_closure, show


def _is_err_return(n):
    e = n.get("e")
    if e is None:
        return False
    s = show(e, maxdepth=3)
    return s.startswith("Err(") or s.startswith("Err (")


def _contains_marker(node, marker):
    for n in walk_no_closure(node):
        if n.get("k") in ("if", "match", "for", "while", "loop") and n is not node:
            # nested control flow is handled structurally by the caller when it is a statement;
            # inside an expression we accept a marker anywhere (over-approximation towards "satisfied")
            pass
        if marker(n):
            return True
    return False


def _diverges(block):
    if block is None or block.get("k") != "block" or not block["s"]:
        return False
    last = block["s"][-1]
    return last.get("k") in ("return", "break", "continue") or (last.get("k") == "macro" and last["n"] in ("panic", "unreachable", "todo"))


def exits(block, marker, sat=False):
    """Returns (list of (line, satisfied) for explicit non-error returns, satisfied-at-end, diverges)"""
    out = []
    if block is None:
        return out, sat, False
    stmts = block["s"] if block.get("k") == "block" else [block]
    for st in stmts:
        k = st.get("k")
        # `let x = match .. { .. }` / `let x = if .. { .. } else { .. }`: control flow inside an initialiser
        if k == "local" and st.get("init") is not None and st["init"].get("k") in ("match", "if"):
            st = st["init"]
            k = st.get("k")
        if k == "return":
            if not _is_err_return(st):
                # the returned expression itself may contain the marker
                s2 = sat or (st.get("e") is not None and _contains_marker(st["e"], marker))
                out.append((st["l"], s2))
            return out, sat, True
        if k == "if":
            t_out, t_sat, t_div = exits(st["t"], marker, sat or _contains_marker(st["c"], marker))
            out += t_out
            if st.get("e") is not None:
                e_out, e_sat, e_div = exits(st["e"], marker, sat)
                out += e_out
            else:
                e_sat, e_div = sat, False
            if t_div and e_div:
                return out, sat, True
            if t_div:
                sat = e_sat
            elif e_div:
                sat = t_sat
            else:
                sat = t_sat and e_sat
            continue
        if k == "match":
            sats = []
            alldiv = True
            for arm in st["arms"]:
                a_out, a_sat, a_div = exits(arm["body"], marker, sat)
                out += a_out
                if not a_div:
                    sats.append(a_sat)
                    alldiv = False
            if alldiv and st["arms"]:
                return out, sat, True
            sat = all(sats) if sats else sat
            continue
        if k in ("for", "while", "loop"):
            b_out, _, _ = exits(st["body"], marker, sat)
            out += b_out
            continue
        if k == "block":
            b_out, sat, div = exits(st, marker, sat)
            out += b_out
            if div:
                return out, sat, True
            continue
        # ordinary statement: nested returns inside expressions (e.g. `let x = match .. { .. => return .. }`)
        nested_ctrl = [n for n in walk_no_closure(st) if n is not st and n.get("k") in ("if", "match")]
        for n in walk_no_closure(st):
            if n.get("k") == "return" and not _is_err_return(n):
                out.append((n["l"], sat))
        if _contains_marker(st, marker):
            sat = True
    return out, sat, False


def must_precede_exits(block, marker, end_is_exit=True):
    """List of offending exits: (line or 'end', description)."""
    out, sat, div = exits(block, marker, False)
    bad = [(l, "return") for l, s in out if not s]
    if end_is_exit and not div and not sat:
        bad.append((block.get("el", block.get("l")), "end of block"))
    return bad


def loop_progress(body, marker):
    """For a loop body: every path that reaches the end of the body (or a `continue`) must have executed a
    statement for which marker(node) holds; `break` / `return` leave the loop and need nothing.
    Returns the list of offending points [(line, kind)]."""
    bad = []

    def walk_block(block, sat):
        """returns (satisfied_at_end, diverges)"""
        stmts = block["s"] if block.get("k") == "block" else [block]
        for st in stmts:
            k = st.get("k")
            if k in ("break", "return"):
                return sat, True
            if k == "continue":
                if not sat:
                    bad.append((st["l"], "continue"))
                return sat, True
            if k == "if":
                c_sat = sat or _contains_marker(st["c"], marker)
                t_sat, t_div = walk_block(st["t"], c_sat)
                if st.get("e") is not None:
                    e_sat, e_div = walk_block(st["e"], c_sat)
                else:
                    e_sat, e_div = c_sat, False
                if t_div and e_div:
                    return sat, True
                sat = e_sat if t_div else t_sat if e_div else (t_sat and e_sat)
                continue
            if k == "match":
                sats, alldiv = [], True
                m_sat = sat or _contains_marker(st["e"], marker)
                for arm in st["arms"]:
                    a_sat, a_div = walk_block(arm["body"], m_sat)
                    if not a_div:
                        sats.append(a_sat)
                        alldiv = False
                if alldiv and st["arms"]:
                    return sat, True
                sat = all(sats) if sats else m_sat
                continue
            if k in ("for", "while", "loop"):
                # an inner loop may run zero times: contributes nothing
                continue
            if k == "block":
                sat, div = walk_block(st, sat)
                if div:
                    return sat, True
                continue
            if _contains_marker(st, marker):
                sat = True
        return sat, False

    sat, div = walk_block(body, False)
    if not div and not sat:
        bad.append((body.get("el", body.get("l")), "end of loop body"))
    return bad
