"""./check --selftest [seed-id ...]

Checker self-test, both ways, on scratch copies of /repo's sources (never on /repo itself):
  * every confirmed seeded change under /verif/seeded/<id>/ must make the check named in its meta.json fail,
    and the report must name the expected rule;
  * behaviour-preserving variants (shifted lines, reordered match arms, an extra correct dialect override,
    a renumbered-but-consistent strength) must stay silent.
Scratch copies live under $TMPDIR and are removed afterwards.
"""
import json
import os
import re
import shutil
import subprocess
import sys
import tempfile

VERIF = os.path.dirname(os.path.dirname(os.path.dirname(os.path.abspath(__file__))))
REPO = "/repo"


HEAD = None


def make_copy_head():
    global HEAD
    if HEAD is None:
        r = subprocess.run(["git", "-C", REPO, "rev-parse", "HEAD"], stdout=subprocess.PIPE, stderr=subprocess.DEVNULL, text=True)
        HEAD = r.stdout.strip() if r.returncode == 0 else ""


def make_copy():
    """A scratch copy of /repo's committed tree (HEAD at the time the selftest started): immune to edits of the working tree
    made while the selftest runs. Falls back to the working tree when /repo is not a git checkout."""
    global HEAD
    d = tempfile.mkdtemp(prefix="prql-selftest-")
    if HEAD is None:
        r = subprocess.run(["git", "-C", REPO, "rev-parse", "HEAD"], stdout=subprocess.PIPE, stderr=subprocess.DEVNULL, text=True)
        HEAD = r.stdout.strip() if r.returncode == 0 else ""
    if HEAD:
        a = subprocess.Popen(["git", "-C", REPO, "archive", HEAD], stdout=subprocess.PIPE)
        subprocess.run(["tar", "-x", "-C", d], stdin=a.stdout, check=True)
        a.wait()
    else:
        subprocess.run(["rsync", "-a", "--exclude", "/target", "--exclude", ".git", "--exclude", "node_modules", REPO + "/", d + "/"], check=True)
    return d


import threading
_slot = threading.local()


def worker_target(i):
    """Each parallel worker analyses its scratch copies with its own cargo target dir (a copy of the warm one)."""
    base = os.path.join(VERIF, ".cache", "target-nightly")
    if i == 0:
        return base
    d = base + f"-w{i}"
    if not os.path.isdir(d) and os.path.isdir(base):
        subprocess.run(["cp", "-a", base, d], check=False)
    return d


def run_check(pid, repo):
    env = dict(os.environ, VERIF_REPO=repo, VERIF_SELFTEST="1", VERIF_FACTS_DIR=os.path.join(repo, ".verif-facts"))
    if getattr(_slot, "i", None) is not None:
        env["VERIF_TARGET"] = worker_target(_slot.i)
    r = subprocess.run([os.path.join(VERIF, "check"), pid], env=env, stdout=subprocess.PIPE, stderr=subprocess.STDOUT, text=True)
    return r.returncode, r.stdout


def git_apply(repo, patch):
    r = subprocess.run(["git", "apply", "--unsafe-paths", "--directory", repo, patch], cwd="/", stdout=subprocess.PIPE, stderr=subprocess.STDOUT, text=True)
    if r.returncode != 0:
        # `patch` accepts fuzz where `git apply` does not, but it is not atomic: try it dry first, so that a patch that does not fit leaves the copy untouched
        r = subprocess.run(["patch", "-p1", "-d", repo, "-i", patch, "--quiet", "--dry-run"], stdout=subprocess.PIPE, stderr=subprocess.STDOUT, text=True)
        if r.returncode == 0:
            r = subprocess.run(["patch", "-p1", "-d", repo, "-i", patch, "--quiet"], stdout=subprocess.PIPE, stderr=subprocess.STDOUT, text=True)
    return r.returncode == 0, r.stdout


def benign_variants():
    def shift_lines(repo):
        for rel in ("prqlc/prqlc/src/sql/gen_expr.rs", "prqlc/prqlc/src/semantic/lowering.rs", "prqlc/prqlc-parser/src/lexer/mod.rs", "prqlc/prqlc/src/sql/pq/anchor.rs"):
            p = os.path.join(repo, rel)
            s = open(p).read()
            # insert a comment block after the first `use` line group
            i = s.index("\n\n", s.index("use "))
            open(p, "w").write(s[:i] + "\n\n// selftest: seven\n// lines\n// of\n// comment\n// to\n// shift\n// every item" + s[i:])
        return "comment lines inserted near the top of four anchored files (all line numbers shift)"

    def reorder_arms(repo):
        p = os.path.join(repo, "prqlc/prqlc/src/sql/gen_expr.rs")
        s = open(p).read()
        a, b = '        "std.mul" => Some(Multiply),\n', '        "std.add" => Some(Plus),\n'
        assert a + b in s
        open(p, "w").write(s.replace(a + b, b + a))
        return "two arms of operator_from_name swapped"

    def extra_override(repo):
        p = os.path.join(repo, "prqlc/prqlc/src/sql/std.sql.prql")
        s = open(p).read()
        marker = "module snowflake {\n"
        assert marker in s
        s = s.replace(marker, marker + "  @{binding_strength=11}\n  let mod = l r -> s\"{l} % {r:12}\"\n\n")
        open(p, "w").write(s)
        return "a correct extra dialect override (snowflake.mod) added"

    def new_helper_fn(repo):
        p = os.path.join(repo, "prqlc/prqlc/src/sql/pq/postprocess.rs")
        s = open(p).read()
        s += "\n#[allow(dead_code)]\nfn selftest_helper(names: &std::collections::HashSet<String>) -> usize {\n    names.iter().count()\n}\n"
        open(p, "w").write(s)
        return "an unused helper that iterates a HashSet with an order-insensitive consumer added"

    return [("shift-lines", shift_lines, ["C02", "C13", "C16", "C17", "C01", "C12"]), ("reorder-arms", reorder_arms, ["C02", "C07"]),
            ("extra-override", extra_override, ["C02", "C07", "C04"]), ("new-helper", new_helper_fn, ["C11", "C12"])]


def fix_regressions():
    """[(commit, subject, property, [fixed keys])] from /repo's `fix:` commits joined with known_findings.json (status fixed)."""
    kf = json.load(open(os.path.join(VERIF, "known_findings.json")))["findings"]
    log = subprocess.run(["git", "-C", REPO, "log", "--format=%h %s"], stdout=subprocess.PIPE, text=True).stdout.splitlines()
    out = []
    for line in log:
        h, subj = line.split(" ", 1)
        if not subj.startswith("fix:"):
            continue
        by_prop = {}
        for f in kf:
            c = f.get("commit") or ""
            if f["status"] == "fixed" and c and (h.startswith(c) or c.startswith(h)):
                by_prop.setdefault(f["property"], []).append(f["key"])
        for pid, keys in sorted(by_prop.items()):
            out.append((h, subj, pid, keys))
        if not by_prop:
            out.append((h, subj, None, []))
    return out


def later_fixes(h):
    """`fix:` commits newer than h, newest first"""
    out = []
    for line in subprocess.run(["git", "-C", REPO, "log", "--format=%h %s"], stdout=subprocess.PIPE, text=True).stdout.splitlines():
        h2, subj = line.split(" ", 1)
        if h2 == h:
            break
        if subj.startswith("fix:"):
            out.append(h2)
    return out


def regress_case(h, subj, pid, keys):
    name = f"regress:{h}" + (f":{pid}" if pid else "")
    if pid is None:
        return (name, "skip", f"`{subj}`: no fixed entry in known_findings.json names this commit")
    repo = make_copy()
    try:
        def revert(commit):
            diff = subprocess.run(["git", "-C", REPO, "show", "-R", "--format=", commit], stdout=subprocess.PIPE, text=True).stdout
            pf = os.path.join(repo, ".selftest-revert.diff")
            open(pf, "w").write(diff)
            ok, _ = git_apply(repo, pf)
            os.remove(pf)
            return ok

        def files_of(commit):
            return set(subprocess.run(["git", "-C", REPO, "show", "--name-only", "--format=", commit], stdout=subprocess.PIPE, text=True).stdout.split())

        ok = revert(h)
        also = []
        if not ok:
            # later fix commits on the same files are reverted first (newest first), then this one
            mine = files_of(h)
            for h2 in later_fixes(h):
                if files_of(h2) & mine:
                    if revert(h2):
                        also.append(h2)
            ok = revert(h)
        if not ok:
            return (name, "skip", f"`{subj}`: reverse patch no longer applies (later commits touch the same lines)")
        if also:
            subj = subj + f" (together with later fix(es) {', '.join(also)} on the same lines)"
        rc, out = run_check(pid, repo)
        if "-build.log" in out:
            # later fixes build on this one (e.g. use a helper it introduced): revert every later fix, newest first, then this one
            shutil.rmtree(repo, ignore_errors=True)
            repo = make_copy()
            also = [h2 for h2 in later_fixes(h) if revert(h2)]
            if not revert(h):
                return (name, "skip", f"`{subj}`: cannot be reverted on its own or under its later fixes")
            subj = subj.split(" (together")[0] + f" (together with all later fixes {', '.join(also)}: they build on it)"
            rc, out = run_check(pid, repo)
        fails = [l.strip() for l in out.splitlines() if l.strip().startswith("FAIL")]
        hit = [l for l in fails if any(k in l for k in keys)]
        if rc == 1 and hit:
            return (name, "ok", f"with `{subj}` reverted, {pid} reports {len(hit)} of its {len(keys)} recorded key(s): {hit[0][:100]}")
        return (name, "FAIL", f"with `{subj}` reverted, {pid} exit {rc} and none of the recorded keys {keys[:3]} is reported")
    finally:
        shutil.rmtree(repo, ignore_errors=True)


def stale_case(pid):
    repo = make_copy()
    try:
        rc, out = run_check(pid, repo)
        stale = [l.strip() for l in out.splitlines() if "no longer matches" in l]
        if rc != 0:
            return (f"stale:{pid}", "FAIL", f"{pid} exits {rc} on the unchanged tree")
        if stale:
            return (f"stale:{pid}", "FAIL", f"known finding(s) of {pid} no longer match: {stale[:3]}")
        n = sum(1 for l in out.splitlines() if l.startswith("KNOWN-FINDING"))
        return (f"stale:{pid}", "ok", f"{pid} passes on the unchanged tree and all {n} known finding(s) still match")
    finally:
        shutil.rmtree(repo, ignore_errors=True)


def seed_case(name):
    d = os.path.join(VERIF, "seeded", name)
    meta = json.load(open(os.path.join(d, "meta.json")))
    caught_by = meta.get("caught_by", "")
    m = re.match(r"(C\d\d)\.(R\d+)", caught_by)
    if not m:
        return (name, "skip", "no caught_by rule recorded (seed is listed as missed)")
    pid, rule = m.group(1), m.group(1) + "." + m.group(2)
    repo = make_copy()
    try:
        patch = os.path.join(d, "patch_current.diff") if os.path.exists(os.path.join(d, "patch_current.diff")) else os.path.join(d, "patch.diff")
        ok, out = git_apply(repo, patch)
        if not ok:
            return (name, "FAIL", "patch does not apply to the current tree: " + out.strip()[:120])
        rc, out = run_check(pid, repo)
        named = [l for l in out.splitlines() if l.strip().startswith("FAIL") and rule in l]
        if rc == 1 and named:
            return (name, "ok", f"{pid} fails and names {rule}: {named[0].strip()[:110]}")
        return (name, "FAIL", f"{pid} exit {rc}; expected a FAIL line naming {rule}")
    finally:
        shutil.rmtree(repo, ignore_errors=True)


def variant_case(vname, fn, pids):
    repo = make_copy()
    try:
        what = fn(repo)
        bad = []
        for pid in pids:
            rc, out = run_check(pid, repo)
            if rc != 0:
                bad.append(pid + ": " + "; ".join(l.strip()[:100] for l in out.splitlines() if l.strip().startswith("FAIL"))[:300])
        if bad:
            return ("benign:" + vname, "FAIL", f"{what}: alarm(s) {bad}")
        return ("benign:" + vname, "ok", f"{what}: {', '.join(pids)} stay silent")
    finally:
        shutil.rmtree(repo, ignore_errors=True)


ALLP = ["C01", "C02", "C03", "C04", "C05", "C06", "C07", "C08", "C09", "C10", "C11", "C12", "C13", "C14", "C15", "C16", "C17", "C18"]


def corpus_case(name):
    bdir = os.path.join(VERIF, "benign")
    repo = make_copy()
    try:
        pc = os.path.join(bdir, name, "patch_current.diff")     # the same refactoring re-made after a later fix changed the lines
        ok, out = git_apply(repo, pc if os.path.exists(pc) else os.path.join(bdir, name, "patch.diff"))
        if not ok:
            return ("corpus:" + name, "skip", "patch no longer applies to the current tree")
        meta = json.load(open(os.path.join(bdir, name, "meta.json")))
        bad = []
        for pid in ALLP:
            rc, out = run_check(pid, repo)
            if rc != 0:
                bad.append(pid + ": " + "; ".join(l.strip()[:90] for l in out.splitlines() if l.strip().startswith("FAIL"))[:250])
        if bad:
            return ("corpus:" + name, "FAIL", f"{meta.get('style', '')[:60]} in {meta.get('function', '')[:40]}: alarm(s) {bad}")
        return ("corpus:" + name, "ok", f"{meta.get('style', '')[:70]} ({meta.get('function', '')[:40]}): all checks silent")
    finally:
        shutil.rmtree(repo, ignore_errors=True)


def main(args):
    """./check --selftest [-j N] [regress] [benign] [corpus] [seed-id | corpus:<id> ...]"""
    args = list(args)
    jobs_n = 1
    if "-j" in args:
        i = args.index("-j")
        jobs_n = max(1, int(args[i + 1]))
        del args[i:i + 2]
    seeds_dir = os.path.join(VERIF, "seeded")
    want = set(args)
    jobs = []
    named_regress = {w[len("regress:"):] for w in want if w.startswith("regress:")}
    if not want or "regress" in want or named_regress:
        for h, subj, pid, keys in fix_regressions():
            if "regress" in want or not want or any(h.startswith(x) or x.startswith(h) for x in named_regress):
                jobs.append((regress_case, (h, subj, pid, keys)))
    groups = {"regress", "benign", "corpus", "stale"}
    named_corpus = {w[len("corpus:"):] for w in want if w.startswith("corpus:")}
    named_seeds = {w for w in want if w not in groups and not w.startswith("corpus:") and not w.startswith("regress:")}
    if not want or named_seeds or "seeds" in want:
        for name in sorted(os.listdir(seeds_dir)):
            if not os.path.isdir(os.path.join(seeds_dir, name)) or (named_seeds - {"seeds"} and name not in named_seeds):
                continue
            jobs.append((seed_case, (name,)))
    if not want or "benign" in want:
        for vname, fn, pids in benign_variants():
            jobs.append((variant_case, (vname, fn, pids)))
    bdir = os.path.join(VERIF, "benign")
    if not want or "benign" in want or "corpus" in want or named_corpus:
        # behaviour-preserving refactorings written by independent agents (benign/<id>/patch.diff): every check must stay silent
        for name in sorted(os.listdir(bdir)) if os.path.isdir(bdir) else []:
            if named_corpus and not ("corpus" in want or "benign" in want or not want) and name not in named_corpus:
                continue
            jobs.append((corpus_case, (name,)))
    if not want or "stale" in want:
        # every `known` entry of known_findings.json still matches a violation on the unchanged tree: an entry that silently stops
        # matching (a rule changed, a word search satisfied by an unrelated name) is a finding lost, not a finding repaired
        for pid in sorted({f_["property"] for f_ in json.load(open(os.path.join(VERIF, "known_findings.json")))["findings"] if f_["status"] == "known"}):
            jobs.append((stale_case, (pid,)))
    make_copy_head()
    results = [None] * len(jobs)
    if jobs_n == 1:
        for k, (fn, a) in enumerate(jobs):
            results[k] = fn(*a)
    else:
        import queue
        from concurrent.futures import ThreadPoolExecutor
        slots = queue.Queue()
        for i in range(jobs_n):
            worker_target(i)
            slots.put(i)

        def run(k):
            i = slots.get()
            _slot.i = i
            try:
                fn, a = jobs[k]
                try:
                    results[k] = fn(*a)
                except Exception as e:   # a crashed case is a failed case
                    results[k] = (str(a[0]), "FAIL", f"selftest case crashed: {e!r}")
            finally:
                slots.put(i)
        with ThreadPoolExecutor(max_workers=jobs_n) as ex:
            list(ex.map(run, range(len(jobs))))
    ok_all = not any(r[1] == "FAIL" for r in results)
    for r in results:
        print(f"  [{r[1]:4}] {r[0]}: {r[2]}")
    n_ok = sum(1 for r in results if r[1] == "ok")
    print(f"selftest: {n_ok} ok, {sum(1 for r in results if r[1] == 'FAIL')} failed, {sum(1 for r in results if r[1] == 'skip')} skipped")
    out = os.path.join(VERIF, "evidence", "selftest.json")
    if not want:
        os.makedirs(os.path.dirname(out), exist_ok=True)
        json.dump([{"case": a, "status": b, "detail": c} for a, b, c in results], open(out, "w"), indent=1)
    return 0 if ok_all else 1
