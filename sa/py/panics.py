"""Inventory of panic-capable sites from the rustc driver facts, joined with the syntax trees to name the
receiver's last access step.  A site's class is (file, callee class, step)."""
import collections

from synq import walk, show, last_seg

EXACT = {
    "std::option::Option::<T>::unwrap": "Option::unwrap", "std::option::Option::<T>::expect": "Option::expect",
    "std::result::Result::<T, E>::unwrap": "Result::unwrap", "std::result::Result::<T, E>::expect": "Result::expect",
    "std::result::Result::<T, E>::unwrap_err": "Result::unwrap_err", "std::result::Result::<T, E>::expect_err": "Result::expect_err",
    "std::vec::Vec::<T, A>::remove": "Vec::remove", "std::vec::Vec::<T, A>::swap_remove": "Vec::swap_remove",
    "std::vec::Vec::<T, A>::insert": "Vec::insert", "std::vec::Vec::<T, A>::drain": "Vec::drain",
    "std::vec::Vec::<T, A>::split_off": "Vec::split_off", "std::cell::RefCell::<T>::borrow_mut": "RefCell::borrow_mut",
    "std::cell::RefCell::<T>::borrow": "RefCell::borrow", "std::string::String::remove": "String::remove",
    "std::string::String::insert": "String::insert", "std::string::String::drain": "String::drain",
    "std::str::<impl str>::split_at": "str::split_at", "std::slice::<impl [T]>::split_at": "slice::split_at",
    "std::collections::VecDeque::<T, A>::remove": "VecDeque::remove",
    "core::panicking::panic": "panic", "core::panicking::panic_fmt": "panic", "core::panicking::assert_failed": "assert",
    "core::panicking::panic_explicit": "panic", "core::panicking::unreachable_display": "panic",
    "core::panicking::panic_display": "panic", "std::rt::begin_panic": "panic", "std::process::abort": "abort",
    "std::process::exit": "exit",
}
MACROS = ("unreachable", "todo", "unimplemented", "assert_eq", "assert_ne", "debug_assert", "assert", "panic")


# further library entry points that panic on a bad argument (index out of range, not a char boundary, zero step / divisor, radix out of range,
# capacity overflow); rustc reports the inherent methods of str / slices / integers under `core::`, collections under `alloc::` or `std::`
MORE = {
    "<impl [T]>::split_at": "slice::split_at", "<impl [T]>::split_at_mut": "slice::split_at", "<impl [T]>::swap": "slice::swap",
    "<impl [T]>::chunks": "slice::chunks", "<impl [T]>::chunks_exact": "slice::chunks", "<impl [T]>::windows": "slice::windows",
    "<impl [T]>::copy_from_slice": "slice::copy_from_slice", "<impl [T]>::clone_from_slice": "slice::copy_from_slice",
    "<impl [T]>::rotate_left": "slice::rotate", "<impl [T]>::rotate_right": "slice::rotate", "<impl [T]>::select_nth_unstable": "slice::select_nth",
    "<impl str>::split_at": "str::split_at", "<impl str>::split_at_mut": "str::split_at", "<impl str>::repeat": "str::repeat",
    "String::truncate": "String::truncate", "String::split_off": "String::split_off", "String::replace_range": "String::replace_range",
    "String::insert_str": "String::insert", "Vec::<T, A>::swap_remove": "Vec::swap_remove", "Vec::<T, A>::splice": "Vec::splice",
    "Vec::<T, A>::extend_from_within": "Vec::extend_from_within", "VecDeque::<T, A>::swap": "VecDeque::swap", "VecDeque::<T, A>::insert": "VecDeque::insert",
    "Iterator::step_by": "Iterator::step_by", "from_str_radix": "from_str_radix", "char::methods::<impl char>::from_digit": "char::from_digit",
    "char::methods::<impl char>::to_digit": "char::to_digit", "div_ceil": "int::div_ceil", "div_euclid": "int::div_euclid", "rem_euclid": "int::rem_euclid",
    "next_multiple_of": "int::next_multiple_of", "ilog": "int::ilog", "ilog2": "int::ilog", "ilog10": "int::ilog",
    "Duration::from_secs_f64": "Duration::from_float", "Rc::<T>::try_unwrap": "Rc::try_unwrap",
}


def callee_class(r):
    d = r["def"]
    if d.startswith(("core::", "alloc::")):
        d2 = "std::" + d.split("::", 1)[1]
        if d2 in EXACT:
            d = d2
    if d.startswith(("core::", "alloc::", "std::")) and d not in EXACT:
        for suffix, cls in MORE.items():
            if d.endswith("::" + suffix) or d.endswith(suffix) and ("::" + suffix) in ("::" + d):
                return cls
    if d in EXACT:
        c = EXACT[d]
        if c in ("panic", "assert"):
            m = r.get("macro") or ""
            for w in MACROS:
                if w in m:
                    return w + "!"
            return c
        return c
    if d.endswith("::index") or d.endswith("::index_mut"):
        if "HashMap" in d:
            return "HashMap[]"
        if "Vec<" in d or "Vec::" in d or "VecDeque" in d:
            return "Vec[]"
        if "for str" in d or "String" in d:
            return "str[]"
        if "Captures" in d:
            return "Captures[]"
        if "Map" in d:
            return "Map[]"
        return "Index[]"
    return None


def last_step(e):
    k = e.get("k")
    if k == "mcall":
        return "." + e["m"] + "()"
    if k == "field":
        return "." + e["f"]
    if k == "try":
        return last_step(e["e"]) + "?"
    if k == "path":
        return "var"
    if k == "call":
        return last_seg(show(e["f"])) + "()"
    if k == "index":
        return "[]"
    if k == "macro":
        return e["n"] + "!"
    if k in ("un", "ref", "cast"):
        return last_step(e["e"])
    return str(k)


def short_file(f):
    return f.split("/src/")[-1] if "/src/" in f else f


def collect(cg, syn):
    """-> list of site dicts {file, l, fn, cls, step, key}"""
    sites = []
    seen = set()
    for fid, f in cg.fns.items():
        if (f.get("macro") or "").startswith("#[derive"):
            continue
        owner = cg.owner_fn(fid)
        for r in f["refs"]:
            if r["kind"] != "call" or not r.get("def"):
                continue
            if (r.get("macro") or "").startswith("#[derive"):
                continue
            cc = callee_class(r)
            if not cc:
                continue
            line = r["ml"] if r.get("ml", -1) > 0 else r["l"]
            sf = syn.fn_at(r["file"], line)
            step = "?"
            if sf and "body" in sf:
                name = {"Option::unwrap": "unwrap", "Result::unwrap": "unwrap", "Option::expect": "expect", "Result::expect": "expect",
                        "Result::unwrap_err": "unwrap_err"}.get(cc)
                if name:
                    c = [n for n in walk(sf["body"]) if n.get("k") == "mcall" and n["m"] == name and n["l"] == line]
                    if c:
                        step = last_step(c[0]["r"])
                elif cc.endswith("[]"):
                    c = [n for n in walk(sf["body"]) if n.get("k") == "index" and n["l"] == r["l"]] or \
                        [n for n in walk(sf["body"]) if n.get("k") == "index" and n["l"] <= r["l"] <= n["l"] + 3]
                    if c:
                        ik = c[0]["i"].get("k")
                        if ik == "range" and "s" not in c[0]["i"] and "e" not in c[0]["i"] and len(c) == 1 and cc in ("str[]", "Vec[]", "Index[]"):
                            continue        # `x[..]` (RangeFull) is total: the whole string / slice, no bounds to violate
                        step = last_step(c[0]["e"]) + "[" + ("lit" if ik == "lit" else "range" if ik == "range" else "expr") + "]"
                elif "::" in cc and cc.split("::")[0] in ("Vec", "String", "VecDeque", "RefCell", "str", "slice", "int", "Iterator", "char"):
                    nm = cc.split("::")[1]
                    c = [n for n in walk(sf["body"]) if n.get("k") == "mcall" and n["m"] == nm and n["l"] == line]
                    if c:
                        a0 = c[0]["a"][0] if c[0]["a"] else None
                        step = last_step(c[0]["r"]) + "(" + (show(a0) if a0 is not None and a0.get("k") in ("lit", "range") else "expr" if a0 is not None else "") + ")"
            key = (short_file(r["file"]), cc, step)
            ident = (r["file"], r["l"], r.get("c"), cc)
            if ident in seen:
                continue
            seen.add(ident)
            sites.append({"file": r["file"], "l": r["l"], "fn": owner["path"], "cls": cc, "step": step, "key": key, "macro": r.get("macro")})
        for a in f["asserts"]:
            if a["kind"] in ("bounds", "div_zero", "rem_zero", "overflow_sub", "overflow_neg") and not (a.get("macro") or "").startswith("#[derive"):
                key = (short_file(a["file"]), "mir:" + a["kind"], "")
                ident = (a["file"], a["l"], a.get("c"), a["kind"])
                if ident in seen:
                    continue
                seen.add(ident)
                sites.append({"file": a["file"], "l": a["l"], "fn": owner["path"], "cls": "mir:" + a["kind"], "step": "", "key": key, "macro": a.get("macro")})
            # additions / multiplications on anything but usize (sizes are bounded by memory): i64 is the type of PRQL integer literals, i.e. user values;
            # classed per function so that new arithmetic on user values is a new class
            elif a["kind"] in ("overflow_add", "overflow_mul", "overflow") and a.get("ty") not in ("usize", None, "") and not (a.get("macro") or "").startswith("#[derive"):
                cls = "mir:" + a["kind"] + ":" + a["ty"]
                key = (short_file(a["file"]), cls, owner["path"].rsplit("::", 1)[-1].split("{")[0] or owner["path"])
                ident = (a["file"], a["l"], a.get("c"), a["kind"])
                if ident in seen:
                    continue
                seen.add(ident)
                sites.append({"file": a["file"], "l": a["l"], "fn": owner["path"], "cls": cls, "step": key[2], "key": key, "macro": a.get("macro")})
    return sites


def class_counts(sites):
    c = collections.Counter(s["key"] for s in sites)
    return c
