"""E2: analyser for SQL *templates* (the s-string bodies in std.sql.prql).

A template is tokenised; for each hole we find the operators that sit next to
it inside its own parenthesised group / function argument, and for the
template as a whole the weakest operator outside any parentheses.  Operator
strengths are not frozen here: the caller passes the scale it extracted from
`binding_strength` in gen_expr.rs.
"""
import re

TOK = re.compile(
    r"""
    (?P<ws>\s+)
  | (?P<str>'(?:[^']|'')*')
  | (?P<num>\d+(?:\.\d+)?)
  | (?P<word>[A-Za-z_][A-Za-z0-9_]*)
  | (?P<op>\|\||::|<>|<=|>=|!=|==|[-+*/%<>=~])
  | (?P<punct>[(),.])
    """,
    re.X,
)

WORD_BINOPS = {"LIKE", "ILIKE", "REGEXP", "DIV", "AND", "OR", "IS", "IN", "BETWEEN"}
WORD_PREFIX = {"NOT"}


class TemplateError(Exception):
    pass


def tokens(items):
    """items from stdlib.parse_sstring -> flat tokens (kind, value[, fmt], glued_to_prev)"""
    out = []
    for it in items:
        if it[0] == "h":
            out.append({"k": "hole", "name": it[1], "fmt": it[2], "glued": True})
            continue
        text = it[1]
        pos = 0
        first = True
        while pos < len(text):
            m = TOK.match(text, pos)
            if not m:
                raise TemplateError(f"cannot tokenise SQL template at {text[pos:pos+15]!r}")
            k = m.lastgroup
            if k != "ws":
                v = m.group()
                out.append({"k": k, "v": v.upper() if k == "word" else v, "glued": first and pos == 0})
            else:
                # whitespace: next token is not glued; and a following hole isn't either
                pass
            first = False
            pos = m.end()
        # did the text end with whitespace? then the next hole is not glued
        if text and text[-1].isspace():
            out.append({"k": "_sp"})
    # resolve glue for holes: a hole is glued to the previous token unless a _sp marker precedes it
    res = []
    sp = True
    for t in out:
        if t["k"] == "_sp":
            sp = True
            continue
        if t["k"] == "hole":
            t["glued"] = not sp and bool(res)
        sp = False
        res.append(t)
    return res


def classify(toks):
    """Mark each operator token as binary / prefix, compute depth."""
    depth = 0
    prev = None
    for idx, t in enumerate(toks):
        nxt = toks[idx + 1] if idx + 1 < len(toks) else None
        t["depth"] = depth
        k = t["k"]
        if k == "punct" and t["v"] == "(":
            t["depth"] = depth
            depth += 1
        elif k == "punct" and t["v"] == ")":
            depth -= 1
            t["depth"] = depth
        role = None
        if k == "op" or (k == "word" and (t["v"] in WORD_BINOPS or t["v"] in WORD_PREFIX)):
            operand_before = prev is not None and (
                prev["k"] in ("hole", "num", "str")
                or (prev["k"] == "punct" and prev["v"] == ")")
                or (prev["k"] == "word" and prev.get("role") is None)
            )
            if k == "word" and not operand_before and nxt is not None and nxt["k"] == "punct" and nxt["v"] == "(" \
                    and t["v"] not in WORD_PREFIX:
                role = None  # REGEXP(a, b): a function call, not an infix operator
            elif k == "word" and t["v"] in WORD_PREFIX:
                role = "prefix"
            elif t.get("v") == "::":
                role = "cast"
            elif t.get("v") == "=" and depth > 0 and prev is not None and prev["k"] == "word":
                role = "namedarg"  # read_parquet(x, name=value)
            elif operand_before:
                role = "binary"
            elif t.get("v") in ("-", "+"):
                role = "prefix"
            else:
                role = "binary"
        t["role"] = role
        prev = t
    if depth != 0:
        raise TemplateError("unbalanced parentheses in SQL template")
    return toks


def fully_wrapped(toks):
    """Is the whole template one parenthesised group `( ... )`?"""
    if not toks or not (toks[0]["k"] == "punct" and toks[0]["v"] == "("):
        return False
    depth = 0
    for i, t in enumerate(toks):
        if t["k"] == "punct" and t["v"] == "(":
            depth += 1
        elif t["k"] == "punct" and t["v"] == ")":
            depth -= 1
            if depth == 0:
                return i == len(toks) - 1
    return False


def segments(toks):
    """Split into maximal runs at one depth delimited by parens / commas:
    yields lists of token indexes that form one `operand op operand ...` run.
    A nested parenthesised group (or function call) counts as one atom of the
    enclosing run."""
    runs = []

    def rec(i, depth):
        cur = []
        while i < len(toks):
            t = toks[i]
            if t["k"] == "punct" and t["v"] == "(":
                cur.append(("group", i))
                i = rec(i + 1, depth + 1)
                continue
            if t["k"] == "punct" and t["v"] == ")":
                runs.append(cur)
                return i + 1
            if t["k"] == "punct" and t["v"] == ",":
                runs.append(cur)
                cur = []
                i += 1
                continue
            cur.append(("tok", i))
            i += 1
        runs.append(cur)
        return i

    rec(0, 0)
    return [r for r in runs if r]


def analyse(items):
    """Returns dict(top_ops=[op tokens at depth 0], wrapped=bool, holes=[{name, fmt, left_op, right_op, prefix_op, glued_prefix}])"""
    toks = classify(tokens(items))
    wrapped = fully_wrapped(toks)
    top_ops = [t for t in toks if t["depth"] == 0 and t.get("role") in ("binary", "prefix", "cast")]
    holes = []
    for run in segments(toks):
        for pos, (kind, idx) in enumerate(run):
            if kind != "tok" or toks[idx]["k"] != "hole":
                continue
            h = toks[idx]
            left_op = right_op = prefix_op = None
            glued_prefix = False
            # operator immediately before
            if pos > 0 and run[pos - 1][0] == "tok":
                p = toks[run[pos - 1][1]]
                if p.get("role") == "binary":
                    left_op = p["v"]
                elif p.get("role") == "prefix":
                    prefix_op = p["v"]
                    glued_prefix = h["glued"]
            if pos + 1 < len(run) and run[pos + 1][0] == "tok":
                n = toks[run[pos + 1][1]]
                if n.get("role") in ("binary", "cast"):
                    right_op = n["v"]
            holes.append(
                {
                    "name": h["name"],
                    "fmt": h["fmt"],
                    "depth": h["depth"],
                    "left_op": left_op,  # hole is the RIGHT operand of this operator
                    "right_op": right_op,  # hole is the LEFT operand of this operator
                    "prefix_op": prefix_op,
                    "glued_prefix": glued_prefix,
                    "alone": left_op is None and right_op is None and prefix_op is None,
                }
            )
    head = None
    for t in toks:
        if t["k"] == "word":
            head = t["v"]
            break
        if t["k"] != "punct":
            break
    return {"top_ops": top_ops, "wrapped": wrapped, "holes": holes, "head_word": head, "tokens": toks}
