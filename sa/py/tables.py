"""Table extraction from syntax trees: match tables, string->variant maps,
strength scales.  Every extractor reads /repo's current source via synq.Syn."""
from synq import (AnchorMissing, walk, pat_alts, pat_head, last_seg, lit_val, tail_expr, matches_of, show, strs,
                  macros, calls, mcalls)


def first_match(fn, scrutinee=None):
    """The first `match` in a function body (optionally on a given scrutinee rendering)."""
    for m in matches_of(fn["body"]):
        if scrutinee is None or show(m["e"]) == scrutinee:
            return m
    raise AnchorMissing(f"no `match {scrutinee or ''}` in {fn['path']}")


def arm_value(body):
    """Reduce an arm body to a comparable value: int / str / path / rendering."""
    b = tail_expr(body) if body.get("k") == "block" else body
    if b is None:
        return None
    v = lit_val(b)
    if v is not None:
        return v
    if b.get("k") == "lit":
        return b["v"]
    if b.get("k") == "path":
        return ("path", b["p"])
    return ("expr", show(b))


def match_rows(m):
    """[(head, guard_or_None, body_node, line)] with or-patterns flattened."""
    rows = []
    for a in m["arms"]:
        for alt in pat_alts(a["pat"]):
            rows.append((pat_head(alt), a.get("guard"), a["body"], a["l"], alt))
    return rows


def variant_int_table(fn):
    """`match self { A | B => 11, C => 10, _ => 9 }` -> ({variant: int}, default)"""
    m = first_match(fn)
    tab, default = {}, None
    for head, guard, body, line, _ in match_rows(m):
        v = arm_value(body)
        if head == "_":
            default = v
        elif isinstance(head, str):
            tab[last_seg(head)] = v
    return tab, default, m


def variant_path_table(fn):
    """`match self { A | B => Assoc::Left, _ => Assoc::Both }` -> ({variant: 'Left'}, default)"""
    m = first_match(fn)
    tab, default = {}, None
    for head, guard, body, line, _ in match_rows(m):
        v = arm_value(body)
        if isinstance(v, tuple) and v[0] == "path":
            v = last_seg(v[1])
        if head == "_":
            default = v
        elif isinstance(head, str):
            tab[last_seg(head)] = v
    return tab, default, m


def str_to_variant_table(fn):
    """`match name { "std.mul" => Some(Multiply), _ => None }` -> {"std.mul": "Multiply"}"""
    m = first_match(fn)
    tab = {}
    for head, guard, body, line, _ in match_rows(m):
        if isinstance(head, tuple) and head[0] == "lit":
            b = tail_expr(body) if body.get("k") == "block" else body
            if b.get("k") == "call" and b["a"]:
                tab[head[1]] = last_seg(show(b["a"][0]))
            else:
                tab[head[1]] = show(b)
    return tab, m


def enum_variants(adt):
    return [v["name"] for v in adt["variants"]]


def lexer_multi_char_ops(syn):
    """{spelling: TokenKind variant} of the lexer's multi-character operators: `just("==")[.then_ignore(..)].to(TokenKind::Eq)` written in
    `multi_char_operators` itself, or through a private helper of the same file called as `helper("&&", TokenKind::And)` whose body is
    `just(<1st parameter>) .. .to(<2nd parameter>)`."""
    mc = syn.fn("lexer::multi_char_operators", crate="prqlc_parser")
    out = {}

    def chain_base(n):
        base = n["r"]
        while base.get("k") == "mcall":
            base = base["r"]
        return base
    for n in walk(mc["body"]):
        if n.get("k") == "mcall" and n["m"] == "to" and n["a"]:
            base = chain_base(n)
            if base.get("k") == "call" and last_seg(show(base["f"])) == "just" and base["a"] and isinstance(lit_val(base["a"][0]), str):
                out[lit_val(base["a"][0])] = last_seg(show(n["a"][0]))
        if n.get("k") == "call" and n["f"].get("k") == "path" and len(n["a"]) == 2 and isinstance(lit_val(n["a"][0]), str):
            hs = [h for h in syn.fns if h["crate"] == mc["crate"] and h["file"] == mc["file"] and h["name"] == last_seg(n["f"]["p"]) and "body" in h and len(h.get("params", [])) == 2]
            if len(hs) == 1:
                p0, p1 = hs[0]["params"][0]["name"], hs[0]["params"][1]["name"]
                for x in walk(hs[0]["body"]):
                    if x.get("k") == "mcall" and x["m"] == "to" and x["a"] and show(x["a"][0]) == p1:
                        b = chain_base(x)
                        if b.get("k") == "call" and last_seg(show(b["f"])) == "just" and b["a"] and show(b["a"][0]) == p0:
                            out[lit_val(n["a"][0])] = last_seg(show(n["a"][1]))
    return mc, out


def string_dispatch(root, var):
    """{string literal: branch node} for a dispatch on the string `var`, whether written `if var == "a" {..} else if var == "b" {..}` or
    `match var { "a" => .., "b" | "c" => .. }` (also on `var.as_str()` / `&*var`)."""
    out = {}
    names = {var, var + ".as_str()", "&*" + var, "&" + var, var + ".as_ref()"}
    for n in walk(root):
        if n.get("k") == "if" and n["c"].get("k") == "bin" and n["c"]["op"] == "==":
            l, r = n["c"]["lhs"], n["c"]["rhs"]
            if show(l) in names and isinstance(lit_val(r), str):
                out.setdefault(lit_val(r), n["t"])
            elif show(r) in names and isinstance(lit_val(l), str):
                out.setdefault(lit_val(l), n["t"])
        if n.get("k") == "match" and show(n["e"]) in names:
            for arm in n["arms"]:
                if arm.get("guard") is not None:
                    continue
                for alt in pat_alts(arm["pat"]):
                    h = pat_head(alt)
                    if isinstance(h, tuple) and h[0] == "lit" and isinstance(h[1], str):
                        out.setdefault(h[1], arm["body"])
    return out
