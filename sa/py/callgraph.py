"""Whole-program call graph over the driver facts of prqlc + prqlc_parser.

Edges (over-approximation, sound for reachability - assumption A6):
  * resolved calls and function-item references (`.map(Self::f)`) to local functions
  * a closure is reachable from the function that creates it
  * an unresolved trait-method call (generic `T: PlFold`, `dyn DialectHandler`, serde's
    generic Serializer ...) reaches every local impl of that trait method and the
    trait's default body
  * a call into external generic code reaches every trait-impl method of every
    workspace ADT that appears in the callee's generic arguments (`x.to_string()` ->
    `<X as Display>::fmt`, `serde_json::to_string(&q)` -> `<Q as Serialize>::serialize`)
"""
import collections

LOCAL = ("prqlc", "prqlc_parser")


class CallGraph:
    def __init__(self, mir):
        self.fns = {}
        for c, facts in mir.items():
            for f in facts["fns"]:
                f["crate"] = c
                self.fns[f["id"]] = f
        self.statics = {}
        for c, facts in mir.items():
            for s in facts["statics"]:
                s["crate"] = c
                self.statics[s["id"]] = s
        self.impls_of = collections.defaultdict(list)  # trait method id -> [impl method id]
        self.impl_methods_of_adt = collections.defaultdict(list)  # adt id -> [impl method ids of any trait]
        for fid, f in self.fns.items():
            if f.get("trait_item_id"):
                self.impls_of[f["trait_item_id"]].append(fid)
            if f.get("impl_self_id"):
                self.impl_methods_of_adt[f["impl_self_id"]].append(fid)
        self.edges = collections.defaultdict(set)
        self.edge_why = {}
        for fid, f in self.fns.items():
            if f.get("parent_id") and f["parent_id"] in self.fns:
                self._add(f["parent_id"], fid, "closure")
            for r in f["refs"]:
                if r["kind"] == "indirect":
                    continue
                tid = r["id"]
                if r["resolved"] and tid in self.fns:
                    self._add(fid, tid, r["kind"])
                    continue
                if not r["resolved"]:
                    oid = r["orig_id"]
                    for impl in self.impls_of.get(oid, ()):
                        self._add(fid, impl, "dyn")
                    if oid in self.fns:
                        self._add(fid, oid, "default-body")
                    continue
                # resolved, external callee: workspace ADTs in its generic arguments
                if r["crate"] not in LOCAL:
                    for adt in r.get("arg_adts", ()):
                        for impl in self.impl_methods_of_adt.get(adt, ()):
                            self._add(fid, impl, "via-external-generic")

    def _add(self, a, b, why):
        self.edges[a].add(b)
        self.edge_why.setdefault((a, b), why)

    def by_path_suffix(self, suffix, crate=None):
        out = []
        for fid, f in self.fns.items():
            if crate and f["crate"] != crate:
                continue
            p = f["id"]
            if p == suffix or p.endswith("::" + suffix):
                out.append(fid)
        return out

    def callers_of(self, fid):
        """ids of the functions (closures mapped to their owning fn) with an edge to `fid`"""
        out = set()
        for a, bs in self.edges.items():
            if fid in bs:
                o = self.owner_fn(a)
                out.add(o["id"] if o else a)
        return out

    def reachable(self, roots):
        seen = {}
        dq = collections.deque()
        for r in roots:
            if r in self.fns and r not in seen:
                seen[r] = None
                dq.append(r)
        while dq:
            a = dq.popleft()
            for b in self.edges.get(a, ()):
                if b not in seen:
                    seen[b] = a
                    dq.append(b)
        return seen

    def path_to(self, seen, target):
        out = []
        cur = target
        while cur is not None:
            out.append(cur)
            cur = seen.get(cur)
        return list(reversed(out))

    def sccs(self, nodes):
        """Tarjan over the subgraph induced by `nodes` (iterative)."""
        index = {}
        low = {}
        onstack = set()
        stack = []
        res = []
        counter = [0]
        nodes = set(nodes)
        for root in nodes:
            if root in index:
                continue
            work = [(root, iter(sorted(b for b in self.edges.get(root, ()) if b in nodes)))]
            index[root] = low[root] = counter[0]
            counter[0] += 1
            stack.append(root)
            onstack.add(root)
            while work:
                v, it = work[-1]
                advanced = False
                for w in it:
                    if w not in index:
                        index[w] = low[w] = counter[0]
                        counter[0] += 1
                        stack.append(w)
                        onstack.add(w)
                        work.append((w, iter(sorted(b for b in self.edges.get(w, ()) if b in nodes))))
                        advanced = True
                        break
                    elif w in onstack:
                        low[v] = min(low[v], index[w])
                if advanced:
                    continue
                work.pop()
                if work:
                    u = work[-1][0]
                    low[u] = min(low[u], low[v])
                if low[v] == index[v]:
                    comp = []
                    while True:
                        w = stack.pop()
                        onstack.discard(w)
                        comp.append(w)
                        if w == v:
                            break
                    if len(comp) > 1 or v in self.edges.get(v, ()):
                        res.append(sorted(comp))
        return res

    def recv_type_at(self, file, line, method):
        """Resolved receiver type of the call of `method` at file:line (None when the driver saw no such call)."""
        idx = getattr(self, "_recv_idx", None)
        if idx is None:
            idx = self._recv_idx = {}
            for f in self.fns.values():
                for r in f["refs"]:
                    if r["kind"] == "call" and r.get("def"):
                        idx.setdefault((r["file"], r["l"], r["def"].rsplit("::", 1)[-1]), r.get("recv"))
        return idx.get((file, line, method))

    def owner_fn(self, fid):
        """Outermost non-closure function of a body."""
        f = self.fns[fid]
        while f.get("parent_id") and f["parent_id"] in self.fns:
            f = self.fns[f["parent_id"]]
        return f
