"""Normalise a small arithmetic expression tree to a linear form {var: coeff, '': const}.
This is constant folding over the *source expression*, not execution of the program."""
from synq import show


class NotLinear(Exception):
    pass


def linear(e):
    k = e.get("k")
    if k == "lit" and e["t"] == "int":
        return {"": int(e["v"])}
    if k in ("path",):
        return {e["p"]: 1}
    if k == "field":
        return {show(e): 1}
    if k == "mcall" and e["m"] in ("clone", "unwrap", "unwrap_or_default") and not e["a"]:
        return linear(e["r"])
    # x.saturating_add(y) / wrapping_ / plain: the same linear form wherever the exact value is representable
    if k == "mcall" and e["m"] in ("saturating_add", "wrapping_add", "saturating_sub", "wrapping_sub") and len(e["a"]) == 1:
        a, b = linear(e["r"]), linear(e["a"][0])
        out = dict(a)
        sign = 1 if e["m"].endswith("add") else -1
        for v, c in b.items():
            out[v] = out.get(v, 0) + sign * c
        return {v: c for v, c in out.items() if c != 0 or v == ""}
    if k == "mcall" and e["m"] == "unwrap_or" and len(e["a"]) == 1:
        return {show(e): 1}
    if k == "paren":
        return linear(e["e"])
    if k == "un" and e["op"] == "-":
        return {v: -c for v, c in linear(e["e"]).items()}
    if k == "un" and e["op"] == "*":
        return linear(e["e"])
    if k == "ref":
        return linear(e["e"])
    if k == "bin" and e["op"] in ("+", "-"):
        a, b = linear(e["lhs"]), linear(e["rhs"])
        out = dict(a)
        for v, c in b.items():
            out[v] = out.get(v, 0) + (c if e["op"] == "+" else -c)
        return {v: c for v, c in out.items() if c != 0 or v == ""}
    if k == "bin" and e["op"] == "*":
        a, b = linear(e["lhs"]), linear(e["rhs"])
        if set(a) <= {""}:
            return {v: c * a.get("", 0) for v, c in b.items()}
        if set(b) <= {""}:
            return {v: c * b.get("", 0) for v, c in a.items()}
        raise NotLinear(show(e))
    if k == "cast":
        return linear(e["e"])
    raise NotLinear(show(e))


def norm(l):
    out = {v: c for v, c in l.items() if c != 0}
    return tuple(sorted(out.items()))
