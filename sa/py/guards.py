"""Guard recognition on syntax trees: is an extraction of one element from a collection
dominated by a `len() == 1` test (all spellings the repo uses)?"""
from synq import walk, show, lit_val, pat_alts, pat_head


def parents(root):
    par = {}
    stack = [root]
    while stack:
        n = stack.pop()
        if isinstance(n, dict):
            for v in n.values():
                if isinstance(v, dict):
                    par[id(v)] = n
                    stack.append(v)
                elif isinstance(v, list):
                    for x in v:
                        if isinstance(x, dict):
                            par[id(x)] = n
                            stack.append(x)
                        elif isinstance(x, list):
                            for y in x:
                                if isinstance(y, dict):
                                    par[id(y)] = n
                                    stack.append(y)
    return par


def _diverges(block):
    """Does the block end in return/break/continue/panic (so code after the `if` is only reached when the test failed)?"""
    if block is None or block.get("k") != "block" or not block["s"]:
        return False
    last = block["s"][-1]
    if last.get("k") in ("return", "break", "continue"):
        return True
    if last.get("k") == "macro" and last["n"] in ("panic", "unreachable", "bail"):
        return True
    return False


def len_is_one_guard(node, par, var):
    """True if `node` is only reached when `var.len() == 1`.
    Recognised: `match var.len() { 1 => <node> }`, `if var.len() == 1 { <node> }`,
    `if var.len() != 1 { return ..; } ... <node>`, and the `else` of `if var.len() != 1`."""
    lenexpr = f"{var}.len()"
    cur = node
    while True:
        p = par.get(id(cur))
        if p is None:
            return None
        k = p.get("k")
        if k == "match" and show(p["e"]) == lenexpr:
            for arm in p["arms"]:
                if arm is cur or arm["body"] is cur or _contains(arm["body"], cur):
                    heads = [pat_head(a) for a in pat_alts(arm["pat"])]
                    if heads == [("lit", "1")] or heads == [("lit", 1)]:
                        return f"match {lenexpr} arm `1`"
                    return None
        if k == "if":
            c = show(p["c"])
            if p.get("t") is cur or _contains(p.get("t"), cur):
                if c in (f"({lenexpr} == 1)",):
                    return f"if {lenexpr} == 1"
            if p.get("e") is not None and (p["e"] is cur or _contains(p["e"], cur)):
                if c in (f"({lenexpr} != 1)",):
                    return f"else of if {lenexpr} != 1"
        if k == "block":
            # an earlier statement of this block: if var.len() != 1 { return .. }
            idx = None
            for i, st in enumerate(p["s"]):
                if st is cur or _contains(st, cur):
                    idx = i
                    break
            if idx is not None:
                for st in p["s"][:idx]:
                    if st.get("k") == "if" and show(st["c"]) == f"({lenexpr} != 1)" and _diverges(st["t"]) and st.get("e") is None:
                        # var must not be reassigned in between (cheap check: no assignment to var)
                        reassigned = any(
                            n.get("k") == "assign" and show(n["lhs"]) == var
                            for s2 in p["s"][p["s"].index(st) + 1: idx] for n in walk(s2))
                        if not reassigned:
                            return f"after `if {lenexpr} != 1 {{ return }}`"
        if k in ("closure", "item_fn"):
            return None
        cur = p


def _contains(tree, node):
    if tree is None:
        return False
    if tree is node:
        return True
    for n in walk(tree):
        if n is node:
            return True
    return False


def visible_def_nodes(par, use, name):
    """The `let` statement that binds `name` at the use site (nearest enclosing block, last preceding let), or None."""
    from synq import show
    cur = use
    while id(cur) in par:
        p = par[id(cur)]
        if p.get("k") == "block":
            idx = None
            for i, st in enumerate(p["s"]):
                if st is cur or _contains(st, cur):
                    idx = i
                    break
            if idx is not None:
                lets = [st for st in p["s"][:idx] if st.get("k") == "local" and st["pat"].get("k") == "p_ident" and st["pat"]["n"] == name]
                if lets:
                    return lets[-1]
                # a tuple / struct pattern that binds the name shadows outer definitions: not a plain let
                for st in p["s"][:idx]:
                    if st.get("k") == "local" and st["pat"].get("k") != "p_ident" and any(x.get("k") == "p_ident" and x["n"] == name for x in __import__("synq").walk(st["pat"])):
                        return None
        if p.get("k") == "for" and p.get("body") is cur and any(x.get("k") == "p_ident" and x["n"] == name for x in __import__("synq").walk(p.get("pat", {}))):
            return None     # the loop variable shadows outer definitions
        if p.get("k") in ("if", "while") and isinstance(p.get("c"), dict) and p["c"].get("k") == "let" and (p.get("t") is cur or p.get("body") is cur) \
                and any(x.get("k") == "p_ident" and x["n"] == name for x in __import__("synq").walk(p["c"]["pat"])):
            return None     # bound by the `if let` / `while let` pattern
        if p.get("k") in ("closure", "item_fn"):
            # parameters of the closure shadow outer names
            for prm in p.get("params", []):
                if any(x.get("k") == "p_ident" and x["n"] == name for x in __import__("synq").walk(prm)):
                    return None
        cur = p
    return None


def visible_defs(par, use, name):
    """Initialisers that can define local `name` at the use site, by lexical scoping: `let name = init` statements that precede
    the use in a block enclosing it (the nearest such block shadows outer ones), plus every `name = rhs` assignment inside the
    statements of that block (loops re-define an accumulator after its use in program text)."""
    from synq import walk, show
    cur = use
    while id(cur) in par:
        p = par[id(cur)]
        if p.get("k") == "block":
            idx = None
            for i, st in enumerate(p["s"]):
                if st is cur or _contains(st, cur):
                    idx = i
                    break
            if idx is not None:
                lets = [st for st in p["s"][:idx] if st.get("k") == "local" and st.get("init") is not None and show(st["pat"]).replace("mut ", "") == name]
                if lets:
                    out = [lets[-1]["init"]]
                    j = p["s"].index(lets[-1])
                    for st in p["s"][j + 1:]:
                        for a in walk(st):
                            if a.get("k") == "assign" and show(a["lhs"]) == name:
                                out.append(a["rhs"])
                    return out
        cur = p
    return []


def side_of(par, node, atom):
    """True / False / None: does `node` execute when `atom(cond) -> +1 (test holds) / -1 (negated test)` is true or false?
    Handles `if test {A} else {B}`, `if !test {B} else {A}` and the early-return form `if test { return .. } B`."""
    from synq import walk
    cur = node
    while id(cur) in par:
        p_ = par[id(cur)]
        if p_.get("k") == "if":
            pol = atom(p_["c"])
            if pol:
                in_then = p_.get("t") is cur or _contains(p_.get("t"), cur)
                in_else = p_.get("e") is not None and (p_.get("e") is cur or _contains(p_.get("e"), cur))
                if in_then or in_else:
                    return (pol > 0) == in_then
        if p_.get("k") == "block":
            idx = next((i for i, st in enumerate(p_["s"]) if st is cur or _contains(st, cur)), None)
            for st in p_["s"][:idx or 0]:
                if st.get("k") == "if" and st.get("e") is None and atom(st["c"]) and _diverges(st["t"]):
                    return not (atom(st["c"]) > 0)
        cur = p_
    return None


def polarity_of(text):
    """atom for side_of: +1 for `text`, -1 for `!text` (parentheses ignored)"""
    from synq import show

    def atom(c):
        s_ = show(c, maxdepth=8).replace("(", "").replace(")", "").strip()
        t_ = text.replace("(", "").replace(")", "")
        return 1 if s_ == t_ else -1 if s_ == "!" + t_ else 0
    return atom


def branches_when(root, text, value):
    """The blocks that run exactly when the boolean expression `text` has `value`, for every `if` testing it:
    `if text {T} else {E}` -> T for True, E for False;  `if !text {T} else {E}` -> E for True, T for False (missing else -> skipped)."""
    from synq import walk
    at = polarity_of(text)
    out = []
    for n in walk(root):
        if n.get("k") == "if":
            pol = at(n["c"])
            if pol:
                blk = n["t"] if (pol > 0) == value else n.get("e")
                if blk is not None:
                    out.append(blk)
    return out


def regen_loop(par, gen_node, fn=None):
    """The loop that keeps regenerating a name: `while <taken> { .. gen() .. }`, or `loop { .. if/match <free> => break .. ; gen() }`.
    Returns (loop node, [membership tests: (`set text`, arg node)], form) or (None, [], None).
    With `fn` (the enclosing function) the exit condition is read as a truth table over its `S.contains(x)` atoms (named booleans
    inlined, any equivalent formula): a test counts when the loop cannot be left while it is true."""
    from synq import walk, show
    if fn is not None:
        r = _regen_loop_tt(par, gen_node, fn)
        if r is not None:
            return r
    cur = gen_node
    while id(cur) in par:
        p_ = par[id(cur)]
        if p_.get("k") == "while" and (p_["body"] is cur or _contains(p_["body"], cur)):
            tests = [(show(x["r"]), x["a"][0]) for x in walk(p_["c"]) if x.get("k") == "mcall" and x["m"] == "contains" and x["a"]]
            return p_, tests, "while"
        if p_.get("k") == "loop" and (p_["body"] is cur or _contains(p_["body"], cur)):
            # the loop is left only through `break`s; each must be reached under a test that the name is free (`!S.contains(x)` as an if condition or a match guard)
            breaks = [x for x in walk(p_["body"]) if x.get("k") == "break"]
            tests, guarded = [], bool(breaks)
            for b in breaks:
                c2, conds = b, []
                while id(c2) in par and c2 is not p_:
                    q = par[id(c2)]
                    if q.get("k") == "if":
                        conds.append(q["c"])
                    if q.get("k") == "match":
                        conds += [a["guard"] for a in q["arms"] if a.get("guard") is not None and (a["body"] is c2 or _contains(a["body"], c2) or a["body"] is b)]
                    c2 = q
                neg = [x for c_ in conds for x in walk(c_) if x.get("k") == "un" and x["op"] == "!" and any(y.get("k") == "mcall" and y["m"] == "contains" for y in walk(x["e"]))]
                if not neg:
                    guarded = False
                for x in neg:
                    for y in walk(x["e"]):
                        if y.get("k") == "mcall" and y["m"] == "contains" and y["a"]:
                            tests.append((show(y["r"]), y["a"][0]))
            return (p_, tests, "loop") if guarded else (p_, [], "loop-unguarded")
        cur = p_
    return None, [], None


def _regen_loop_tt(par, gen_node, fn):
    import itertools
    import alpha
    import boolfn
    from synq import walk, show
    cur = gen_node
    loop = None
    while id(cur) in par:
        p_ = par[id(cur)]
        if p_.get("k") in ("while", "loop") and (p_["body"] is cur or _contains(p_["body"], cur)):
            loop = p_
            break
        cur = p_
    if loop is None:
        return None
    A = alpha.Inliner(fn)
    # exit conditions: `!W` for `while W`; for `loop`, the conjunction of the `if`s around each `break` (one disjunct per break)
    exits = []
    if loop["k"] == "while":
        exits.append(([], [loop["c"]]))          # (positive conds, negated conds)
    else:
        for b in [x for x in walk(loop["body"]) if x.get("k") == "break"]:
            pos, neg, c2 = [], [], b
            ok = True
            while id(c2) in par and c2 is not loop:
                q = par[id(c2)]
                if q.get("k") == "if" and q["c"].get("k") != "let":
                    if q.get("t") is c2 or _contains(q.get("t"), c2):
                        pos.append(q["c"])
                    elif q.get("e") is not None and (q["e"] is c2 or _contains(q["e"], c2)):
                        neg.append(q["c"])
                if q.get("k") == "match":
                    for a in q["arms"]:
                        if a["body"] is c2 or _contains(a["body"], c2):
                            if a.get("guard") is not None:
                                pos.append(a["guard"])
                            else:
                                ok = False
                c2 = q
            if not ok or not (pos or neg):
                return None
            exits.append((pos, neg))
        if not exits:
            return None
    # atoms: membership tests reachable from those conditions through immutable locals
    atoms, seen = [], set()

    def collect(node, depth=0):
        if node is None or depth > 6:
            return
        for x in walk(node):
            if x.get("k") == "mcall" and x["m"] == "contains" and x["a"]:
                t = show(x).replace(" ", "")
                if t not in seen:
                    seen.add(t)
                    atoms.append((t, x))
            if x.get("k") == "path" and "::" not in x["p"]:
                init = A._init_of(x, x["p"])
                if init is not None and id(init) not in seen:
                    seen.add(id(init))
                    collect(init, depth + 1)
    for pos, neg in exits:
        for c_ in pos + neg:
            collect(c_)
    if not atoms or len(atoms) > 6:
        return None
    others = {}

    def exit_value(assign):
        def atom(t):
            t = t.replace(" ", "")
            if t in assign:
                return assign[t]
            return others.get(t)
        res = False
        for pos, neg in exits:
            v = all(boolfn.ev(c_, atom, A) for c_ in pos) and all(not boolfn.ev(c_, atom, A) for c_ in neg)
            res = res or v
        return res
    # free (non-membership) atoms such as `generated` are enumerated as well: find them lazily through boolfn.Unknown
    free = []
    for _ in range(4):
        try:
            for vals in itertools.product((True, False), repeat=len(atoms) + len(free)):
                assign = {a[0]: v for a, v in zip(atoms, vals)}
                for nm, v in zip(free, vals[len(atoms):]):
                    others[nm] = v
                exit_value(assign)
            break
        except boolfn.Unknown as e:
            m = str(e)
            nm = m.split("atom ", 1)[1].replace(" ", "") if "atom " in m else None
            if nm is None or nm in free:
                return None
            free.append(nm)
    else:
        return None
    tests = []
    for i, (t, node) in enumerate(atoms):
        blocking = True
        for vals in itertools.product((True, False), repeat=len(atoms) + len(free)):
            if not vals[i]:
                continue
            assign = {a[0]: v for a, v in zip(atoms, vals)}
            for nm, v in zip(free, vals[len(atoms):]):
                others[nm] = v
            # a test guarded by a free atom (`generated && named_before.contains(x)`) blocks when that atom holds: require blocking for the
            # assignment where every free atom is true
            if all(vals[len(atoms):]) and exit_value(assign):
                blocking = False
        if blocking:
            tests.append((show(node["r"]), node["a"][0]))
    return loop, tests, loop["k"] if tests else "loop-unguarded"


def yields_err(fn_body, if_node, block):
    """Does `block` (a branch of `if_node`) leave the function with an Err: a `return Err(..)` inside it, or - when the `if` is the function's tail
    expression - an `Err(..)` as the branch's own value?"""
    from synq import walk, show, tail_expr
    if any(r.get("k") == "return" and show(r.get("e"), maxdepth=4).startswith("Err(") for r in walk(block)):
        return True
    t = tail_expr(block) if block.get("k") == "block" else block
    if t is not None and show(t, maxdepth=4).startswith("Err(") and tail_expr(fn_body) is if_node:
        return True
    return False


def conjuncts(c):
    """the operands of a (nested, parenthesised) `&&`"""
    while c.get("k") == "paren":
        c = c["e"]
    if c.get("k") == "bin" and c["op"] == "&&":
        return conjuncts(c["lhs"]) + conjuncts(c["rhs"])
    return [c]
