"""Abstract interpretation of straight-line code over Option<i64> values (no program is run).

Domain: a value is  None | Some(v)  where v is an algebraic term: a linear form {symbol: coeff, '': const} or
`min(term, term)`; struct values are dicts field -> value. The interpreter evaluates assignments, `let`s, `if let` / `match` over
tuples of options, closures bound to locals, and the Option combinators `map`, `or`, `and_then`-free chains, `unwrap_or`, `zip`,
plus crate-local helper methods whose bodies are given (e.g. `or_map`, interpreted from its own source). Saturating / wrapping /
plain arithmetic have the same linear form wherever the exact value is representable.
Used to compare what a function computes, per case of which inputs are None, with the documented formula - whatever the code
is spelled like."""
from synq import show, last_seg


class Unsupported(Exception):
    pass


class _Return(Exception):
    def __init__(self, value):
        self.value = value


NONE = ("none",)


def some(v):
    return ("some", v)


def lin(sym=None, const=0):
    d = {"": const}
    if sym is not None:
        d[sym] = 1
    return ("lin", tuple(sorted(d.items())))


def _ld(t):
    assert t[0] == "lin", t
    return dict(t[1])


def _mk(d):
    return ("lin", tuple(sorted((k, v) for k, v in d.items() if v != 0 or k == "")))


def add(a, b, sign=1):
    if a[0] == "lin" and b[0] == "lin":
        d = _ld(a)
        for k, v in _ld(b).items():
            d[k] = d.get(k, 0) + sign * v
        d.setdefault("", 0)
        return _mk(d)
    # min(x, y) + c = min(x + c, y + c)
    if a[0] == "min" and b[0] == "lin":
        return mn(add(a[1], b, sign), add(a[2], b, sign))
    if b[0] == "min" and a[0] == "lin" and sign == 1:
        return mn(add(a, b[1]), add(a, b[2]))
    raise Unsupported("arithmetic on " + str((a, b)))


def mn(a, b):
    if a == b:
        return a
    return ("min",) + tuple(sorted([a, b], key=repr))


class Interp:
    def __init__(self, helpers=None, inputs=None, lookup=None):
        self.helpers = helpers or {}      # method name -> fn facts (params, body)
        self.inputs = inputs or {}        # rendered expression text -> abstract value (symbolic inputs chosen by the rule)
        self.lookup = lookup              # (name, use node) -> defining expression node | None: locals of an enclosing function, constants
        self._busy = set()

    # ---- expressions -------------------------------------------------------------------------------------------
    def ev(self, e, env):
        k = e.get("k")
        if self.inputs:
            t = show(e, maxdepth=12)
            if t in self.inputs:
                return self.inputs[t]
        if k == "paren":
            return self.ev(e["e"], env)
        if k == "cast":
            return self.ev(e["e"], env)
        if k == "lit" and e.get("t") == "int":
            return lin(None, int(e["v"]))
        if k == "lit" and e.get("t") == "bool":
            return ("bool", bool(e["v"]) if not isinstance(e["v"], str) else e["v"] == "true")
        if k == "bin" and e["op"] in ("<", ">", "<=", ">=", "==", "!="):
            a, b = self.ev(e["lhs"], env), self.ev(e["rhs"], env)
            if a[0] == "lin" and b[0] == "lin" and set(_ld(a)) <= {""} and set(_ld(b)) <= {""}:
                x, y = _ld(a).get("", 0), _ld(b).get("", 0)
                return ("bool", {"<": x < y, ">": x > y, "<=": x <= y, ">=": x >= y, "==": x == y, "!=": x != y}[e["op"]])
            raise Unsupported("comparison of symbolic values " + show(e)[:60])
        if (k == "bin" and e["op"] in ("&&", "||")) or (k == "un" and e["op"] == "!"):
            return ("bool", self.cond(e, env))
        if k == "macro" and e.get("n") == "matches" and e.get("a") and e.get("pat") is not None:
            env2 = dict(env)
            ok = self.bind(e["pat"], self.ev(e["a"][0], env), env2)
            if ok and e.get("guard") is not None:
                ok = self.cond(e["guard"], env2)
            return ("bool", bool(ok))
        if k == "path":
            p = e["p"]
            if p == "None":
                return NONE
            if p in env:
                return env[p]
            if self.lookup is not None and p not in self._busy:
                d = self.lookup(p, e)
                if d is not None:
                    self._busy.add(p)
                    try:
                        return self.fn_value(d, env) if d.get("k") == "closure" else self.ev(d, env)
                    finally:
                        self._busy.discard(p)
            raise Unsupported("unknown name " + p)
        if k == "field":
            base = self.ev(e["e"], env)
            if isinstance(base, dict) and e["f"] in base:
                return base[e["f"]]
            if isinstance(base, tuple) and base and base[0] == "tuple" and str(e["f"]).isdigit() and int(e["f"]) < len(base[1]):
                return base[1][int(e["f"])]
            raise Unsupported("field " + show(e))
        if k == "tuple":
            return ("tuple", tuple(self.ev(x, env) for x in e["e"]))
        if k == "struct":
            base = self.ev(e["rest"], env) if e.get("rest") is not None and isinstance(e.get("rest"), dict) else {}
            out = dict(base) if isinstance(base, dict) else {}
            for fname, fv in e["f"]:
                out[fname] = self.ev(fv, env)
            return out
        if k == "return":
            raise _Return(self.ev(e["e"], env) if e.get("e") is not None else None)
        if k == "ref" or (k == "un" and e["op"] == "*"):
            return self.ev(e["e"], env)
        if k == "call":
            fn = show(e["f"])
            if fn == "Some" and len(e["a"]) == 1:
                return some(self.ev(e["a"][0], env))
            if last_seg(fn) == "min" and len(e["a"]) == 2:
                return mn(self.ev(e["a"][0], env), self.ev(e["a"][1], env))
            if e["f"].get("k") == "path" and e["f"]["p"] in env:
                return self.apply(env[e["f"]["p"]], [self.ev(a, env) for a in e["a"]])
            raise Unsupported("call " + fn)
        if k == "bin" and e["op"] in ("+", "-"):
            return add(self.ev(e["lhs"], env), self.ev(e["rhs"], env), 1 if e["op"] == "+" else -1)
        if k == "closure":
            return ("closure", e, dict(env))
        if k == "mcall":
            return self.mcall(e, env)
        if k == "if":
            return self.ev_if(e, env)
        if k == "match":
            return self.ev_match(e, env)
        if k == "block":
            return self.block(e, dict(env))[0]
        raise Unsupported("expression " + show(e)[:60])

    def fn_value(self, e, env):
        """a function-valued argument: closure literal, local closure, or a path such as `i64::min`"""
        if e.get("k") == "closure":
            return ("closure", e, dict(env))
        if e.get("k") == "path":
            if e["p"] in env and isinstance(env[e["p"]], tuple) and env[e["p"]][0] == "closure":
                return env[e["p"]]
            if last_seg(e["p"]) == "min":
                return ("builtin", "min")
        raise Unsupported("function value " + show(e)[:40])

    def apply(self, f, args):
        if f[0] == "builtin" and f[1] == "min":
            return mn(args[0], args[1])
        if f[0] == "closure":
            _, node, cenv = f
            env = dict(cenv)
            names = []
            for prm in node["params"]:
                pat = prm.get("pat", prm) if prm.get("k") != "p_ident" else prm
                if pat.get("k") == "p_type":
                    pat = pat["pat"]
                if pat.get("k") == "p_ident":
                    names.append(pat["n"])
                elif pat.get("k") == "p_wild":
                    names.append(None)
                elif pat.get("k") == "p_tuple":
                    names.append(pat)           # destructured below
                else:
                    inner = [x for x in __import__("synq").walk(pat) if x.get("k") == "p_ident"]
                    if len(inner) != 1:
                        raise Unsupported("closure parameter pattern")
                    names.append(inner[0]["n"])
            if len(names) != len(args):
                raise Unsupported("closure arity")
            for n, a in zip(names, args):
                if isinstance(n, dict):
                    if not self.bind(n, a, env):
                        raise Unsupported("closure parameter pattern does not match its argument")
                elif n:
                    env[n] = a
            return self.ev(node["body"], env)
        raise Unsupported("apply " + str(f)[:40])

    def mcall(self, e, env):
        m = e["m"]
        recv = self.ev(e["r"], env)
        if m in ("clone", "cloned", "copied", "to_owned") and not e["a"]:
            return recv
        if m in ("saturating_add", "wrapping_add", "saturating_sub", "wrapping_sub") and len(e["a"]) == 1:
            return add(recv, self.ev(e["a"][0], env), 1 if m.endswith("add") else -1)
        if m == "min" and len(e["a"]) == 1:
            return mn(recv, self.ev(e["a"][0], env))
        if m == "map" and len(e["a"]) == 1:
            if recv == NONE:
                return NONE
            if recv[0] == "some":
                return some(self.apply(self.fn_value(e["a"][0], env), [recv[1]]))
        if m == "map_or" and len(e["a"]) == 2:
            if recv == NONE:
                return self.ev(e["a"][0], env)
            if recv[0] == "some":
                return self.apply(self.fn_value(e["a"][1], env), [recv[1]])
        if m == "unwrap_or_default" and not e["a"]:
            return recv[1] if recv[0] == "some" else lin(None, 0)
        if m == "or" and len(e["a"]) == 1:
            return recv if recv != NONE else self.ev(e["a"][0], env)
        if m == "and" and len(e["a"]) == 1:
            return NONE if recv == NONE else self.ev(e["a"][0], env)
        if m == "unwrap_or" and len(e["a"]) == 1:
            return recv[1] if recv[0] == "some" else self.ev(e["a"][0], env)
        if m == "zip" and len(e["a"]) == 1:
            o = self.ev(e["a"][0], env)
            return some(("tuple", (recv[1], o[1]))) if recv[0] == "some" and o[0] == "some" else NONE
        if m in ("is_some", "is_none") and not e["a"]:
            return ("bool", (recv != NONE) == (m == "is_some"))
        if m in self.helpers:
            h = self.helpers[m]
            params = [p["name"] for p in h["params"]]
            args = [recv] + [self.fn_value(a, env) if (a.get("k") == "closure" or (a.get("k") == "path" and (last_seg(a["p"]) == "min" or (a["p"] in env and isinstance(env[a["p"]], tuple) and env[a["p"]][0] == "closure")))) else self.ev(a, env) for a in e["a"]]
            if len(params) != len(args):
                raise Unsupported("helper arity " + m)
            henv = dict(zip(params, args))
            try:
                return self.block(h["body"], henv)[0]
            except _Return as r:
                return r.value
        raise Unsupported("method ." + m)

    # ---- patterns ----------------------------------------------------------------------------------------------
    def bind(self, pat, val, env):
        """True / False (does the pattern match), binding names into env"""
        k = pat.get("k")
        if k == "p_wild":
            return True
        if k == "p_ident":
            if pat["n"] == "None":
                return val == NONE
            env[pat["n"]] = val
            return True
        if k == "p_path" and last_seg(pat["p"]) == "None":
            return val == NONE
        if k == "p_ts" and last_seg(pat["p"]) == "Some" and len(pat["e"]) == 1:
            if not (isinstance(val, tuple) and val and val[0] == "some"):
                return False
            return self.bind(pat["e"][0], val[1], env)
        if k == "p_tuple":
            if not (isinstance(val, tuple) and val and val[0] == "tuple" and len(val[1]) == len(pat["e"])):
                raise Unsupported("tuple pattern on " + str(val)[:40])
            return all(self.bind(p, v, env) for p, v in zip(pat["e"], val[1]))
        if k == "p_ref":
            return self.bind(pat["pat"], val, env)
        raise Unsupported("pattern " + show(pat)[:40])

    def cond(self, c, env):
        if c.get("k") == "let":
            return self.bind(c["pat"], self.ev(c["e"], env), env)
        if c.get("k") == "bin" and c["op"] == "&&":
            return self.cond(c["lhs"], env) and self.cond(c["rhs"], env)
        if c.get("k") == "bin" and c["op"] == "||":
            return self.cond(c["lhs"], env) or self.cond(c["rhs"], env)
        if c.get("k") == "un" and c["op"] == "!":
            return not self.cond(c["e"], env)
        if c.get("k") == "paren":
            return self.cond(c["e"], env)
        v = self.ev(c, env)
        if isinstance(v, tuple) and v[0] == "bool":
            return v[1]
        raise Unsupported("condition " + show(c)[:60])

    def ev_if(self, e, env):
        env2 = dict(env)
        if self.cond(e["c"], env2):
            v, out = self.block(e["t"], env2)
        elif e.get("e") is not None:
            v, out = self.block(e["e"], dict(env)) if e["e"].get("k") == "block" else (self.ev(e["e"], env), env)
        else:
            return None
        # assignments made inside the branch to outer names are visible afterwards
        for k_ in list(env):
            if k_ in out:
                env[k_] = out[k_]
        return v

    def ev_match(self, e, env):
        val = self.ev(e["e"], env)
        for arm in e["arms"]:
            env2 = dict(env)
            if self.bind(arm["pat"], val, env2):
                if arm.get("guard") is not None and not self.cond(arm["guard"], env2):
                    continue
                b = arm["body"]
                v, out = self.block(b, env2) if b.get("k") == "block" else (self.ev(b, env2), env2)
                for k_ in list(env):
                    if k_ in out:
                        env[k_] = out[k_]
                return v
        raise Unsupported("no arm matches")

    # ---- statements --------------------------------------------------------------------------------------------
    def assign(self, lhs, val, env):
        if lhs.get("k") == "path":
            env[lhs["p"]] = val
            return
        if lhs.get("k") == "field" and lhs["e"].get("k") == "path":
            base = env.get(lhs["e"]["p"])
            if isinstance(base, dict):
                base = dict(base)
                base[lhs["f"]] = val
                env[lhs["e"]["p"]] = base
                return
        raise Unsupported("assignment to " + show(lhs))

    def block(self, b, env):
        """-> (value of the tail expression or None, env after)"""
        if b.get("k") != "block":
            return self.ev(b, env), env
        val = None
        for st in b["s"]:
            k = st.get("k")
            val = None
            if k == "local":
                if st.get("init") is None:
                    continue
                v = self.fn_value(st["init"], env) if st["init"].get("k") == "closure" else self.ev(st["init"], env)
                if not self.bind(st["pat"], v, env):
                    if st.get("else") is None:
                        raise Unsupported("refutable let")
                    self.block(st["else"], dict(env))          # `let P = e else { diverges }`
                    raise Unsupported("let-else branch does not diverge")
            elif k == "return":
                raise _Return(self.ev(st["e"], env) if st.get("e") is not None else None)
            elif k == "assign":
                self.assign(st["lhs"], self.ev(st["rhs"], env), env)
            elif k in ("if", "match"):
                val = self.ev(st, env)
            elif k == "macro" and st.get("n") == "matches" and not st.get("semi"):
                val = self.ev(st, env)                             # `matches!(..)` in tail position is the value of the block
            elif k == "macro" or k == "item_fn":
                continue
            else:
                val = self.ev(st, env)
                if st.get("semi"):
                    val = None
        return val, env


def lower_bound(term, lbs):
    """least value of a term when every symbol is at least lbs[symbol] (coefficients must be non-negative)"""
    if term[0] == "min":
        return min(lower_bound(term[1], lbs), lower_bound(term[2], lbs))
    if term[0] != "lin":
        raise Unsupported("bound of " + str(term)[:40])
    tot = 0
    for sym, c in term[1]:
        if sym == "":
            tot += c
        else:
            if c < 0 or sym not in lbs:
                raise Unsupported("unbounded symbol " + sym)
            tot += c * lbs[sym]
    return tot
