"""Query helpers over the JSON syntax trees produced by synfacts."""


class AnchorMissing(Exception):
    pass


def walk(node):
    """Yield every dict node of a tree (pre-order)."""
    stack = [node]
    while stack:
        n = stack.pop()
        if isinstance(n, dict):
            if "k" in n:
                yield n
            for v in reversed(list(n.values())):
                if isinstance(v, (dict, list)):
                    stack.append(v)
        elif isinstance(n, list):
            for v in reversed(n):
                if isinstance(v, (dict, list)):
                    stack.append(v)


def walk_no_closure(node):
    """Like walk but does not descend into closures or nested fn items."""
    stack = [node]
    first = True
    while stack:
        n = stack.pop()
        if isinstance(n, dict):
            if "k" in n:
                if not first and n["k"] in ("closure", "item_fn"):
                    continue
                yield n
            first = False
            for v in reversed(list(n.values())):
                if isinstance(v, (dict, list)):
                    stack.append(v)
        elif isinstance(n, list):
            for v in reversed(n):
                if isinstance(v, (dict, list)):
                    stack.append(v)


class Syn:
    def __init__(self, data):
        self.data = data
        self.fns = []
        seen = set()
        for c, v in data.items():
            for f in v["fns"]:
                f["crate"] = c
                key = (c, f["path"], f["file"], f["l"])
                if key in seen:
                    continue  # a module file reached through two `mod` declarations
                seen.add(key)
                self.fns.append(f)
        # pure renames of local bindings are undone before any rule looks (see alphanorm.py)
        import os as _os
        if not _os.environ.get("VERIF_NO_ALPHANORM"):
            import alphanorm
            here = _os.path.dirname(_os.path.dirname(_os.path.dirname(_os.path.abspath(__file__))))
            self.alpha_renamed = alphanorm.normalise(self.fns, alphanorm.load_table(here))
        self.adts = [dict(a, crate=c) for c, v in data.items() for a in v["adts"]]
        self.statics = [dict(a, crate=c) for c, v in data.items() for a in v["statics"]]
        self.impls = [dict(a, crate=c) for c, v in data.items() for a in v["impls"]]

    # ---- functions -------------------------------------------------------
    def find_fns(self, suffix, crate=None, file_suffix=None):
        out = []
        for f in self.fns:
            if crate and f["crate"] != crate:
                continue
            if file_suffix and not f["file"].endswith(file_suffix):
                continue
            p = f["path"]
            if p == suffix or p.endswith("::" + suffix):
                out.append(f)
        return out

    def fn(self, suffix, crate=None, file_suffix=None):
        fs = self.find_fns(suffix, crate, file_suffix)
        if len(fs) != 1:
            raise AnchorMissing(
                f"anchor function `{suffix}`"
                + (f" in {file_suffix}" if file_suffix else "")
                + f": expected exactly 1 definition, found {len(fs)}"
            )
        return fs[0]

    def fn_opt(self, suffix, crate=None, file_suffix=None):
        fs = self.find_fns(suffix, crate, file_suffix)
        return fs[0] if len(fs) == 1 else None

    def fns_in_file(self, file_suffix):
        return [f for f in self.fns if f["file"].endswith(file_suffix)]

    def fn_at(self, file, line):
        best = None
        for f in self.fns:
            if f["file"] == file and f["l"] <= line <= f["el"]:
                if best is None or (f["el"] - f["l"]) < (best["el"] - best["l"]):
                    best = f
        return best

    def adt(self, name, crate=None, file_suffix=None):
        out = [
            a
            for a in self.adts
            if a["name"] == name
            and (not crate or a["crate"] == crate)
            and (not file_suffix or a["file"].endswith(file_suffix))
        ]
        if len(out) != 1:
            raise AnchorMissing(f"anchor type `{name}`: expected exactly 1 definition, found {len(out)}")
        return out[0]

    def static(self, suffix):
        out = [s for s in self.statics if s["path"].endswith("::" + suffix) or s["path"] == suffix]
        if len(out) != 1:
            raise AnchorMissing(f"anchor static/const `{suffix}`: expected exactly 1, found {len(out)}")
        return out[0]


# ---- patterns ------------------------------------------------------------

def pat_alts(pat):
    """Flatten top-level or-patterns."""
    if pat.get("k") == "p_or":
        out = []
        for c in pat["c"]:
            out.extend(pat_alts(c))
        return out
    if pat.get("k") == "p_ident" and pat.get("sub") is not None and pat["sub"].get("k") == "p_or":
        return pat_alts(pat["sub"])
    return [pat]


def last_seg(path):
    return path.rsplit("::", 1)[-1]


def pat_head(pat):
    """The variant / constructor path at the head of a pattern ('_' for wildcard/binding)."""
    k = pat.get("k")
    if k in ("p_path", "p_ts", "p_struct"):
        return pat["p"]
    if k == "p_ident":
        if "sub" in pat:
            return pat_head(pat["sub"])
        n = pat["n"]
        # an upper-case identifier pattern is a unit variant / const brought in by `use`
        return n if n[:1].isupper() else "_"
    if k == "p_wild":
        return "_"
    if k == "lit":
        return ("lit", pat["v"])
    if k == "p_tuple":
        return ("tuple", [pat_head(e) for e in pat["e"]])
    if k == "p_range":
        return ("range", lit_val(pat.get("s")), lit_val(pat.get("e")), pat.get("closed"))
    return "?" + str(k)


def lit_val(n):
    if n is None:
        return None
    if n.get("k") == "lit":
        v = n["v"]
        if n["t"] == "int":
            return int(v)
        return v
    if n.get("k") == "un" and n["op"] == "-":
        v = lit_val(n["e"])
        return -v if isinstance(v, int) else None
    return None


def strs(node):
    return [n["v"] for n in walk(node) if n.get("k") == "lit" and n.get("t") == "str"]


def paths(node):
    return [n["p"] for n in walk(node) if n.get("k") in ("path", "p_path", "p_ts", "p_struct", "struct")]


def mcalls(node, name=None):
    return [n for n in walk(node) if n.get("k") == "mcall" and (name is None or n["m"] == name)]


def calls(node, name=None):
    """Function calls `f(..)` whose callee path's last segment is `name`."""
    out = []
    for n in walk(node):
        if n.get("k") == "call" and n["f"].get("k") == "path":
            if name is None or last_seg(n["f"]["p"]) == name:
                out.append(n)
    return out


def macros(node, name=None):
    return [n for n in walk(node) if n.get("k") == "macro" and (name is None or n["n"] == name)]


def matches_of(node):
    return [n for n in walk(node) if n.get("k") == "match"]


def callee_name(n):
    if n.get("k") == "call" and n["f"].get("k") == "path":
        return n["f"]["p"]
    if n.get("k") == "mcall":
        return "." + n["m"]
    return None


def chain(node):
    """Method-call chain from the innermost receiver outwards:
    a.b().c(x) -> (receiver_root, [mcall b, mcall c])"""
    out = []
    while isinstance(node, dict) and node.get("k") in ("mcall", "try", "await", "field") :
        if node["k"] == "mcall":
            out.append(node)
            node = node["r"]
        elif node["k"] == "field":
            break
        else:
            node = node["e"]
    out.reverse()
    return node, out


def tail_expr(block):
    """The value expression of a block (last statement without `;`), else None."""
    if block.get("k") != "block":
        return block
    if not block["s"]:
        return None
    last = block["s"][-1]
    if last.get("semi") or last.get("k") == "local":
        return None
    return tail_expr(last) if last.get("k") == "block" else last


def show(n, depth=0, maxdepth=6):
    """Compact human-readable rendering of an expression (for reports)."""
    if n is None:
        return ""
    if not isinstance(n, dict):
        return str(n)
    if depth > maxdepth:
        return "…"
    k = n.get("k")
    s = lambda x: show(x, depth + 1, maxdepth)
    if k == "lit":
        if n["t"] == "bool":
            return "true" if n["v"] else "false"
        return repr(n["v"]) if n["t"] in ("str", "char") else str(n["v"])
    if k in ("path", "p_path"):
        return n["p"]
    if k == "call":
        return f"{s(n['f'])}({', '.join(s(a) for a in n['a'])})"
    if k == "mcall":
        return f"{s(n['r'])}.{n['m']}({', '.join(s(a) for a in n['a'])})"
    if k == "macro":
        if "a" in n:
            return f"{n['n']}!({', '.join(s(a) for a in n['a'])})"
        return f"{n['n']}!(..)"
    if k == "field":
        return f"{s(n['e'])}.{n['f']}"
    if k == "bin":
        return f"({s(n['lhs'])} {n['op']} {s(n['rhs'])})"
    if k == "un":
        return f"{n['op']}{s(n['e'])}"
    if k == "ref":
        return ("&mut " if n.get("mut") else "&") + s(n["e"])
    if k == "try":
        return s(n["e"]) + "?"
    if k == "struct":
        return f"{n['p']}{{{', '.join(f[0]+': '+s(f[1]) for f in n['f'])}{', ..' if 'rest' in n else ''}}}"
    if k == "tuple":
        return "(" + ", ".join(s(e) for e in n["e"]) + ")"
    if k == "array":
        return "[" + ", ".join(s(e) for e in n["e"]) + "]"
    if k == "closure":
        return "|" + ", ".join(s(p) for p in n["params"]) + "| " + s(n["body"])
    if k == "p_ident":
        return n["n"] + (" @ (" + s(n["sub"]) + ")" if n.get("sub") is not None else "")
    if k == "p_ts":
        return f"{n['p']}({', '.join(s(e) for e in n['e'])})"
    if k == "p_tuple":
        return "(" + ", ".join(s(e) for e in n["e"]) + ")"
    if k == "p_wild":
        return "_"
    if k == "p_range":
        return (s(n["s"]) if n.get("s") is not None else "") + ("..=" if n.get("closed") else "..") + (s(n["e"]) if n.get("e") is not None else "")
    if k == "p_or":
        return " | ".join(s(c) for c in n["c"])
    if k == "p_struct":
        return f"{n['p']}{{..}}"
    if k == "block":
        t = tail_expr(n)
        if len(n["s"]) == 1 and t is not None:
            return "{ " + s(t) + " }"
        return "{…}"
    if k == "return":
        return "return " + s(n.get("e"))
    if k == "if":
        return f"if {s(n['c'])} {{…}}"
    if k == "match":
        return f"match {s(n['e'])} {{…}}"
    if k == "let":
        return f"let {s(n['pat'])} = {s(n['e'])}"
    if k == "index":
        return f"{s(n['e'])}[{s(n['i'])}]"
    if k == "cast":
        return f"{s(n['e'])} as {n['ty']}"
    if k == "range":
        return f"{s(n.get('s'))}..{'=' if n.get('closed') else ''}{s(n.get('e'))}"
    if k == "assign":
        return f"{s(n['lhs'])} = {s(n['rhs'])}"
    return f"<{k}>"


def show_stmts(block, maxdepth=12):
    """Render every statement of a block (not just the tail expression)."""
    if block is None:
        return ""
    if block.get("k") != "block":
        return show(block, 0, maxdepth)
    out = []
    for st in block["s"]:
        if st.get("k") == "local":
            out.append(f"let {show(st['pat'], 0, maxdepth)} = {show(st.get('init'), 0, maxdepth)}")
        else:
            out.append(show(st, 0, maxdepth))
    return "; ".join(out)


def variant_table(e, render=None):
    """A value chosen by the variant of one scrutinee, whether written `if matches!(x, A | B) {p} else {q}`, `if !matches!(..)`, `if let A | B = x {p} else {q}`
    or `match x { A | B => p, _ => q }`.  Returns (scrutinee text, {variant last segment: value text}, default value text or None); None when `e` is not such a decision."""
    render = render or (lambda x: show(tail_expr(x) if isinstance(x, dict) and x.get("k") == "block" else x, maxdepth=8))
    if not isinstance(e, dict):
        return None
    if e.get("k") == "block" and len(e.get("s", [])) == 1:
        return variant_table(tail_expr(e), render)
    if e.get("k") == "match":
        table, default = {}, None
        for arm in e["arms"]:
            if arm.get("guard") is not None:
                return None
            for alt in pat_alts(arm["pat"]):
                h = pat_head(alt)
                if h == "_":
                    default = render(arm["body"])
                else:
                    table[last_seg(h)] = render(arm["body"])
        return show(e["e"]), table, default
    if e.get("k") == "if" and e.get("e") is not None:
        c, neg = e["c"], False
        while c.get("k") == "un" and c["op"] == "!":
            c, neg = c["e"], not neg
        if c.get("k") == "paren":
            c = c["e"]
        if c.get("k") == "macro" and c["n"] == "matches" and c.get("guard") is None:
            scrut, pat = show(c["a"][0]), c["pat"]
        elif c.get("k") == "let" and not neg:
            scrut, pat = show(c["e"]), c["pat"]
        else:
            return None
        yes, no = (e["e"], e["t"]) if neg else (e["t"], e["e"])
        return scrut, {last_seg(pat_head(a)): render(yes) for a in pat_alts(pat)}, render(no)
    return None


def const_str(syn, f, node, _depth=0):
    """The string a node denotes when it is a string literal, `<that>.to_string()` / `.into()` / `.to_owned()` / `String::from(..)`, or the name of a
    constant (module-level `const`, or a `const` item inside the function `f`) initialised with one.  None otherwise."""
    if node is None or _depth > 4:
        return None
    k = node.get("k")
    if k == "lit" and node.get("t") == "str":
        return lit_val(node)
    if k in ("ref", "paren"):
        return const_str(syn, f, node["e"], _depth + 1)
    if k == "mcall" and node["m"] in ("to_string", "into", "to_owned", "as_str", "clone") and not node["a"]:
        return const_str(syn, f, node["r"], _depth + 1)
    if k == "call" and show(node["f"]) in ("String::from", "str::to_string", "ToString::to_string", "ToOwned::to_owned") and len(node["a"]) == 1:
        return const_str(syn, f, node["a"][0], _depth + 1)
    if k == "path":
        name = last_seg(node["p"])
        if f is not None and "body" in f:
            for n in walk(f["body"]):
                if n.get("k") == "item_const" and n.get("name") == name and n.get("init") is not None:
                    return const_str(syn, f, n["init"], _depth + 1)
        cands = [c for c in getattr(syn, "statics", []) if c.get("kind") == "const" and c["path"].split("::")[-1] == name and c.get("init") is not None]
        if f is not None:
            same = [c for c in cands if c.get("file") == f.get("file")]
            cands = same or cands
        if len(cands) == 1:
            return const_str(syn, f, cands[0]["init"], _depth + 1)
    return None
