import importlib
import json
import os
import sys
import traceback

import core
import facts
from synq import AnchorMissing

ALL = ["C01", "C02", "C03", "C04", "C05", "C06", "C07", "C08", "C09", "C10", "C11", "C12", "C13", "C14", "C15", "C16",
       "C17", "C18"]


def run_one(pid, tier, seed):
    try:
        mod = importlib.import_module(pid)
    except ModuleNotFoundError:
        print(f"no rule module for {pid}")
        return 2
    ctx = core.Ctx(tier, seed)
    rep = core.Report(pid, tier, seed)
    try:
        try:
            mod.run(ctx, rep)
        except AnchorMissing as e:
            rep.rule("anchor", "anchored functions/types of the property exist exactly once")
            rep.bad("missing", str(e))
        if tier == "thorough":
            thorough_extra(pid, mod, ctx, rep, seed)
        return core.emit(rep, *mod.META)
    except facts.BuildFailed as e:
        return core.fail_closed(pid, tier, seed, e.what, e.log)
    except Exception:
        return core.fail_closed(pid, tier, seed, "checker crashed (fail closed)", traceback.format_exc())


MIR_PROPS = {"C02", "C08", "C09", "C10", "C11", "C12", "C13", "C15", "C16"}
LIB_PROPS = {"C13": ["ariadne"], "C08": ["sqlparser"], "C09": ["sqlparser"]}


def thorough_extra(pid, mod, ctx, rep, seed):
    """Thorough tier: (1) the MIR-based rules again on the library as the language bindings build it
    (--no-default-features: no cli, no serde_yaml cfgs), (2) re-verification of the vendored-library oracles."""
    if pid in MIR_PROPS:
        ctx2 = core.Ctx("thorough", seed, features=["--no-default-features"])
        ctx2._syn = ctx.syn
        rep2 = core.Report(pid, "thorough", seed)
        try:
            mod.run(ctx2, rep2)
        except AnchorMissing as e:
            rep2.rule("anchor", "anchors")
            rep2.bad("missing", str(e))
        main_keys = {v["key"] for v in rep.violations}
        n_new = 0
        for rid, r in rep2.rules.items():
            rid2 = rid + "@no-default-features"
            rep.rules[rid2] = {"desc": r["desc"] + " [config: --no-default-features]", "floor": 0, "instances": r["instances"], "nontrivial": r["nontrivial"]}
        for v in rep2.violations:
            if v["key"] not in main_keys:
                v2 = dict(v, key=v["key"], rule=v["rule"] + "@no-default-features", msg="[--no-default-features] " + v["msg"])
                rep.violations.append(v2)
                n_new += 1
        rep.note(f"thorough: rules re-evaluated on the --no-default-features build ({sum(len(r['instances']) for r in rep2.rules.values())} instances, {n_new} additional violation(s))")
    if pid in LIB_PROPS:
        import libcheck
        libcheck.run(rep, LIB_PROPS[pid])


def main(argv):
    tier = os.environ.get("VERIF_TIER", "quick")
    seed = int(os.environ.get("VERIF_SEED", "0") or 0)
    args = list(argv)
    if "--tier" in args:
        i = args.index("--tier")
        tier = args[i + 1]
        del args[i:i + 2]
    if not args:
        print(__doc__ or "usage: check <ID>")
        return 2
    if args[0] == "--setup":
        try:
            facts.ensure_tools()
            c = core.Ctx(tier, seed)
            c.syn
            c.mir
            print("setup ok")
            return 0
        except facts.BuildFailed as e:
            print("setup failed:", e.what)
            print(e.log[-4000:])
            return 1
    if args[0] == "--selftest":
        import selftest
        return selftest.main(args[1:])
    if args[0] == "--explain":
        print(open(args[1]).read())
        return 0
    if args[0] == "--keys":
        # developer aid: print the violation keys of a property as known-findings stubs (never written by a check)
        import io, contextlib
        buf = io.StringIO()
        with contextlib.redirect_stdout(buf):
            run_one(args[1], tier, seed)
        vd = os.path.join(core.EVID, "violations")
        for f in sorted(os.listdir(vd)):
            if f.startswith(args[1] + "-") and f.endswith(".json"):
                v = json.load(open(os.path.join(vd, f)))
                print(json.dumps({"property": args[1], "key": v["key"], "status": "known", "what": v["msg"][:300]}))
        return 0
    if args[0] == "--all":
        rc = 0
        for p in ALL:
            rc |= run_one(p, tier, seed)
        return rc
    if len(args) > 2 and args[1] == "--explain":
        print(open(args[2]).read())
        return 0
    return run_one(args[0], tier, seed)


if __name__ == "__main__":
    sys.exit(main(sys.argv[1:]))
