"""E1: tolerant parser for semantic/std.prql and sql/std.sql.prql.

Both are declarative tables (function signatures, `internal X` bodies, SQL
templates with {hole:strength} interpolations and @{...} annotations); this
module reads them as data from /repo's current tree.
"""
import os
import re

STD_PRQL = "prqlc/prqlc/src/semantic/std.prql"
STD_SQL = "prqlc/prqlc/src/sql/std.sql.prql"


class StdParseError(Exception):
    pass


TOKEN_RE = re.compile(
    r"""
    (?P<ws>[ \t\r]+)
  | (?P<nl>\n)
  | (?P<comment>\#[^\n]*)
  | (?P<sstr>[sfr]"(?:[^"\\]|\\.)*")
  | (?P<str>"(?:[^"\\]|\\.)*"|'(?:[^'\\]|\\.)*')
  | (?P<bt>`[^`]*`)
  | (?P<arrow>->)
  | (?P<op>==|!=|>=|<=|&&|\|\||\?\?|\.\.)
  | (?P<num>\d+(?:\.\d+)?)
  | (?P<ident>[A-Za-z_][A-Za-z0-9_]*)
  | (?P<punct>[@{}()\[\]<>=:,.*|+\-/%!])
    """,
    re.X,
)


def tokenize(text, fname):
    toks = []
    pos = 0
    line = 1
    while pos < len(text):
        m = TOKEN_RE.match(text, pos)
        if not m:
            raise StdParseError(f"{fname}:{line}: cannot tokenise at {text[pos:pos+20]!r}")
        k = m.lastgroup
        v = m.group()
        if k == "nl":
            line += 1
        elif k in ("ws", "comment"):
            pass
        else:
            toks.append((k, v, line))
        pos = m.end()
    return toks


def parse_sstring(raw):
    """raw = s"...": returns list of ('s', text) | ('h', name, fmt|None)."""
    body = raw[2:-1]
    items = []
    buf = ""
    i = 0
    while i < len(body):
        c = body[i]
        if c == "{":
            if body[i : i + 2] == "{{":
                buf += "{"
                i += 2
                continue
            j = body.index("}", i)
            if buf:
                items.append(("s", buf))
                buf = ""
            inner = body[i + 1 : j]
            if ":" in inner:
                name, fmt = inner.split(":", 1)
            else:
                name, fmt = inner, None
            items.append(("h", name.strip(), fmt))
            i = j + 1
        elif c == "}" and body[i : i + 2] == "}}":
            buf += "}"
            i += 2
        elif c == "\\" and i + 1 < len(body):
            buf += body[i + 1]
            i += 2
        else:
            buf += c
            i += 1
    if buf:
        items.append(("s", buf))
    return items


class Parser:
    def __init__(self, toks, fname):
        self.t = toks
        self.i = 0
        self.fname = fname
        self.funcs = []
        self.modules = []

    def peek(self, o=0):
        return self.t[self.i + o] if self.i + o < len(self.t) else ("eof", "", -1)

    def next(self):
        tok = self.peek()
        self.i += 1
        return tok

    def expect(self, v):
        tok = self.next()
        if tok[1] != v:
            raise StdParseError(f"{self.fname}:{tok[2]}: expected {v!r}, found {tok[1]!r}")
        return tok

    def parse_items(self, modpath, until_brace):
        annotations = {}
        while True:
            k, v, ln = self.peek()
            if k == "eof":
                if until_brace:
                    raise StdParseError(f"{self.fname}: unclosed module {'.'.join(modpath)}")
                return
            if v == "}" and until_brace:
                self.next()
                return
            if v == "@":
                self.next()
                annotations.update(self.parse_annotation())
                continue
            if v == "let":
                self.parse_let(modpath, annotations)
                annotations = {}
                continue
            if v == "module":
                self.next()
                name = self.next()[1].strip("`")
                self.expect("{")
                self.modules.append({"path": modpath + [name], "line": ln})
                self.parse_items(modpath + [name], True)
                continue
            if v == "type":
                # skip to the next declaration at depth 0
                self.next()
                self.skip_to_decl()
                continue
            raise StdParseError(f"{self.fname}:{ln}: unexpected token {v!r} at declaration level")

    def parse_annotation(self):
        self.expect("{")
        out = {}
        while True:
            k, v, ln = self.next()
            if v == "}":
                return out
            if v == ",":
                continue
            name = v
            if self.peek()[1] == "=":
                self.next()
                vk, vv, _ = self.next()
                if vk == "str":
                    vv = vv[1:-1]
                elif vk == "num":
                    vv = int(vv) if vv.isdigit() else float(vv)
                elif vv in ("true", "false"):
                    vv = vv == "true"
                out[name] = vv
            else:
                out[name] = True

    def at_decl(self):
        k, v, _ = self.peek()
        return k == "eof" or (k == "ident" and v in ("let", "module", "type")) or v == "@"

    def skip_to_decl(self):
        depth = 0
        while True:
            k, v, _ = self.peek()
            if k == "eof":
                return
            if depth == 0 and (self.at_decl() or v == "}"):
                return
            if v in "([{" and k == "punct":
                depth += 1
            elif v in ")]}" and k == "punct":
                depth -= 1
            self.next()

    def parse_type(self):
        # consume `< ... >`
        self.expect("<")
        depth = 1
        parts = []
        while depth:
            k, v, _ = self.next()
            if k == "eof":
                raise StdParseError(f"{self.fname}: unclosed type")
            if v == "<":
                depth += 1
            elif v == ">":
                depth -= 1
                if depth == 0:
                    break
            parts.append(v)
        return " ".join(parts)

    def parse_let(self, modpath, annotations):
        _, _, ln = self.expect("let")
        name = self.next()[1].strip("`")
        self.expect("=")
        if self.peek()[1] == "func":
            self.next()
        params = []
        while self.peek()[0] != "arrow":
            k, v, pl = self.next()
            if k == "eof":
                raise StdParseError(f"{self.fname}:{ln}: `let {name}` without `->`")
            if k == "bt":
                pname = v.strip("`")
            elif k == "ident":
                pname = v
                while self.peek()[1] == "." and self.peek(1)[0] == "ident":
                    self.next()
                    pname += "." + self.next()[1]
            else:
                raise StdParseError(f"{self.fname}:{pl}: unexpected {v!r} in parameter list of {name}")
            ty = None
            default = None
            if self.peek()[1] == "<":
                ty = self.parse_type()
            if self.peek()[1] == ":":
                self.next()
                default = self.parse_default()
            params.append({"name": pname, "ty": ty, "default": default})
        self.next()  # ->
        ret = None
        if self.peek()[1] == "<":
            ret = self.parse_type()
        # body
        k, v, bl = self.peek()
        body = None
        if k == "ident" and v == "internal":
            self.next()
            parts = [self.next()[1]]
            while self.peek()[1] == "." and self.peek(1)[0] == "ident":
                self.next()
                parts.append(self.next()[1])
            body = {"kind": "internal", "name": ".".join(parts)}
        elif k == "sstr" and v[0] == "s":
            self.next()
            body = {"kind": "sstring", "raw": v[2:-1], "items": parse_sstring(v)}
        elif k == "ident" and v == "null":
            self.next()
            body = {"kind": "null"}
        else:
            start = self.i
            self.skip_to_decl()
            body = {"kind": "expr", "tokens": [t[1] for t in self.t[start : self.i]]}
        if not (self.at_decl() or self.peek()[1] == "}"):
            k2, v2, l2 = self.peek()
            raise StdParseError(f"{self.fname}:{l2}: trailing {v2!r} after the body of `{name}`")
        self.funcs.append(
            {
                "file": self.fname,
                "line": ln,
                "module": list(modpath),
                "name": name,
                "path": ".".join(modpath + [name]),
                "params": params,
                "ret": ret,
                "body": body,
                "annotations": dict(annotations),
            }
        )

    def parse_default(self):
        # a default is one atom, possibly a range a..b with signs
        parts = []
        k, v, _ = self.next()
        parts.append(v)
        if v == "-":
            parts.append(self.next()[1])
        if self.peek()[1] == "..":
            parts.append(self.next()[1])
            if self.peek()[1] == "-":
                parts.append(self.next()[1])
            if self.peek()[0] == "num":
                parts.append(self.next()[1])
        return "".join(parts)


def parse_file(repo, rel):
    p = os.path.join(repo, rel)
    with open(p, encoding="utf-8") as f:
        text = f.read()
    ps = Parser(tokenize(text, rel), rel)
    ps.parse_items([], False)
    return ps


DIALECT_MODULES_HINT = None


def load(repo):
    s = parse_file(repo, STD_PRQL)
    q = parse_file(repo, STD_SQL)
    return {"std": s.funcs, "std_modules": s.modules, "sql": q.funcs, "sql_modules": q.modules}


def param_call_order(f):
    """Positional order in which RQ passes arguments: named params then positional
    (mirrors `named_params.iter().chain(params.iter())` in translate_operator and the
    resolver's closure application)."""
    named = [p for p in f["params"] if p["default"] is not None]
    pos = [p for p in f["params"] if p["default"] is None]
    return named + pos


def short(pname):
    """`noresolve.type` / `default_db.source` -> last segment, as the code does."""
    return pname.split(".")[-1]
