//! synfacts: dump the syntax tree of every non-test Rust item of a set of source
//! roots as JSON, so that the rule modules (python) can read match tables,
//! combinator chains, struct literals, attributes and string literals from the
//! *current* source of /repo.
//!
//! usage: synfacts <out.json> <crate-name>=<src-dir> ...
//!
//! Node encoding: every node is an object with "k" (kind) and "l" (line).
//! Items under `#[cfg(test)]` / `#[test]` are dropped (`"test": true` is never
//! emitted; they are simply not visited).
use proc_macro2::{Delimiter, TokenStream, TokenTree};
use quote::ToTokens;
use serde_json::{json, Map, Value};
use std::path::{Path, PathBuf};
use syn::punctuated::Punctuated;
use syn::spanned::Spanned;
use syn::*;

fn line<T: Spanned>(t: &T) -> usize {
    t.span().start().line
}
fn endline<T: Spanned>(t: &T) -> usize {
    t.span().end().line
}
fn col<T: Spanned>(t: &T) -> usize {
    t.span().start().column
}

fn toks<T: ToTokens>(t: &T) -> String {
    // normalised token text (no line info); used for types and opaque things
    let s = t.to_token_stream().to_string();
    s.replace(" :: ", "::")
        .replace(" < ", "<")
        .replace(" >", ">")
        .replace("& ", "&")
        .replace(" ,", ",")
}

fn path_str(p: &syn::Path) -> String {
    let mut s = String::new();
    if p.leading_colon.is_some() {
        s.push_str("::");
    }
    for (i, seg) in p.segments.iter().enumerate() {
        if i > 0 {
            s.push_str("::");
        }
        s.push_str(&seg.ident.to_string());
    }
    s
}

fn path_generics(p: &syn::Path) -> Option<String> {
    let last = p.segments.last()?;
    match &last.arguments {
        PathArguments::None => None,
        a => Some(toks(a)),
    }
}

fn is_test_attr(attrs: &[Attribute]) -> bool {
    for a in attrs {
        let p = path_str(a.path());
        if p == "test" || p == "rstest" || p == "bench" {
            return true;
        }
        if p == "cfg" {
            let t = a.meta.to_token_stream().to_string();
            // cfg(test) or cfg(all(test, ..)); cfg(not(test)) is not a test item
            if t.contains("test") && !t.contains("not (test") && !t.contains("not(test") {
                return true;
            }
        }
    }
    false
}

fn attrs_json(attrs: &[Attribute]) -> Value {
    let mut out = vec![];
    for a in attrs {
        let p = path_str(a.path());
        if p == "doc" {
            continue;
        }
        let args = match &a.meta {
            Meta::Path(_) => String::new(),
            Meta::List(l) => l.tokens.to_string(),
            Meta::NameValue(nv) => toks(&nv.value),
        };
        out.push(json!({"name": p, "args": args, "l": line(a)}));
    }
    Value::Array(out)
}

fn lit_json(l: &Lit) -> Value {
    match l {
        Lit::Str(s) => json!({"k":"lit","t":"str","v":s.value(),"l":line(l)}),
        Lit::ByteStr(s) => {
            json!({"k":"lit","t":"bytestr","v":String::from_utf8_lossy(&s.value()),"l":line(l)})
        }
        Lit::Byte(b) => json!({"k":"lit","t":"byte","v":b.value(),"l":line(l)}),
        Lit::Char(c) => json!({"k":"lit","t":"char","v":c.value().to_string(),"l":line(l)}),
        Lit::Int(i) => {
            json!({"k":"lit","t":"int","v":i.base10_digits(),"suffix":i.suffix(),"l":line(l)})
        }
        Lit::Float(f) => {
            json!({"k":"lit","t":"float","v":f.base10_digits(),"suffix":f.suffix(),"l":line(l)})
        }
        Lit::Bool(b) => json!({"k":"lit","t":"bool","v":b.value,"l":line(l)}),
        _ => json!({"k":"lit","t":"other","v":toks(l),"l":line(l)}),
    }
}

/// Best effort: parse macro tokens as a comma separated expression list.
fn macro_args(ts: &TokenStream) -> Option<Vec<Expr>> {
    let parser = Punctuated::<Expr, Token![,]>::parse_terminated;
    match syn::parse::Parser::parse2(parser, ts.clone()) {
        Ok(p) => Some(p.into_iter().collect()),
        Err(_) => None,
    }
}

/// matches!(expr, pat [if guard])
fn matches_args(ts: &TokenStream) -> Option<(Expr, Pat, Option<Expr>)> {
    struct M(Expr, Pat, Option<Expr>);
    impl syn::parse::Parse for M {
        fn parse(input: syn::parse::ParseStream) -> Result<Self> {
            let e: Expr = input.parse()?;
            input.parse::<Token![,]>()?;
            let p = Pat::parse_multi_with_leading_vert(input)?;
            let g = if input.peek(Token![if]) {
                input.parse::<Token![if]>()?;
                Some(input.parse::<Expr>()?)
            } else {
                None
            };
            let _ = input.parse::<Option<Token![,]>>();
            Ok(M(e, p, g))
        }
    }
    syn::parse2::<M>(ts.clone()).ok().map(|m| (m.0, m.1, m.2))
}

/// select_ref!{ pat [if guard] => expr, ... } (chumsky) and similar arm-list macros
fn arms_args(ts: &TokenStream) -> Option<Vec<(Pat, Option<Expr>, Expr)>> {
    struct A(Vec<(Pat, Option<Expr>, Expr)>);
    impl syn::parse::Parse for A {
        fn parse(input: syn::parse::ParseStream) -> Result<Self> {
            let mut v = vec![];
            while !input.is_empty() {
                let p = Pat::parse_multi_with_leading_vert(input)?;
                let g = if input.peek(Token![if]) {
                    input.parse::<Token![if]>()?;
                    Some(input.parse::<Expr>()?)
                } else {
                    None
                };
                input.parse::<Token![=>]>()?;
                let e: Expr = input.parse()?;
                let _ = input.parse::<Option<Token![,]>>();
                v.push((p, g, e));
            }
            if v.is_empty() {
                return Err(input.error("no arms"));
            }
            Ok(A(v))
        }
    }
    syn::parse2::<A>(ts.clone()).ok().map(|a| a.0)
}

fn tokens_flat(ts: &TokenStream, out: &mut Vec<Value>) {
    // flat token list with lines, for macros we cannot parse as expressions
    for tt in ts.clone() {
        match tt {
            TokenTree::Group(g) => {
                let (o, c) = match g.delimiter() {
                    Delimiter::Parenthesis => ("(", ")"),
                    Delimiter::Brace => ("{", "}"),
                    Delimiter::Bracket => ("[", "]"),
                    Delimiter::None => ("", ""),
                };
                out.push(json!(o));
                tokens_flat(&g.stream(), out);
                out.push(json!(c));
            }
            TokenTree::Ident(i) => out.push(json!(i.to_string())),
            TokenTree::Punct(p) => out.push(json!(p.as_char().to_string())),
            TokenTree::Literal(l) => out.push(json!(l.to_string())),
        }
    }
}

fn mac_json(m: &Macro) -> Value {
    let name = path_str(&m.path);
    let last = name.rsplit("::").next().unwrap_or("").to_string();
    let mut o = Map::new();
    o.insert("k".into(), json!("macro"));
    o.insert("n".into(), json!(last));
    o.insert("l".into(), json!(line(m)));
    if last == "matches" || last == "assert_matches" {
        if let Some((e, p, g)) = matches_args(&m.tokens) {
            o.insert("a".into(), json!([expr_json(&e)]));
            o.insert("pat".into(), pat_json(&p));
            if let Some(g) = g {
                o.insert("guard".into(), expr_json(&g));
            }
            return Value::Object(o);
        }
    }
    if let Some(args) = macro_args(&m.tokens) {
        o.insert("a".into(), Value::Array(args.iter().map(expr_json).collect()));
    } else if let Some(arms) = arms_args(&m.tokens) {
        o.insert(
            "arms".into(),
            Value::Array(
                arms.iter()
                    .map(|(p, g, e)| {
                        let mut a = Map::new();
                        a.insert("l".into(), json!(line(p)));
                        a.insert("pat".into(), pat_json(p));
                        if let Some(g) = g {
                            a.insert("guard".into(), expr_json(g));
                        }
                        a.insert("body".into(), expr_json(e));
                        Value::Object(a)
                    })
                    .collect(),
            ),
        );
    } else {
        let mut t = vec![];
        tokens_flat(&m.tokens, &mut t);
        o.insert("tok".into(), Value::Array(t));
    }
    Value::Object(o)
}

fn block_json(b: &Block) -> Value {
    json!({"k":"block","l":line(b),"el":endline(b),"s": b.stmts.iter().filter_map(stmt_json).collect::<Vec<_>>()})
}

fn stmt_json(s: &Stmt) -> Option<Value> {
    Some(match s {
        Stmt::Local(l) => {
            let mut o = Map::new();
            o.insert("k".into(), json!("local"));
            o.insert("l".into(), json!(line(l)));
            o.insert("pat".into(), pat_json(&l.pat));
            if let Some(init) = &l.init {
                o.insert("init".into(), expr_json(&init.expr));
                if let Some((_, d)) = &init.diverge {
                    o.insert("else".into(), expr_json(d));
                }
            }
            Value::Object(o)
        }
        Stmt::Item(i) => {
            if item_is_test(i) {
                return None;
            }
            match i {
                Item::Fn(f) => json!({"k":"item_fn","l":line(f),"name":f.sig.ident.to_string(),
                    "params": sig_params(&f.sig), "ret": ret_str(&f.sig.output),
                    "body": block_json(&f.block)}),
                Item::Static(s) => json!({"k":"item_static","l":line(s),"name":s.ident.to_string(),
                    "ty":toks(&s.ty),"mut": matches!(s.mutability, StaticMutability::Mut(_)),
                    "init":expr_json(&s.expr)}),
                Item::Const(c) => json!({"k":"item_const","l":line(c),"name":c.ident.to_string(),
                    "ty":toks(&c.ty),"init":expr_json(&c.expr)}),
                Item::Macro(m) => mac_json(&m.mac),
                Item::Impl(im) => {
                    let mut fns = vec![];
                    for ii in &im.items {
                        if let ImplItem::Fn(f) = ii {
                            fns.push(json!({"k":"item_fn","l":line(f),"name":f.sig.ident.to_string(),
                                "params": sig_params(&f.sig), "ret": ret_str(&f.sig.output),
                                "body": block_json(&f.block)}));
                        }
                    }
                    json!({"k":"item_impl","l":line(im),"self_ty":toks(&im.self_ty),
                        "trait": im.trait_.as_ref().map(|(_, p, _)| toks(p)), "fns": fns})
                }
                other => json!({"k":"item_other","l":line(other)}),
            }
        }
        Stmt::Expr(e, semi) => {
            let mut v = expr_json(e);
            if semi.is_some() {
                if let Value::Object(o) = &mut v {
                    o.insert("semi".into(), json!(true));
                }
            }
            v
        }
        Stmt::Macro(m) => {
            let mut v = mac_json(&m.mac);
            if m.semi_token.is_some() {
                if let Value::Object(o) = &mut v {
                    o.insert("semi".into(), json!(true));
                }
            }
            v
        }
    })
}

fn item_is_test(i: &Item) -> bool {
    match i {
        Item::Fn(f) => is_test_attr(&f.attrs),
        Item::Mod(m) => is_test_attr(&m.attrs),
        Item::Impl(m) => is_test_attr(&m.attrs),
        Item::Struct(m) => is_test_attr(&m.attrs),
        Item::Enum(m) => is_test_attr(&m.attrs),
        Item::Static(m) => is_test_attr(&m.attrs),
        Item::Const(m) => is_test_attr(&m.attrs),
        Item::Use(m) => is_test_attr(&m.attrs),
        Item::Macro(m) => is_test_attr(&m.attrs),
        _ => false,
    }
}

fn binop_str(op: &BinOp) -> String {
    toks(op)
}

fn with_label(mut v: Value, label: &Option<syn::Label>) -> Value {
    if let (Some(lb), Some(o)) = (label, v.as_object_mut()) {
        o.insert("label".into(), json!(lb.name.ident.to_string()));
    }
    v
}

fn expr_json(e: &Expr) -> Value {
    let l = line(e);
    match e {
        Expr::Paren(p) => expr_json(&p.expr),
        Expr::Group(p) => expr_json(&p.expr),
        Expr::Lit(x) => lit_json(&x.lit),
        Expr::Path(p) => {
            let mut o = Map::new();
            o.insert("k".into(), json!("path"));
            o.insert("p".into(), json!(path_str(&p.path)));
            o.insert("l".into(), json!(l));
            if let Some(q) = &p.qself {
                o.insert("qself".into(), json!(toks(&q.ty)));
            }
            if let Some(g) = path_generics(&p.path) {
                o.insert("g".into(), json!(g));
            }
            Value::Object(o)
        }
        Expr::Call(c) => json!({"k":"call","l":l,"f":expr_json(&c.func),
            "a": c.args.iter().map(expr_json).collect::<Vec<_>>()}),
        Expr::MethodCall(m) => {
            let mut o = Map::new();
            o.insert("k".into(), json!("mcall"));
            o.insert("l".into(), json!(line(&m.method)));
            o.insert("c".into(), json!(col(&m.method)));
            o.insert("m".into(), json!(m.method.to_string()));
            o.insert("r".into(), expr_json(&m.receiver));
            o.insert("a".into(), Value::Array(m.args.iter().map(expr_json).collect()));
            if let Some(t) = &m.turbofish {
                o.insert("tf".into(), json!(toks(t)));
            }
            Value::Object(o)
        }
        Expr::Macro(m) => mac_json(&m.mac),
        Expr::Match(m) => json!({"k":"match","l":l,"e":expr_json(&m.expr),
            "arms": m.arms.iter().map(|a| {
                let mut o = Map::new();
                o.insert("l".into(), json!(line(a)));
                o.insert("pat".into(), pat_json(&a.pat));
                if let Some((_, g)) = &a.guard { o.insert("guard".into(), expr_json(g)); }
                o.insert("body".into(), expr_json(&a.body));
                Value::Object(o)
            }).collect::<Vec<_>>()}),
        Expr::If(i) => {
            let mut o = Map::new();
            o.insert("k".into(), json!("if"));
            o.insert("l".into(), json!(l));
            o.insert("c".into(), expr_json(&i.cond));
            o.insert("t".into(), block_json(&i.then_branch));
            if let Some((_, e)) = &i.else_branch {
                o.insert("e".into(), expr_json(e));
            }
            Value::Object(o)
        }
        Expr::Let(x) => json!({"k":"let","l":l,"pat":pat_json(&x.pat),"e":expr_json(&x.expr)}),
        Expr::Block(b) => block_json(&b.block),
        Expr::Unsafe(b) => {
            let mut v = block_json(&b.block);
            v["unsafe"] = json!(true);
            v
        }
        Expr::Closure(c) => json!({"k":"closure","l":l,
            "params": c.inputs.iter().map(pat_json).collect::<Vec<_>>(),
            "move": c.capture.is_some(),
            "body": expr_json(&c.body)}),
        Expr::Binary(b) => json!({"k":"bin","l":l,"op":binop_str(&b.op),
            "lhs":expr_json(&b.left),"rhs":expr_json(&b.right)}),
        Expr::Unary(u) => json!({"k":"un","l":l,"op":toks(&u.op),"e":expr_json(&u.expr)}),
        Expr::Field(f) => json!({"k":"field","l":l,"e":expr_json(&f.base),"f":toks(&f.member)}),
        Expr::Index(i) => json!({"k":"index","l":l,"e":expr_json(&i.expr),"i":expr_json(&i.index)}),
        Expr::Reference(r) => json!({"k":"ref","l":l,"mut":r.mutability.is_some(),"e":expr_json(&r.expr)}),
        Expr::Struct(s) => {
            let mut o = Map::new();
            o.insert("k".into(), json!("struct"));
            o.insert("l".into(), json!(l));
            o.insert("p".into(), json!(path_str(&s.path)));
            o.insert(
                "f".into(),
                Value::Array(
                    s.fields
                        .iter()
                        .map(|f| json!([toks(&f.member), expr_json(&f.expr)]))
                        .collect(),
                ),
            );
            if let Some(r) = &s.rest {
                o.insert("rest".into(), expr_json(r));
            }
            Value::Object(o)
        }
        Expr::Tuple(t) => json!({"k":"tuple","l":l,"e":t.elems.iter().map(expr_json).collect::<Vec<_>>()}),
        Expr::Array(t) => json!({"k":"array","l":l,"e":t.elems.iter().map(expr_json).collect::<Vec<_>>()}),
        Expr::Repeat(r) => json!({"k":"repeat","l":l,"e":expr_json(&r.expr),"n":expr_json(&r.len)}),
        Expr::Range(r) => {
            let mut o = Map::new();
            o.insert("k".into(), json!("range"));
            o.insert("l".into(), json!(l));
            o.insert("closed".into(), json!(matches!(r.limits, RangeLimits::Closed(_))));
            if let Some(s) = &r.start {
                o.insert("s".into(), expr_json(s));
            }
            if let Some(s) = &r.end {
                o.insert("e".into(), expr_json(s));
            }
            Value::Object(o)
        }
        Expr::Return(r) => {
            let mut o = Map::new();
            o.insert("k".into(), json!("return"));
            o.insert("l".into(), json!(l));
            if let Some(e) = &r.expr {
                o.insert("e".into(), expr_json(e));
            }
            Value::Object(o)
        }
        Expr::Break(r) => {
            let mut o = Map::new();
            o.insert("k".into(), json!("break"));
            o.insert("l".into(), json!(l));
            if let Some(e) = &r.expr {
                o.insert("e".into(), expr_json(e));
            }
            if let Some(lb) = &r.label {
                o.insert("label".into(), json!(lb.ident.to_string()));
            }
            Value::Object(o)
        }
        Expr::Continue(c) => match &c.label {
            Some(lb) => json!({"k":"continue","l":l,"label":lb.ident.to_string()}),
            None => json!({"k":"continue","l":l}),
        },
        Expr::Try(t) => json!({"k":"try","l":l,"e":expr_json(&t.expr)}),
        Expr::Assign(a) => json!({"k":"assign","l":l,"lhs":expr_json(&a.left),"rhs":expr_json(&a.right)}),
        Expr::Cast(c) => json!({"k":"cast","l":l,"e":expr_json(&c.expr),"ty":toks(&c.ty)}),
        Expr::ForLoop(f) => with_label(json!({"k":"for","l":l,"pat":pat_json(&f.pat),"e":expr_json(&f.expr),"body":block_json(&f.body)}), &f.label),
        Expr::While(w) => with_label(json!({"k":"while","l":l,"c":expr_json(&w.cond),"body":block_json(&w.body)}), &w.label),
        Expr::Loop(w) => with_label(json!({"k":"loop","l":l,"body":block_json(&w.body)}), &w.label),
        Expr::Await(a) => json!({"k":"await","l":l,"e":expr_json(&a.base)}),
        Expr::Async(a) => block_json(&a.block),
        Expr::Const(a) => block_json(&a.block),
        Expr::TryBlock(a) => block_json(&a.block),
        Expr::Infer(_) => json!({"k":"infer","l":l}),
        other => json!({"k":"other","l":l,"tok":toks(other)}),
    }
}

fn pat_json(p: &Pat) -> Value {
    let l = line(p);
    match p {
        Pat::Ident(i) => {
            let mut o = Map::new();
            o.insert("k".into(), json!("p_ident"));
            o.insert("l".into(), json!(l));
            o.insert("n".into(), json!(i.ident.to_string()));
            if i.by_ref.is_some() {
                o.insert("ref".into(), json!(true));
            }
            if i.mutability.is_some() {
                o.insert("mut".into(), json!(true));
            }
            if let Some((_, s)) = &i.subpat {
                o.insert("sub".into(), pat_json(s));
            }
            Value::Object(o)
        }
        Pat::Path(x) => json!({"k":"p_path","l":l,"p":path_str(&x.path)}),
        Pat::TupleStruct(t) => json!({"k":"p_ts","l":l,"p":path_str(&t.path),
            "e": t.elems.iter().map(pat_json).collect::<Vec<_>>()}),
        Pat::Struct(s) => json!({"k":"p_struct","l":l,"p":path_str(&s.path),
            "f": s.fields.iter().map(|f| json!([toks(&f.member), pat_json(&f.pat)])).collect::<Vec<_>>(),
            "rest": s.rest.is_some()}),
        Pat::Tuple(t) => json!({"k":"p_tuple","l":l,"e": t.elems.iter().map(pat_json).collect::<Vec<_>>()}),
        Pat::Slice(t) => json!({"k":"p_slice","l":l,"e": t.elems.iter().map(pat_json).collect::<Vec<_>>()}),
        Pat::Lit(x) => lit_json(&x.lit),
        Pat::Or(o) => json!({"k":"p_or","l":l,"c": o.cases.iter().map(pat_json).collect::<Vec<_>>()}),
        Pat::Wild(_) => json!({"k":"p_wild","l":l}),
        Pat::Rest(_) => json!({"k":"p_rest","l":l}),
        Pat::Reference(r) => pat_json(&r.pat),
        Pat::Paren(r) => pat_json(&r.pat),
        Pat::Type(t) => {
            let mut v = pat_json(&t.pat);
            if let Value::Object(o) = &mut v {
                o.insert("ty".into(), json!(toks(&t.ty)));
            }
            v
        }
        Pat::Range(r) => {
            let mut o = Map::new();
            o.insert("k".into(), json!("p_range"));
            o.insert("l".into(), json!(l));
            o.insert("closed".into(), json!(matches!(r.limits, RangeLimits::Closed(_))));
            if let Some(s) = &r.start {
                o.insert("s".into(), expr_json(s));
            }
            if let Some(s) = &r.end {
                o.insert("e".into(), expr_json(s));
            }
            Value::Object(o)
        }
        Pat::Macro(m) => mac_json(&m.mac),
        Pat::Const(c) => block_json(&c.block),
        other => json!({"k":"p_other","l":l,"tok":toks(other)}),
    }
}

fn sig_params(sig: &Signature) -> Value {
    Value::Array(
        sig.inputs
            .iter()
            .map(|a| match a {
                FnArg::Receiver(r) => {
                    json!({"name":"self","ty": if r.reference.is_some() { if r.mutability.is_some() {"&mut Self"} else {"&Self"} } else {"Self"}})
                }
                FnArg::Typed(t) => json!({"name": toks(&t.pat), "ty": toks(&t.ty), "pat": pat_json(&t.pat)}),
            })
            .collect(),
    )
}
fn ret_str(r: &ReturnType) -> String {
    match r {
        ReturnType::Default => "()".into(),
        ReturnType::Type(_, t) => toks(t),
    }
}

struct Ctx {
    krate: String,
    file: String,
    fns: Vec<Value>,
    adts: Vec<Value>,
    statics: Vec<Value>,
    impls: Vec<Value>,
    uses: Vec<Value>,
    macros: Vec<Value>,
    includes: Vec<Value>,
}

fn fields_json(f: &Fields) -> Value {
    Value::Array(
        f.iter()
            .enumerate()
            .map(|(i, f)| {
                json!({"name": f.ident.as_ref().map(|i| i.to_string()).unwrap_or_else(|| i.to_string()),
                   "ty": toks(&f.ty), "attrs": attrs_json(&f.attrs), "l": line(f),
                   "vis": toks(&f.vis)})
            })
            .collect(),
    )
}

fn vis_str(v: &Visibility) -> String {
    match v {
        Visibility::Public(_) => "pub".into(),
        Visibility::Restricted(r) => format!("pub({})", path_str(&r.path)),
        Visibility::Inherited => "".into(),
    }
}

fn visit_items(ctx: &mut Ctx, modpath: &str, items: &[Item], dir: &Path, file_stem_is_mod: bool) {
    for it in items {
        if item_is_test(it) {
            continue;
        }
        match it {
            Item::Fn(f) => {
                ctx.fns.push(json!({
                    "path": format!("{}::{}", modpath, f.sig.ident),
                    "name": f.sig.ident.to_string(), "mod": modpath, "file": ctx.file,
                    "l": line(f), "el": endline(f), "vis": vis_str(&f.vis),
                    "attrs": attrs_json(&f.attrs),
                    "params": sig_params(&f.sig), "ret": ret_str(&f.sig.output),
                    "generics": toks(&f.sig.generics),
                    "body": block_json(&f.block),
                }));
            }
            Item::Impl(im) => {
                let self_ty = toks(&im.self_ty);
                let self_short = match &*im.self_ty {
                    Type::Path(p) => p.path.segments.last().map(|s| s.ident.to_string()).unwrap_or(self_ty.clone()),
                    _ => self_ty.clone(),
                };
                let tr = im.trait_.as_ref().map(|(_, p, _)| toks(p));
                let tr_short = im.trait_.as_ref().map(|(_, p, _)| p.segments.last().unwrap().ident.to_string());
                let mut methods = vec![];
                for ii in &im.items {
                    match ii {
                        ImplItem::Fn(f) => {
                            if is_test_attr(&f.attrs) {
                                continue;
                            }
                            methods.push(f.sig.ident.to_string());
                            let p = match &tr_short {
                                Some(t) => format!("{}::<{} as {}>::{}", modpath, self_short, t, f.sig.ident),
                                None => format!("{}::{}::{}", modpath, self_short, f.sig.ident),
                            };
                            ctx.fns.push(json!({
                                "path": p, "name": f.sig.ident.to_string(), "mod": modpath, "file": ctx.file,
                                "self_ty": self_ty, "self_short": self_short, "trait": tr, "trait_short": tr_short,
                                "l": line(f), "el": endline(f), "vis": vis_str(&f.vis),
                                "attrs": attrs_json(&f.attrs),
                                "params": sig_params(&f.sig), "ret": ret_str(&f.sig.output),
                                "generics": toks(&f.sig.generics),
                                "body": block_json(&f.block),
                            }));
                        }
                        ImplItem::Const(c) => {
                            ctx.statics.push(json!({"kind":"assoc_const","path":format!("{}::{}::{}", modpath, self_short, c.ident),
                                "file": ctx.file, "l": line(c), "ty": toks(&c.ty), "init": expr_json(&c.expr)}));
                        }
                        _ => {}
                    }
                }
                ctx.impls.push(json!({"mod": modpath, "file": ctx.file, "l": line(im), "self_ty": self_ty,
                    "self_short": self_short, "trait": tr, "trait_short": tr_short, "methods": methods,
                    "generics": toks(&im.generics), "attrs": attrs_json(&im.attrs)}));
            }
            Item::Trait(t) => {
                for ti in &t.items {
                    if let TraitItem::Fn(f) = ti {
                        if let Some(b) = &f.default {
                            ctx.fns.push(json!({
                                "path": format!("{}::{}::{}", modpath, t.ident, f.sig.ident),
                                "name": f.sig.ident.to_string(), "mod": modpath, "file": ctx.file,
                                "self_short": t.ident.to_string(), "trait_default": true,
                                "l": line(f), "el": endline(f), "vis": "pub",
                                "attrs": attrs_json(&f.attrs),
                                "params": sig_params(&f.sig), "ret": ret_str(&f.sig.output),
                                "generics": toks(&f.sig.generics),
                                "body": block_json(b),
                            }));
                        } else {
                            ctx.fns.push(json!({
                                "path": format!("{}::{}::{}", modpath, t.ident, f.sig.ident),
                                "name": f.sig.ident.to_string(), "mod": modpath, "file": ctx.file,
                                "self_short": t.ident.to_string(), "trait_decl": true,
                                "l": line(f), "el": endline(f), "vis": "pub",
                                "attrs": attrs_json(&f.attrs),
                                "params": sig_params(&f.sig), "ret": ret_str(&f.sig.output),
                                "generics": toks(&f.sig.generics),
                            }));
                        }
                    }
                }
                ctx.adts.push(json!({"kind":"trait","path":format!("{}::{}", modpath, t.ident),"name":t.ident.to_string(),
                    "file":ctx.file,"l":line(t),"vis":vis_str(&t.vis)}));
            }
            Item::Struct(s) => {
                ctx.adts.push(json!({"kind":"struct","path":format!("{}::{}", modpath, s.ident),"name":s.ident.to_string(),
                    "file":ctx.file,"l":line(s),"vis":vis_str(&s.vis),"attrs":attrs_json(&s.attrs),
                    "generics": toks(&s.generics),
                    "tuple": matches!(s.fields, Fields::Unnamed(_)),
                    "fields":fields_json(&s.fields)}));
            }
            Item::Enum(e) => {
                let vars: Vec<Value> = e
                    .variants
                    .iter()
                    .map(|v| {
                        json!({"name": v.ident.to_string(), "attrs": attrs_json(&v.attrs), "l": line(v),
                        "shape": match &v.fields { Fields::Unit => "unit", Fields::Unnamed(_) => "tuple", Fields::Named(_) => "struct" },
                        "fields": fields_json(&v.fields),
                        "disc": v.discriminant.as_ref().map(|(_, e)| expr_json(e))})
                    })
                    .collect();
                ctx.adts.push(json!({"kind":"enum","path":format!("{}::{}", modpath, e.ident),"name":e.ident.to_string(),
                    "file":ctx.file,"l":line(e),"vis":vis_str(&e.vis),"attrs":attrs_json(&e.attrs),
                    "generics": toks(&e.generics),
                    "variants":vars}));
            }
            Item::Type(t) => {
                ctx.adts.push(json!({"kind":"alias","path":format!("{}::{}", modpath, t.ident),"name":t.ident.to_string(),
                    "file":ctx.file,"l":line(t),"ty":toks(&t.ty)}));
            }
            Item::Static(s) => {
                ctx.statics.push(json!({"kind":"static","path":format!("{}::{}", modpath, s.ident),"file":ctx.file,"l":line(s),
                    "ty":toks(&s.ty),"mut":matches!(s.mutability, StaticMutability::Mut(_)),"init":expr_json(&s.expr),
                    "attrs": attrs_json(&s.attrs)}));
            }
            Item::Const(c) => {
                ctx.statics.push(json!({"kind":"const","path":format!("{}::{}", modpath, c.ident),"file":ctx.file,"l":line(c),
                    "ty":toks(&c.ty),"init":expr_json(&c.expr)}));
            }
            Item::Use(u) => {
                ctx.uses.push(json!({"mod": modpath, "file": ctx.file, "l": line(u), "tree": toks(&u.tree), "vis": vis_str(&u.vis)}));
            }
            Item::Macro(m) => {
                let mut v = mac_json(&m.mac);
                v["mod"] = json!(modpath);
                v["file"] = json!(ctx.file);
                ctx.macros.push(v);
            }
            Item::Mod(m) => {
                let sub = format!("{}::{}", modpath, m.ident);
                if let Some((_, items)) = &m.content {
                    let d = if file_stem_is_mod { dir.to_path_buf() } else { dir.to_path_buf() };
                    visit_items(ctx, &sub, items, &d.join(m.ident.to_string()), true);
                } else {
                    // external file
                    let mut path_attr = None;
                    for a in &m.attrs {
                        if path_str(a.path()) == "path" {
                            if let Meta::NameValue(nv) = &a.meta {
                                if let Expr::Lit(ExprLit { lit: Lit::Str(s), .. }) = &nv.value {
                                    path_attr = Some(s.value());
                                }
                            }
                        }
                    }
                    let cands: Vec<PathBuf> = if let Some(p) = path_attr {
                        vec![dir.join(p)]
                    } else {
                        vec![dir.join(format!("{}.rs", m.ident)), dir.join(m.ident.to_string()).join("mod.rs")]
                    };
                    let mut found = false;
                    for c in cands {
                        if c.exists() {
                            let is_modrs = c.file_name().map(|f| f == "mod.rs").unwrap_or(false);
                            let nd = if is_modrs { c.parent().unwrap().to_path_buf() } else { c.parent().unwrap().join(m.ident.to_string()) };
                            visit_file(ctx, &sub, &c, &nd);
                            found = true;
                            break;
                        }
                    }
                    if !found {
                        ctx.includes.push(json!({"missing_mod": sub, "file": ctx.file}));
                    }
                }
            }
            _ => {}
        }
    }
}

fn visit_file(ctx: &mut Ctx, modpath: &str, file: &Path, dir: &Path) {
    let src = match std::fs::read_to_string(file) {
        Ok(s) => s,
        Err(e) => {
            eprintln!("synfacts: cannot read {}: {}", file.display(), e);
            std::process::exit(2);
        }
    };
    let parsed = match syn::parse_file(&src) {
        Ok(p) => p,
        Err(e) => {
            eprintln!("synfacts: parse error in {}: {}", file.display(), e);
            std::process::exit(2);
        }
    };
    let saved = std::mem::replace(&mut ctx.file, file.display().to_string());
    ctx.includes.push(json!({"mod": modpath, "file": ctx.file, "lines": src.lines().count()}));
    visit_items(ctx, modpath, &parsed.items, dir, false);
    ctx.file = saved;
}

fn main() {
    let args: Vec<String> = std::env::args().collect();
    if args.len() < 3 {
        eprintln!("usage: synfacts <out.json> <crate>=<src/lib.rs> ...");
        std::process::exit(2);
    }
    let mut crates = Map::new();
    for spec in &args[2..] {
        let (name, root) = spec.split_once('=').expect("crate=path");
        let root = PathBuf::from(root);
        let mut ctx = Ctx {
            krate: name.to_string(),
            file: String::new(),
            fns: vec![],
            adts: vec![],
            statics: vec![],
            impls: vec![],
            uses: vec![],
            macros: vec![],
            includes: vec![],
        };
        let dir = root.parent().unwrap().to_path_buf();
        visit_file(&mut ctx, name, &root, &dir);
        crates.insert(
            ctx.krate.clone(),
            json!({"fns": ctx.fns, "adts": ctx.adts, "statics": ctx.statics, "impls": ctx.impls,
                   "uses": ctx.uses, "macros": ctx.macros, "files": ctx.includes}),
        );
    }
    let out = serde_json::to_string(&Value::Object(crates)).unwrap();
    std::fs::write(&args[1], out).expect("write out");
}
