"""C03 - sort order persists through the pipeline and take selects by position.

Decides:
  R1 the sorting transfer table of SortingInference (which transforms keep / replace / reset the order)
  R2 ORDER BY is re-emitted where position matters: before every take and DISTINCT ON, and at the end of the
     main pipeline
  R3 sort keys travel with CTEs (added to their projection) and are named
  R4 Flattener sort discipline (group resets, join/append do not inherit)
  R5 LIMIT/OFFSET and take-composition formulas as linear forms
Not decided: row order a database returns; which column an ORDER BY names after redirects.
"""
from synq import (walk, show, show_stmts, strs, last_seg, pat_alts, pat_head, tail_expr, matches_of, mcalls, calls,
                  macros, lit_val, AnchorMissing, walk_no_closure)
import re
import tables
import linear
import flow

META = (
    "sort transfer table, ORDER BY re-emission and take arithmetic",
    ["A1", "A3 oracle: statement of C03 (select/derive/filter/take/join-left retain, group/aggregate reset)"],
    "match-table extraction of SortingInference::fold_sql_transforms and Flattener, must-pass-through of Sort "
    "pushes, linear-form normalisation of the LIMIT/OFFSET and range-composition arithmetic",
    True,
)


def sorting_fn(syn):
    fs = [f for f in syn.fns if f["crate"] == "prqlc" and f.get("self_short") == "SortingInference" and f["name"] == "fold_sql_transforms"]
    if len(fs) != 1:
        raise AnchorMissing("SortingInference::fold_sql_transforms")
    return fs[0]


def r1_r2(ctx, rep):
    rep.rule("C03.R1", "sorting transfer table: Sort replaces, Distinct/Aggregate reset, Join resets only DISTINCT ON order, others retain", floor=7)
    syn = ctx.syn
    f = sorting_fn(syn)
    m = None
    for mm in matches_of(f["body"]):
        if show(mm["e"]) == "transform":
            m = mm
    if m is None:
        raise AnchorMissing("fold_sql_transforms: match transform")
    rows, guarded_rows = {}, {}
    for arm in m["arms"]:
        for alt in pat_alts(arm["pat"]):
            h = pat_head(alt)
            name = last_seg(h) if isinstance(h, str) else str(h)
            if arm.get("guard") is not None:
                guarded_rows.setdefault(name, []).append(arm)      # `P if g => body`  ==  `P => if g { body }` when no later arm matches P
            else:
                rows.setdefault(name, arm)

    def clears_uncond(arm):
        body = arm["body"]
        stmts = body["s"] if body.get("k") == "block" else [body]
        return any(s.get("k") == "mcall" and s["m"] == "clear" and show(s["r"]) == "sorting" for s in stmts)

    def clears_anywhere(arm):
        return any(n.get("k") == "mcall" and n["m"] == "clear" and show(n["r"]) == "sorting" for n in walk(arm["body"]))

    for t in ("Distinct", "Aggregate"):
        rep.check(t in rows and clears_uncond(rows[t]), f"reset:{t}", f"{t} must reset the order (group / aggregate do not keep the input order)", file=f["file"], line=rows[t]["l"] if t in rows else f["l"], fn=f["path"])
    for t in ("Take", "DistinctOn"):
        rep.check(t in rows and not clears_anywhere(rows[t]), f"retain:{t}", f"{t} must keep the current sorting", file=f["file"], line=rows[t]["l"] if t in rows else f["l"], fn=f["path"])
    # Select / Filter / Compute fall into the default arm that does nothing
    wild = rows.get("_")
    rep.check(wild is not None and show(wild["body"]) in ("{…}", "{}", "()") and not clears_anywhere(wild), "retain:default",
              "transforms without their own arm (select, derive, filter) must leave the sorting untouched", file=f["file"], line=wild["l"] if wild else f["l"], fn=f["path"])
    stray = sorted(n_ for n_, arms_ in guarded_rows.items() if n_ not in ("Join", "Distinct", "Aggregate") and any(clears_anywhere(a_) for a_ in arms_))
    rep.check(not stray, "retain:guarded-arms", f"guarded arm(s) for {stray} clear the sorting: only Distinct / Aggregate reset the order (and Join the order of a DISTINCT ON)", file=f["file"], line=f["l"], fn=f["path"])
    for t in ("Select", "Filter", "Compute"):
        rep.check(t not in rows or not clears_anywhere(rows[t]), f"retain:{t}", f"{t} must retain the order", file=f["file"], line=f["l"], fn=f["path"])
    # Sort replaces and is not emitted here
    s = rows.get("Sort")
    ok = s is not None and "sorting.clone_from(&expr)" in show_stmts(s["body"], maxdepth=8) and any(n.get("k") == "continue" for n in walk(s["body"]))
    rep.check(ok, "replace:Sort", "a Sort must replace the current sorting (and be re-emitted later where needed)", file=f["file"], line=s["l"] if s else f["l"], fn=f["path"])
    # Join: clear only under sorting_from_distinct_on
    j = rows.get("Join")
    import guards as _g
    if j is not None:
        ok = not clears_uncond(j) and any("sorting.clear()" in show_stmts(b) for b in _g.branches_when(j["body"], "sorting_from_distinct_on", True)) \
            and not any("sorting.clear()" in show_stmts(b) for b in _g.branches_when(j["body"], "sorting_from_distinct_on", False)) and not guarded_rows.get("Join")
    else:
        # the same decision as an arm guard: `Join {..} if sorting_from_distinct_on => { sorting.clear(); .. }` and no other Join arm (a join otherwise falls to the default arm)
        gj = guarded_rows.get("Join", [])
        ok = len(gj) == 1 and _g.polarity_of("sorting_from_distinct_on")(gj[0]["guard"]) == 1 and clears_anywhere(gj[0]) and rows.get("_") is not None and not clears_anywhere(rows["_"])
        j = gj[0] if gj else None
    rep.check(ok, "retain:Join", "a join keeps the left input's order; only an order that exists for DISTINCT ON row selection is dropped", file=f["file"], line=j["l"] if j else f["l"], fn=f["path"])
    # From inherits the referenced CTE's sorting
    fr = rows.get("From")
    ok = fr is not None and "sorting.clone_from(&cte_sorting.sorting)" in show_stmts_deep(fr["body"]) and "self.last_sorting.drain(..).collect()" in show_stmts_deep(fr["body"])
    rep.check(ok, "inherit:From", "a pipeline starting from a CTE / sub-query must inherit that relation's sorting", file=f["file"], line=fr["l"] if fr else f["l"], fn=f["path"])

    rep.rule("C03.R2", "ORDER BY is emitted where position matters", floor=4)
    t = rows.get("Take")
    ok = False
    if t is not None:
        import alpha
        A = alpha.Inliner(f)
        pushes = [n for n in walk(t["body"]) if n.get("k") == "mcall" and n["m"] == "push" and show(n["r"]) == "result" and "SqlTransform::Sort(" in A.show(n["a"][0])]
        tk = [x["n"] for x in walk(t["pat"]) if x.get("k") == "p_ident"]
        tk = tk[0] if tk else "take"
        if pushes:
            # intermediate locals are inlined; `take` is the name the arm's pattern binds, `sorting` the accumulated state
            got = A.show(pushes[0]["a"][0]).replace(" ", "")
            want = f"SqlTransform::Sort(if ({tk}.partition.is_empty() && !{tk}.sort.is_empty()) {tk}.sort.clone() else sorting.clone())".replace(" ", "")
            ok = got == want
    rep.check(ok, "sort-before-take", "before a take the effective order must be emitted: the take's own sort when it has one, otherwise the ACCUMULATED sorting "
              "(an order inherited from a let-table / earlier sort); `take` without an ORDER BY picks arbitrary rows", file=f["file"], line=t["l"] if t else f["l"], fn=f["path"])
    d = rows.get("DistinctOn")
    ok = d is not None and any(n.get("k") == "mcall" and n["m"] == "push" and show(n["r"]) == "result" and show(n["a"][0]) == "SqlTransform::Sort(sorting.clone())" for n in walk(d["body"]))
    rep.check(ok, "sort-before-distinct-on", "DISTINCT ON keeps the first row per group in ORDER BY order: the sorting must be emitted with it", file=f["file"], line=d["l"] if d else f["l"], fn=f["path"])
    # each transform is pushed after its arm
    body_for = [n for n in walk(f["body"]) if n.get("k") == "for" and show(n["pat"]).endswith("transform")]
    ok = bool(body_for) and show(body_for[0]["body"]["s"][-1]) == "result.push(transform)"
    rep.check(ok, "transform-kept", "every transform (except the swallowed Sort) must be kept in the result", file=f["file"], line=f["l"], fn=f["path"])
    # main pipeline gets a trailing Sort
    q = [x for x in syn.fns if x["crate"] == "prqlc" and x.get("self_short") == "SortingInference" and x["name"] == "fold_sql_query"]
    if len(q) != 1:
        raise AnchorMissing("SortingInference::fold_sql_query")
    q = q[0]
    ok = False
    for n in walk(q["body"]):
        if n.get("k") == "if" and n["c"].get("k") == "let" and "AtomicPipeline" in show(n["c"]["pat"]) and show(n["c"]["e"]) == "&mut main_relation":
            ok = "pipeline.push(SqlTransform::Sort(redirected_last_sorting))" in show_stmts(n["t"], maxdepth=8)
    rep.check(ok, "trailing-sort", "the main pipeline must end with the last sorting (ORDER BY of the statement)", file=q["file"], line=q["l"], fn=q["path"])
    txt = show_stmts(q["body"], maxdepth=8)
    rep.check("self.main_relation = true" in txt and txt.find("self.main_relation = true") < txt.find("self.fold_sql_relation(query.main_relation)"), "main-flag",
              "main_relation must be set before the main relation is folded (CTEs are folded before)", file=q["file"], line=q["l"], fn=q["path"])


def show_stmts_deep(node):
    out = []
    for n in walk(node):
        if n.get("k") in ("mcall", "assign", "local", "call"):
            out.append(show_stmts({"k": "block", "s": [n]}, maxdepth=10))
    return " ; ".join(out)


def r3(ctx, rep):
    rep.rule("C03.R3", "sort keys travel with CTEs and are named", floor=4)
    syn = ctx.syn
    f = sorting_fn(syn)
    ok = False
    import guards as _g
    for blk in _g.branches_when(f["body"], "self.main_relation", False):
            t = show_stmts_deep(blk)
            ok = ok or ("select.push(cid)" in t and "select.contains(&cid)" in t and any(x.get("k") == "for" and show(x["e"]) == "&sorting" for x in walk(blk)))
    rep.check(ok, "cte-projection", "a CTE must project every column of its sorting that it does not already select (the outer ORDER BY refers to them)", file=f["file"], line=f["l"], fn=f["path"])
    # .. and the only reason for not adding a sort column is that this very column is selected already: the condition around the push, with
    # named booleans inlined, is a function of `<select>.contains(&<column>)` alone (a wildcard in the select may belong to another relation)
    import alpha
    import boolfn
    A = alpha.Inliner(f)
    par = _g.parents(f["body"])
    only_contains, detail = None, None
    for n in walk(f["body"]):
        if n.get("k") == "mcall" and n["m"] == "push" and not n["a"] == [] and any(x.get("k") == "for" and _g._contains(x["body"], n) and "sorting" in show(x["e"], maxdepth=6) for x in walk(f["body"])):
            cur, conds = n, []
            while id(cur) in par:
                q = par[id(cur)]
                if q.get("k") == "for":
                    break
                if q.get("k") == "if" and q["c"].get("k") != "let":
                    conds.append((q["c"], q.get("t") is cur or _g._contains(q.get("t"), cur)))
                cur = q
            if not conds:
                continue
            try:
                rows = {}
                for has in (True, False):
                    def atom(t, has=has):
                        t = t.replace(" ", "")
                        return has if re.fullmatch(r"[\w.]+\.contains\(&?\*?[\w.]+\)", t) else None
                    rows[has] = all(boolfn.ev(c_, atom, A) == pos for c_, pos in conds)
                only_contains = rows == {True: False, False: True}
                detail = rows
            except boolfn.Unknown as e:
                only_contains, detail = False, f"depends on more than the membership test ({e})"
    rep.check(only_contains is True, "cte-projection:only-if-selected", f"the sort column of a CTE is left out of its SELECT only when that column is already selected; found: {detail}. A broader test (e.g. any wildcard in the "
              "select) drops the key when the star belongs to another relation, and the outer ORDER BY names a column the CTE does not return", file=f["file"], line=f["l"], fn=f["path"])
    txt = show_stmts(f["body"], maxdepth=6)
    rep.check("self.last_sorting = sorting" in txt, "remember", "the pipeline's sorting must be remembered for the referencing pipeline", file=f["file"], line=f["l"], fn=f["path"])
    # ensure_names names sort columns of Sort and Super(Sort)
    en = syn.fn("pq::gen_query::ensure_names", crate="prqlc") if syn.find_fns("pq::gen_query::ensure_names", crate="prqlc") else None
    if en is None:
        raise AnchorMissing("pq::gen_query::ensure_names")
    pats = " ".join(n["p"] for n in walk(en["body"]) if n.get("k") in ("p_ts", "p_path", "p_struct"))
    ok = "rq::Transform::Sort" in pats and "pq::SqlTransform::Sort" in pats and "ctx.ensure_column_name(r.column)" in show_stmts_deep(en["body"])
    rep.check(ok, "sort-columns-named", "columns used in a Sort must get a name (ORDER BY refers to them by name after the projection)", file=en["file"], line=en["l"], fn=en["path"])


def state_isolation(stmts, is_fold):
    """Per `self.<field>` touched in a statement list: (saved before, emptied before, restored after) the first statement for which is_fold(text) holds."""
    import re
    st = [show_stmts({"k": "block", "s": [x]}, maxdepth=8) for x in stmts]
    i_fold = [i for i, t in enumerate(st) if is_fold(t)]
    out = {}
    if not i_fold:
        return out
    for fld in set(re.findall(r"self\.(\w+)", " ".join(st))):
        saved = emptied = restored = False
        names = set()
        for t in st[:i_fold[0]]:
            mv = re.match(r"let (\w+) = (?:std::)?mem::(?:take|replace)\(&mut self\." + fld + r"\b", t) or re.match(r"let (\w+) = self\." + fld + r"\.take\(\)", t)
            cl = re.match(r"let (\w+) = self\." + fld + r"(?:\.clone\(\))?;?$", t)
            if mv:
                saved = emptied = True
                names.add(mv.group(1))
            elif cl:
                saved = True
                names.add(cl.group(1))
            elif re.match(r"self\." + fld + r"(\.clear\(\)| = (vec!\(\)|Vec::new\(\)|None|false|Default::default\(\)|WindowFrame::default\(\)))", t):
                emptied = True
        for t in st[i_fold[0] + 1:]:
            if any(re.match(r"self\." + fld + r" = " + nm + r";?$", t) for nm in names):
                restored = True
        out[fld] = (saved, emptied, restored)
    return out


def _untuple(stmts):
    """`let (a, b) = (x, y);`, `let t = (x, y);` and `(l1, l2) = (r1, r2);` / `(l1, l2) = t;` as the single bindings / assignments they stand for"""
    out, tuples = [], {}
    for st in stmts:
        k = st.get("k")
        if k == "local" and st.get("init") is not None and st["init"].get("k") == "tuple" and st.get("else") is None:
            els = st["init"]["e"]
            if st["pat"].get("k") == "p_tuple" and len(st["pat"]["e"]) == len(els):
                out += [{"k": "local", "l": st["l"], "pat": p_, "init": e_} for p_, e_ in zip(st["pat"]["e"], els)]
                continue
            if st["pat"].get("k") == "p_ident":
                nm = st["pat"]["n"]
                tuples[nm] = len(els)
                out += [{"k": "local", "l": st["l"], "pat": {"k": "p_ident", "l": st["l"], "n": f"{nm}__{i}"}, "init": e_} for i, e_ in enumerate(els)]
                continue
        if k == "assign" and st["lhs"].get("k") == "tuple":
            ls = st["lhs"]["e"]
            if st["rhs"].get("k") == "tuple" and len(st["rhs"]["e"]) == len(ls):
                out += [{"k": "assign", "l": st["l"], "lhs": l_, "rhs": r_, "semi": True} for l_, r_ in zip(ls, st["rhs"]["e"])]
                continue
            if st["rhs"].get("k") == "path" and tuples.get(st["rhs"]["p"]) == len(ls):
                nm = st["rhs"]["p"]
                out += [{"k": "assign", "l": st["l"], "lhs": l_, "rhs": {"k": "path", "l": st["l"], "p": f"{nm}__{i}"}, "semi": True} for i, l_ in enumerate(ls)]
                continue
        out.append(st)
    return out


def join_append_isolation(fl):
    """Per state field of the Flattener: (saved before, emptied before, restored after) the folding of a Join / Append argument.
    saved+emptied: `let x = std::mem::take(&mut self.F)` / `self.F.take()` / `mem::replace(&mut self.F, ..)`, or a clone followed by a clear;  restored: `self.F = x`."""
    import re
    out = {}
    for m in matches_of(fl["body"]):
        for arm in m["arms"]:
            pt = show(arm["pat"], maxdepth=8)
            if "TransformKind::Join" in pt and "TransformKind::Append" in pt and arm["body"].get("k") == "block":
                st = [show_stmts({"k": "block", "s": [x]}, maxdepth=8) for x in _untuple(arm["body"]["s"])]
                i_fold = [i for i, t in enumerate(st) if "fold_transform_kind(self, " in t]
                if not i_fold:
                    continue
                fields = set(re.findall(r"self\.(\w+)", " ".join(st)))
                for fld in fields:
                    saved = emptied = restored = False
                    names = set()
                    for i, t in enumerate(st[:i_fold[0]]):
                        mv = re.match(r"let (\w+) = (?:std::)?mem::(?:take|replace)\(&mut self\." + fld + r"\b", t) or re.match(r"let (\w+) = self\." + fld + r"\.take\(\)", t)
                        cl = re.match(r"let (\w+) = self\." + fld + r"(?:\.clone\(\))?;?$", t)
                        if mv:
                            saved = emptied = True
                            names.add(mv.group(1))
                        elif cl:
                            saved = True
                            names.add(cl.group(1))
                        elif re.match(r"self\." + fld + r"(\.clear\(\)| = (vec!\(\)|Vec::new\(\)|None|false|Default::default\(\)|WindowFrame::default\(\)))", t):
                            emptied = True
                    for t in st[i_fold[0] + 1:]:
                        if any(re.match(r"self\." + fld + r" = " + nm + r";?$", t) for nm in names):
                            restored = True
                    out[fld] = (saved, emptied, restored)
    return out


def r4(ctx, rep):
    rep.rule("C03.R4", "Flattener: group resets the order; join/append do not inherit the sub-pipeline's sort", floor=4)
    syn = ctx.syn
    fl = [x for x in syn.fns if x["crate"] == "prqlc" and x.get("self_short") == "Flattener" and x["name"] == "fold_expr"][0]
    g = None
    for m in matches_of(fl["body"]):
        for arm in m["arms"]:
            if "TransformKind::Group" in show(arm["pat"]):
                g = arm
    if g is None:
        raise AnchorMissing("Flattener: Group arm")
    seq = [show_stmts({"k": "block", "s": [s]}, maxdepth=6) for s in g["body"]["s"]]
    i_fold = [i for i, s in enumerate(seq) if "self.fold_expr(*pipeline.body)" in s]
    clears = [i for i, s in enumerate(seq) if s == "self.sort.clear()"]
    ok = bool(i_fold) and any(c < i_fold[0] for c in clears) and any(c > i_fold[0] for c in clears)
    rep.check(ok, "group-resets", "the sort must be cleared before the group's pipeline is folded (the group starts unordered) and after it (group resets the order)", file=fl["file"], line=g["l"], fn=fl["path"])
    ok = False
    for n in walk(g["body"]):
        if n.get("k") == "if" and "self.sort_undone = true" in show_stmts(n["t"]):
            c = n["c"]
            if c.get("k") == "un" and c["op"] == "!" and c["e"].get("k") == "macro" and c["e"]["n"] == "matches" and show(c["e"]["a"][0]) == "by.kind":
                ok = "Tuple" in show(c["e"]["pat"]) and show(c["e"].get("guard")) == "fields.is_empty()"
    rep.check(ok, "sort-undone", "sort_undone may be set only for a group with a non-empty key (an empty `group {}` keeps the sort)", file=fl["file"], line=g["l"], fn=fl["path"])
    rep.check(any(s == "self.sort_undone = sort_undone" for s in seq), "sort-undone-restored", "sort_undone must be restored after the group", file=fl["file"], line=g["l"], fn=fl["path"])
    # role anchor: the value given to the `sort` field of the TransformCall rebuilt for every transform
    from synq import variant_table
    from guards import visible_def_nodes, parents
    par_ = parents(fl["body"])
    ok, seen = False, None
    for n in walk(fl["body"]):
        if n.get("k") == "struct" and last_seg(n["p"]) == "TransformCall":
            for fname, fv in n["f"]:
                if fname != "sort":
                    continue
                v = fv
                if v.get("k") == "path" and "::" not in v["p"]:
                    d = visible_def_nodes(par_, n, v["p"])
                    v = d["init"] if d is not None and d.get("init") is not None else v
                seen = variant_table(v)
                if seen:
                    scrut, table, default = seen
                    ok = sorted(table) == ["Append", "Join"] and set(table.values()) <= {"vec!()", "Vec::new()", "vec![]"} and default == "self.sort.clone()"
    rep.check(ok, "join-append-no-inherit", "only Join and Append get an empty sort; every other transform carries the current sort (take needs it)", file=fl["file"], line=fl["l"], fn=fl["path"])
    # the Flattener's pipeline state must survive the folding of a Join / Append argument and must not leak into it
    iso = join_append_isolation(fl)
    for fld in ("sort", "sort_undone"):
        saved, emptied, restored = iso.get(fld, (False, False, False))
        if fld == "sort":
            rep.check(saved and restored, "join-append-state-restored", "folding the argument of a join / append runs the Sort arm for any `sort` inside it, which assigns `self.sort`: the outer pipeline's sort must "
                      "be saved before `fold_transform_kind(self, kind)` and restored after it, otherwise a following `take` selects its rows in the joined pipeline's order", file=fl["file"], line=fl["l"], fn=fl["path"])
            rep.check(emptied, "join-append-argument-unsorted", "the argument of a join / append is a pipeline of its own: `self.sort` must be empty while it is folded (moved out with mem::take, or cleared), "
                      "otherwise a `take` or window inside the argument is ordered by a column of the outer pipeline that does not exist there", file=fl["file"], line=fl["l"], fn=fl["path"])
        else:
            rep.check(saved and emptied and restored, f"join-append-isolated:{fld}", f"`self.{fld}` must be moved out before the argument of a join / append is folded and put back afterwards: inside a `group` it is "
                      "true, and a `sort` in the appended pipeline would be dropped although its `take` is not a window there (`group g (append (from b | sort x | take 3))` gave `LIMIT 3` without ORDER BY)",
                      file=fl["file"], line=fl["l"], fn=fl["path"])
    # an (ungrouped) aggregate ends the order in effect: its columns are gone, a later take has nothing to be ordered by
    ag = None
    for m in matches_of(fl["body"]):
        for arm in m["arms"]:
            if "TransformKind::Aggregate" in show(arm["pat"], maxdepth=8) and "TransformKind::Join" not in show(arm["pat"], maxdepth=8):
                ag = arm
    ok = False
    if ag is not None and ag["body"].get("k") == "block":
        st = [show_stmts({"k": "block", "s": [x]}, maxdepth=8) for x in ag["body"]["s"]]
        i_fold = [i for i, t in enumerate(st) if "fold_transform_kind(self, " in t]
        i_clear = [i for i, t in enumerate(st) if re.match(r"self\.sort(\.clear\(\)| = (vec!\(\)|Vec::new\(\)))", t)]
        ok = bool(i_fold) and any(i > i_fold[0] for i in i_clear)
    rep.check(ok, "aggregate-resets", "the Flattener must clear `self.sort` after an aggregate that is not inside a group: `sort c | aggregate {n = sum a} | take 4 | select ..` otherwise orders the take by `c`, "
              "a column that no longer exists (`ORDER BY c` over a CTE without `c`)", file=fl["file"], line=ag["l"] if ag else fl["l"], fn=fl["path"])
    s = None
    for m in matches_of(fl["body"]):
        for arm in m["arms"]:
            if "TransformKind::Sort" in show(arm["pat"]):
                s = arm
    ok = s is not None and "self.sort.clone_from(&by)" in show_stmts(s["body"], maxdepth=6)
    rep.check(ok, "sort-recorded", "a sort must become the current sort", file=fl["file"], line=s["l"] if s else fl["l"], fn=fl["path"])


def r5(ctx, rep):
    rep.rule("C03.R5", "LIMIT/OFFSET and take composition are the documented formulas", floor=7)
    syn = ctx.syn
    f = syn.fn("gen_query::translate_select_pipeline", crate="prqlc")
    locs = {}
    all_locs = []
    for st in f["body"]["s"]:
        if st.get("k") == "local":
            locs.setdefault(show(st["pat"]), st.get("init"))   # first definition
            all_locs.append((show(st["pat"]), st.get("init")))

    def closure_linear(expr, var):
        """`x.map(|s| <body>)` -> linear form of body in terms of the closure parameter"""
        for n in walk(expr):
            if n.get("k") == "mcall" and n["m"] == "map" and n["a"] and n["a"][0].get("k") == "closure":
                cl = n["a"][0]
                try:
                    return show(n["r"]), show(cl["params"][0]), linear.norm(linear.linear(cl["body"]))
                except linear.NotLinear:
                    return show(n["r"]), show(cl["params"][0]), None
        return None
    # role anchors instead of local names: OFFSET is the integer put into the literal of the Offset clause, LIMIT is the
    # receiver of `.map(expr_of_i64)`; every intermediate local is inlined
    import alpha
    A = alpha.Inliner(f)
    lab = lambda t: "<take>" if t.startswith("range_of_ranges(") and t.endswith("?") else None
    # OFFSET is the integer put into the literal of the Offset clause, LIMIT the receiver of `.map(expr_of_i64)`; both are evaluated
    # abstractly over the composed take range (start / end present or not), locals followed on demand
    import optlin
    off_arg = None
    for n in walk(f["body"]):
        if n.get("k") == "call" and show(n["f"]).endswith("Literal::Integer") and n["a"] and off_arg is None and n["a"][0].get("k") == "path":
            off_arg = n["a"][0]
    lim_recv = None
    for n in walk(f["body"]):
        if n.get("k") == "mcall" and n["m"] == "map" and n["a"] and show(n["a"][0]) == "expr_of_i64":
            lim_recv = n["r"]
    take_name = None
    for st in f["body"]["s"]:
        if st.get("k") == "local" and st["pat"].get("k") == "p_ident" and st.get("init") is not None and "range_of_ranges(" in show(st["init"], maxdepth=6):
            take_name = st["pat"]["n"]
    bad_off, bad_lim = [], []
    if off_arg is None or lim_recv is None or take_name is None:
        bad_off = bad_lim = ["anchor (Literal::Integer(<offset>) / .map(expr_of_i64) / range_of_ranges) not found"]
    else:
        for has_s in (True, False):
            for has_e in (True, False):
                env = {take_name: {"start": optlin.some(optlin.lin("start")) if has_s else optlin.NONE, "end": optlin.some(optlin.lin("end")) if has_e else optlin.NONE}}
                look = lambda name, node: A._init_of(node, name)
                want_off = optlin.add(optlin.lin("start"), optlin.lin(None, 1), -1) if has_s else optlin.lin(None, 0)
                want_lim = optlin.some(optlin.add(optlin.lin("end"), want_off, -1)) if has_e else optlin.NONE
                case = f"start {'present' if has_s else 'absent'}, end {'present' if has_e else 'absent'}"
                try:
                    got = optlin.Interp(lookup=look).ev(off_arg, dict(env))
                    if got != want_off:
                        bad_off.append(f"{case}: {got}")
                except optlin.Unsupported as e:
                    bad_off.append(f"{case}: unreadable ({e})")
                try:
                    got = optlin.Interp(lookup=look).ev(lim_recv, dict(env))
                    if got != want_lim:
                        bad_lim.append(f"{case}: {got}")
                except optlin.Unsupported as e:
                    bad_lim.append(f"{case}: unreadable ({e})")
    rep.check(not bad_off, "offset", f"OFFSET must be start - 1 of the composed take range (0 when there is no start): rows are 1-based; found {bad_off[:2]}", file=f["file"], line=f["l"], fn=f["path"])
    rep.check(not bad_lim, "limit", f"LIMIT must be end - offset (number of rows from start to end inclusive); found {bad_lim[:2]}", file=f["file"], line=f["l"], fn=f["path"])
    comp = [A.show(n, label=None) for n in walk(f["body"]) if n.get("k") == "try" and n["e"].get("k") == "call" and last_seg(show(n["e"]["f"])) == "range_of_ranges"]
    rep.check(len(comp) == 1 and ".into_take())" in comp[0].replace("…", "_c0") and ".map(|_c0| _c0.range).collect()" in comp[0], "takes-composed",
              f"the takes plucked from the atomic pipeline must be composed by range_of_ranges; found {comp}", file=f["file"], line=f["l"], fn=f["path"])
    # ORDER BY uses the LAST sort of the pipeline
    ob = locs.get("order_by")
    rep.check(any(k == "order_by" and v is not None and show(v, maxdepth=5).startswith("order_by.last().map(") for k, v in all_locs), "last-sort-wins",
              "ORDER BY must be the last Sort of the atomic pipeline", file=f["file"], line=f["l"], fn=f["path"])
    g = syn.fn("gen_expr::range_of_ranges", crate="prqlc")
    # the composition step (body of the loop over the ranges) is evaluated abstractly, per case of which of the four bounds are
    # present, over the domain None | Some(linear form | min): whatever it is spelled like, it must compute
    #   start' = a.start + b.start - 1 | the one that is present | None          (1-based positions)
    #   end'   = min(a.end, (a.start or 1) + b.end - 1) | the one that is present | None
    import optlin
    loops = [n for n in walk(g["body"]) if n.get("k") == "for"]
    if len(loops) != 1:
        raise AnchorMissing("range_of_ranges: expected one loop over the ranges")
    loop = loops[0]
    item = [x["n"] for x in walk(loop["pat"]) if x.get("k") == "p_ident"]
    acc = None
    for st in g["body"]["s"]:
        if st.get("k") == "local" and st["pat"].get("k") == "p_ident" and st["pat"].get("mut") and "default" in show(st.get("init")):
            acc = st["pat"]["n"]
    if acc is None or len(item) != 1:
        raise AnchorMissing("range_of_ranges: accumulator `let mut <acc> = Range::default()` / loop variable not found")
    helpers = {f_["name"]: f_ for f_ in syn.fns if f_.get("name") == "or_map" and "body" in f_}
    body = dict(loop["body"])
    # the conversion of the loop item to integers (`let mut range = try_range_into_int(range)?`) keeps the bounds: its result is the symbolic input
    conv = [st for st in body["s"] if st.get("k") == "local" and st.get("init") is not None and st["init"].get("k") == "try"]
    names = [st["pat"]["n"] for st in conv if st["pat"].get("k") == "p_ident"] or item
    body["s"] = [st for st in body["s"] if not any(st is c for c in conv)]
    bad, n_cases = [], 0
    for a_s in (True, False):
        for a_e in (True, False):
            for b_s in (True, False):
                for b_e in (True, False):
                    n_cases += 1
                    S = lambda present, name: optlin.some(optlin.lin(name)) if present else optlin.NONE
                    env = {acc: {"start": S(a_s, "a.start"), "end": S(a_e, "a.end")}, names[0]: {"start": S(b_s, "b.start"), "end": S(b_e, "b.end")}}
                    one = optlin.lin(None, 1)
                    want_start = optlin.some(optlin.add(optlin.add(optlin.lin("a.start"), optlin.lin("b.start")), one, -1)) if a_s and b_s else S(a_s, "a.start") if a_s else S(b_s, "b.start")
                    rebased = optlin.add(optlin.add(optlin.lin("a.start") if a_s else one, optlin.lin("b.end")), one, -1) if b_e else None
                    want_end = optlin.some(optlin.mn(optlin.lin("a.end"), rebased)) if a_e and b_e else S(a_e, "a.end") if a_e else (optlin.some(rebased) if b_e else optlin.NONE)
                    case = f"a=({'s' if a_s else '-'},{'e' if a_e else '-'}) b=({'s' if b_s else '-'},{'e' if b_e else '-'})"
                    try:
                        _, out = optlin.Interp(helpers).block(body, env)
                        got = out.get(acc)
                        if not isinstance(got, dict) or got.get("start") != want_start or got.get("end") != want_end:
                            bad.append((case, "start" if not isinstance(got, dict) or got.get("start") != want_start else "end", got))
                    except optlin.Unsupported as e:
                        bad.append((case, "unreadable", str(e)))
    def pretty(v):
        return repr(v).replace("('lin', ", "").replace("'", "")[:160]
    for what, key, msg in (("start", "compose:start", "start of `take a | take b` must be a.start + b.start - 1 (1-based positions), or the one that is present"),
                           ("end", "compose:end", "end of `take a | take b` must be min(a.end, (a.start or 1) + b.end - 1): the later range counts from the first row the earlier one left, and cannot widen it")):
        mine = [b for b in bad if b[1] in (what, "unreadable")]
        rep.check(not mine, key, f"{msg}; of the {n_cases} cases of present bounds, {len(mine)} differ, e.g. {mine[0][0]}: computed {pretty(mine[0][2])}" if mine else msg,
                  file=g["file"], line=loop["l"], fn=g["path"])
    # saturating arithmetic is exact only while no intermediate value saturates: `x.saturating_add(y).saturating_sub(1)` clips a result of exactly
    # i64::MAX (`take 9223372036854775807` became LIMIT ..806); the `- 1` has to be applied to an operand first
    clipped = [show(n, maxdepth=8) for n in walk(g["body"]) if n.get("k") == "mcall" and n["m"] in ("saturating_sub", "wrapping_sub") and n["a"] and n["a"][0].get("k") == "lit"
               and any(x.get("k") == "mcall" and x["m"] in ("saturating_add", "wrapping_add") for x in walk(n["r"]))]
    rep.check(not clipped, "compose:no-clip", f"range_of_ranges computes {clipped}: the sum saturates at i64::MAX before 1 is subtracted, so a bound of i64::MAX comes out one too small "
              "(`take 9223372036854775807` -> `LIMIT 9223372036854775806`); subtract first", file=g["file"], line=g["l"], fn=g["path"])
    # by role: `Range { start: None, end: Some(0) }` is built under the condition end < start, where (start, end) are the two
    # names bound from (current.start, current.end) in that order - `if let .. zip`, `match` on a pair, or nested ifs
    import guards
    par_ = guards.parents(g["body"])
    ok = False
    for n in walk(g["body"]):
        if not (n.get("k") == "struct" and last_seg(n["p"]) == "Range"):
            continue
        d = {a: show(b) for a, b in n["f"]}
        if d != {"start": "None", "end": "Some(0)"}:
            continue
        conds, binders = [], []
        cur = n
        while id(cur) in par_:
            p_ = par_[id(cur)]
            if p_.get("k") == "if" and (p_.get("t") is cur or guards._contains(p_.get("t"), cur)):
                c = p_["c"]
                if c.get("k") == "let":
                    if "current.start" in show(c["e"], maxdepth=6) and "current.end" in show(c["e"], maxdepth=6) and show(c["e"], maxdepth=6).index("current.start") < show(c["e"], maxdepth=6).index("current.end"):
                        binders = [x["n"] for x in walk(c["pat"]) if x.get("k") == "p_ident"]
                else:
                    conds.append(c)
            if p_.get("k") == "match":
                for arm in p_["arms"]:
                    if arm is cur or arm.get("body") is cur or guards._contains(arm["body"], cur):
                        sc = show(p_["e"], maxdepth=6)
                        if "current.start" in sc and "current.end" in sc and sc.index("current.start") < sc.index("current.end"):
                            binders = [x["n"] for x in walk(arm["pat"]) if x.get("k") == "p_ident"]
                        if arm.get("guard") is not None:
                            conds.append(arm["guard"])
            cur = p_
        if len(binders) == 2:
            st_, en_ = binders
            for c in conds:
                while c.get("k") == "paren":
                    c = c["e"]
                if c.get("k") == "bin" and ((c["op"] == "<" and show(c["lhs"]) == en_ and show(c["rhs"]) == st_) or (c["op"] == ">" and show(c["lhs"]) == st_ and show(c["rhs"]) == en_)):
                    ok = True
    rep.check(ok, "compose:empty", "an empty composition (end < start) must become `take 0` (LIMIT 0)", file=g["file"], line=g["l"], fn=g["path"])


def r6(ctx, rep):
    import C01
    rep.rule("C03.R6", "a take is never fused with a following DISTINCT ON (the positions would be taken after de-duplication)", floor=1)
    f, m, table = C01.split_table(ctx.syn)
    C01.take_distinct_on_shield(ctx.syn, table, rep)


def r7(ctx, rep):
    rep.rule("C03.R7", "a leading minus on ANY sort key means descending; sort columns inside transforms are folded like every other column id", floor=2)
    syn = ctx.syn
    f = syn.fn("resolve_special_func", crate="prqlc")
    found = 0
    for m in matches_of(f["body"]):
        for arm in m["arms"]:
            if "SortDirection::Desc" not in show(arm["body"], maxdepth=8):
                continue
            found += 1
            g = arm.get("guard")
            conj = []

            def flat(c):
                while c is not None and c.get("k") == "paren":
                    c = c["e"]
                if c is not None and c.get("k") == "bin" and c["op"] == "&&":
                    flat(c["lhs"])
                    flat(c["rhs"])
                elif c is not None:
                    conj.append(show(c, maxdepth=6))
            flat(g)
            bound = [x[1]["n"] if isinstance(x[1], dict) and x[1].get("k") == "p_ident" else x[0] for x in (arm["pat"].get("f") or [])] if arm["pat"].get("k") == "p_struct" else []
            op_name = bound[0] if bound else "name"
            rep.check(conj == [f"({op_name} == 'std.neg')"] or conj == [f"{op_name} == 'std.neg'"], "sort:minus-means-desc",
                      f"`sort {{-e}}` is descending for every expression e: the arm that yields SortDirection::Desc must be guarded by the operator name alone; found conditions {conj} "
                      "(an extra condition on the operand makes `sort {-(a+b)}` an ascending sort by the negated value)", file=f["file"], line=arm["l"], fn=f["path"])
    rep.check(found == 1, "sort:desc-arm", f"expected one arm producing SortDirection::Desc in resolve_special_func, found {found}", file=f["file"], line=f["l"], fn=f["path"])
    import C01
    rep.borrowed(C01.r4, ctx, "C03.R7b", "sort keys embedded in Take / Sort / windows are redirected at a split like any other column id", only=r"(Take|Sort|ColumnSort|Window)")


def r8(ctx, rep):
    # `take` selects rows by position BEFORE anything that follows it is computed: a window / aggregate compute hoisted in front of the take is evaluated
    # over all rows in the SELECT that carries ORDER BY / LIMIT (`take 3..5 | group g (sort a | take 1)` loses groups)
    import C01
    rep.borrowed(C01.r6, ctx, "C03.R8", "only plain computes are moved in front of a take")



def r9(ctx, rep):
    rep.rule("C03.R9", "a grouped `take 1` becomes a plain DISTINCT only when it has no sort of its own", floor=1)
    import alpha
    import guards as _g
    syn = ctx.syn
    f = syn.fn("preprocess::distinct", crate="prqlc")
    A = alpha.Inliner(f)
    par = _g.parents(f["body"])
    sites = [n for n in walk(f["body"]) if n.get("k") == "mcall" and n["m"] == "push" and n["a"] and show(n["a"][0]).endswith("SqlTransform::Distinct")]
    if not sites:
        raise AnchorMissing("preprocess::distinct: no `push(SqlTransform::Distinct)`")
    for n in sites:
        # the sort field bound by the Take pattern of the enclosing arm
        sortvar, cur, conds = None, n, []
        while id(cur) in par:
            q = par[id(cur)]
            if q.get("k") == "if" and q["c"].get("k") != "let" and (q.get("t") is cur or _g._contains(q.get("t"), cur)):
                conds.append(q["c"])
            if q.get("k") == "match":
                for arm in q["arms"]:
                    if arm is cur or arm["body"] is cur or _g._contains(arm["body"], cur):
                        for x in walk(arm["pat"]):
                            if x.get("k") == "p_struct" and last_seg(x["p"]) == "Take":
                                for fld in x["f"]:
                                    if fld[0] == "sort":
                                        ids = [y["n"] for y in walk(fld[1])] if len(fld) > 1 and isinstance(fld[1], dict) else []
                                        sortvar = next((y for y in ids if y), "sort")
            cur = q
        conjuncts = []

        def flat(c):
            while c.get("k") == "paren":
                c = c["e"]
            if c.get("k") == "bin" and c["op"] == "&&":
                flat(c["lhs"])
                flat(c["rhs"])
            else:
                conjuncts.append(A.show(c, strip=True).replace(" ", ""))
        for c in conds:
            flat(c)
        ok = sortvar is not None and any(t in (f"{sortvar}.is_empty()", f"({sortvar}.is_empty())") for t in conjuncts)
        rep.check(ok, "distinct-needs-no-sort", f"preprocess::distinct turns `group g (take 1)` into SELECT DISTINCT under {conjuncts}: this must include `{sortvar or 'sort'}.is_empty()`. With a sort inside the group "
                  "the take picks a particular row per group (`group {g} (sort {-a} | take 1)`), which DISTINCT over the final columns does not", file=f["file"], line=n["l"], fn=f["path"])

def run(ctx, rep):
    for r in (r1_r2, r3, r4, r5, r6, r7, r8, r9):
        rep.guard(r, ctx)
