"""C16 - every emitted relational query (RQ) is closed and consistently identified.

Decides the construction discipline of semantic/lowering.rs:
  R1 column / table ids come only from the id generators (or the table map)
  R2 a Compute is pushed and mapped before its id is returned; a generated table is declared before it is instanced
  R3 a pipeline relation has one construction site, closed by push_select; pipelines start with From
  R4 the closing Select and the declared relation columns come from one unzip (same arity, same order)
  R5 after a sub-pipeline is pulled out into a table, node mappings are redirected to the instance's ids
  R6 tables are lowered in dependency order and the main relation is taken out of the table list
Not decided: that node_mapping lookups hit (value-dependent; C12 classes).
"""
from synq import (walk, show, show_stmts, strs, last_seg, pat_alts, pat_head, tail_expr, matches_of, mcalls, calls,
                  macros, lit_val, AnchorMissing, walk_no_closure)
import flow
import re

META = (
    "construction discipline of RQ in the lowering",
    ["A1"],
    "def-use and must-pass-through rules on the syntax trees of lowering.rs, cross-checked with the ADT construction "
    "sites and resolved callees reported by the rustc driver",
    True,
)

LOW = "semantic/lowering.rs"


def local_init(fn, name, at=None):
    """Initialisers of the local `name`; with `at`, only the nearest preceding definition in an enclosing block."""
    if at is None:
        out = []
        for n in walk(fn["body"]):
            if n.get("k") == "local" and show(n["pat"]) == name and n.get("init") is not None:
                out.append(n["init"])
        return out
    import guards
    par = guards.parents(fn["body"])
    cur = at
    while True:
        p = par.get(id(cur))
        if p is None:
            return []
        if p.get("k") == "block":
            idx = None
            for i, st in enumerate(p["s"]):
                if st is cur or guards._contains(st, cur):
                    idx = i
                    break
            if idx is not None:
                for st in reversed(p["s"][:idx]):
                    if st.get("k") == "local" and show(st["pat"]) == name and st.get("init") is not None:
                        return [st["init"]]
        cur = p


def r1(ctx, rep):
    rep.rule("C16.R1", "column and table ids are generated, never computed", floor=8)
    syn = ctx.syn
    fns = [f for f in syn.fns_in_file(LOW) if "body" in f]
    n_compute = n_decl = 0
    for f in fns:
        for n in walk(f["body"]):
            if n.get("k") != "struct":
                continue
            name = last_seg(n["p"])
            d = {a: b for a, b in n["f"]}
            if name == "Compute" and "id" in d:
                n_compute += 1
                v = show(d["id"])
                inits = [show(i) for i in local_init(f, v, n)]
                rep.check(inits == ["self.cid.gen()"], f"compute-id:{f['name']}",
                          f"rq::Compute.id is `{v}` = {inits}; a column id must come from `self.cid.gen()` in the same function (fresh, defined once)", file=f["file"], line=n["l"], fn=f["path"])
            if name == "TableDecl" and "id" in d and "relation" in d:
                n_decl += 1
                v = show(d["id"])
                inits = [show(i, maxdepth=10) for i in local_init(f, v, n)]
                ok = inits == ["self.tid.gen()"] or (len(inits) == 1 and "table_mapping" in inits[0] and "or_insert_with(|| self.tid.gen())" in inits[0])
                rep.check(ok, f"table-id:{f['name']}:{n['l'] - f['l'] if False else v}:{n_decl}",
                          f"rq::TableDecl.id is `{v}` = {inits}; a table id must come from `self.tid.gen()` or from the table map entry created with it", file=f["file"], line=n["l"], fn=f["path"])
            if name == "TableRef" and "columns" in d:
                v = show(d["columns"])
                inits = [show(i, maxdepth=12) for i in local_init(f, v, n)]
                rep.check(len(inits) == 1 and ".map(|col| (col, self.cid.gen()))" in inits[0], f"instance-cids:{f['name']}",
                          f"the columns of a table instance must each get a fresh id (`(col, self.cid.gen())`); found {inits}", file=f["file"], line=n["l"], fn=f["path"])
    rep.check(n_compute >= 1 and n_decl >= 5, "sites", f"expected >=1 Compute and >=5 TableDecl construction sites in lowering.rs, found {n_compute}/{n_decl}")
    # no id built from an integer anywhere in the resolver / lowering (resolved callees)
    cg = ctx.cg
    for fid, f in cg.fns.items():
        if not f["id"].startswith("prqlc::semantic::"):
            continue
        for r in f["refs"]:
            if r["kind"] == "call" and r.get("full") and ("as std::convert::From<usize>>::from" in r["full"]) and ("CId" in r["full"] or "TId" in r["full"]):
                rep.bad(f"from-usize:{cg.owner_fn(fid)['path']}", f"{r['full']} builds an id from an integer in the resolver: ids must be unique by construction (IdGenerator)",
                        file=r["file"], line=r["l"], fn=cg.owner_fn(fid)["path"])
    rep.ok("no-from-usize-in-semantic")
    # the generator is monotone
    g = syn.fn("IdGenerator::gen", crate="prqlc")
    txt = show_stmts(g["body"], maxdepth=8)
    rep.check("self.next_id += 1" in txt.replace("(", "").replace(")", ""), "generator", f"IdGenerator::gen must hand out increasing ids; body: {txt}", file=g["file"], line=g["l"], fn=g["path"])


def r2(ctx, rep):
    rep.rule("C16.R2", "ids are defined before they can be used", floor=6)
    syn = ctx.syn
    f = syn.fn("Lowerer::declare_as_column", crate="prqlc")
    stmts = f["body"]["s"]
    # by role: the local that receives the fresh id, whatever it is called
    idx = [i for i, s in enumerate(stmts) if s.get("k") == "local" and s["pat"].get("k") == "p_ident" and show(s.get("init")) == "self.cid.gen()"]
    if not idx:
        raise AnchorMissing("declare_as_column: `let <id> = self.cid.gen()`")
    cid_name = stmts[idx[0]]["pat"]["n"]
    rest = {"k": "block", "l": stmts[idx[0]]["l"], "s": stmts[idx[0] + 1:]}
    import alpha as _alpha
    A_ = _alpha.Inliner(f, max_inline=2)

    def pushed(n):
        return n.get("k") == "mcall" and n["m"] == "push" and show(n["r"]) == "self.pipeline" and A_.show(n["a"][0]).startswith("Transform::Compute(")

    def mapped(n):
        return n.get("k") == "mcall" and n["m"] == "insert" and show(n["r"]) == "self.node_mapping" and f"LoweredTarget::Compute({cid_name})" in show(n["a"][1] if len(n["a"]) > 1 else n)

    bad1 = flow.must_precede_exits(rest, pushed)
    bad2 = flow.must_precede_exits(rest, mapped)
    rep.check(not bad1, "compute-pushed", f"after a fresh cid is generated every Ok exit must have pushed Transform::Compute to the pipeline (the id would be used but never defined); offending exits {bad1}",
              file=f["file"], line=f["l"], fn=f["path"])
    rep.check(not bad2, "compute-mapped", f"after a fresh cid is generated every Ok exit must have recorded it in node_mapping (a second reference would define the column twice); offending exits {bad2}",
              file=f["file"], line=f["l"], fn=f["path"])
    cs = None
    for n in walk(f["body"]):
        if n.get("k") == "struct" and last_seg(n["p"]) == "Compute":
            cs = {a: show(b) for a, b in n["f"]}
    rep.check(cs is not None and cs.get("id") == cid_name and "expr" in cs, "compute-fields", f"the Compute must define exactly that id with the lowered expression; found {cs}", file=f["file"], line=f["l"], fn=f["path"])
    # lower_table_ref: declared before instanced
    t = syn.fn("Lowerer::lower_table_ref", crate="prqlc")
    m = None
    for mm in matches_of(t["body"]):
        if show(mm["e"]) == "expr.kind":
            m = mm
    if m is None:
        raise AnchorMissing("lower_table_ref: match expr.kind")
    n_arms = 0
    for arm in m["arms"]:
        body = arm["body"]
        gens = [n for n in walk_no_closure(body) if n.get("k") == "local" and n["pat"].get("k") == "p_ident" and show(n.get("init")) == "self.tid.gen()"]
        if not gens:
            continue
        n_arms += 1
        head = show(arm["pat"])[:40]
        tid_name = gens[0]["pat"]["n"]

        def declared(n, tid_name=tid_name):
            return n.get("k") == "mcall" and n["m"] == "push" and show(n["r"]) == "self.table_buffer" and f"id: {tid_name}" in show(n["a"][0], maxdepth=4)
        # every create_a_table_instance(.., tid) must be preceded by the declaration
        seq = body["s"] if body.get("k") == "block" else [body]
        seen_decl = False
        ok = True
        found_inst = False
        for st in seq:
            for n in walk_no_closure(st):
                if declared(n):
                    seen_decl = True
                if n.get("k") == "mcall" and n["m"] == "create_a_table_instance" and show(n["a"][-1]) == tid_name:
                    found_inst = True
                    if not seen_decl:
                        ok = False
        rep.check(ok and found_inst, f"declared-before-instance:{head}", "a table generated here must be pushed to table_buffer (TableDecl{id: tid}) before create_a_table_instance(.., tid) looks it up",
                  file=t["file"], line=arm["l"], fn=t["path"])
    rep.check(n_arms >= 4, "arms", f"expected >=4 arms of lower_table_ref generating tables, found {n_arms}", file=t["file"], line=t["l"], fn=t["path"])
    # ident arm: tid from the table map, error if absent
    ok = False
    for arm in m["arms"]:
        if "Ident" in show(arm["pat"]):
            txt = show_stmts(arm["body"], maxdepth=12)
            ok = "self.table_mapping.get(&fq_table_name)" in txt and "ok_or_else" in txt
    rep.check(ok, "ident-arm", "a reference to a declared table must take its id from table_mapping and fail (not invent an id) if it is missing", file=t["file"], line=t["l"], fn=t["path"])
    # create_a_table_instance records the instance columns for later lookups
    c = syn.fn("Lowerer::create_a_table_instance", crate="prqlc")
    txt = show_stmts(c["body"], maxdepth=10)
    rep.check(any(n.get("k") == "mcall" and n["m"] == "insert" and show(n["r"]) == "self.node_mapping" and len(n["a"]) == 2 and show(n["a"][1], maxdepth=4).startswith("LoweredTarget::Input(") for n in walk(c["body"])), "instance-mapped", "create_a_table_instance must record the instance's column ids in node_mapping", file=c["file"], line=c["l"], fn=c["path"])


def r3_r4(ctx, rep):
    rep.rule("C16.R3", "pipelines are closed by one Select whose arity is the relation's column list", floor=6)
    syn = ctx.syn
    sites = []
    for f in syn.fns:
        if f["crate"] != "prqlc" or "/semantic/" not in f["file"] or "body" not in f:
            continue
        for n in walk(f["body"]):
            if n.get("k") == "call" and show(n["f"]).endswith("RelationKind::Pipeline"):
                sites.append((f, n))
    rep.check(len(sites) == 1 and sites[0][0]["name"] == "lower_relation", "single-site",
              f"rq::RelationKind::Pipeline must be constructed in exactly one place (lower_relation); found {[(f['path'], n['l']) for f, n in sites]}")
    # cross-check with the compiler's view of construction sites
    mir_sites = set()
    for fid, f in ctx.cg.fns.items():
        if f["id"].startswith("prqlc::semantic::"):
            for a in f["aggs"]:
                if a["adt"].endswith("RelationKind") and a["variant"] == "Pipeline":
                    mir_sites.add(ctx.cg.owner_fn(fid)["path"])
    rep.check(mir_sites == {"semantic::lowering::Lowerer::lower_relation"}, "single-site:resolved", f"the type-checked program constructs RelationKind::Pipeline in {sorted(mir_sites)}")
    lr = syn.fn("Lowerer::lower_relation", crate="prqlc")
    txt = show_stmts(lr["body"], maxdepth=10)
    order = [txt.find("self.lower_pipeline(expr, None)?"), txt.find("self.push_select(lineage, &mut transforms)"), txt.find("rq::RelationKind::Pipeline(transforms)")]
    rep.check(all(o >= 0 for o in order) and order == sorted(order), "closed-by-push_select", "lower_relation must lower the pipeline, then close it with push_select, then build the relation from the same transforms", file=lr["file"], line=lr["l"], fn=lr["path"])
    rel = None
    for n in walk(lr["body"]):
        if n.get("k") == "struct" and last_seg(n["p"]) == "Relation":
            rel = {a: show(b) for a, b in n["f"]}
    rep.check(rel is not None and rel.get("columns") == "columns" and "push_select" in show(local_init(lr, "columns")[0], maxdepth=8), "columns-from-push_select",
              "the relation's declared columns must be the value push_select returned", file=lr["file"], line=lr["l"], fn=lr["path"])
    # push_select: unzip -> Select(cids), Ok(cols)
    ps = syn.fn("Lowerer::push_select", crate="prqlc")
    shp = push_select_shape(syn)
    rep.check(shp["ok_unzip"], "unzip", "names and ids of the closing Select must come from ONE list (`<list>.into_iter().unzip()`): same arity, same order", file=ps["file"], line=ps["l"], fn=ps["path"])

    def sel(n):
        return n.get("k") == "mcall" and n["m"] == "push" and show(n["r"]) == "transforms" and show(n["a"][0]) == f"Transform::Select({shp['ids']})"
    bad = flow.must_precede_exits(ps["body"], sel)
    rep.check(not bad, "select-on-every-exit", f"every Ok exit of push_select must have pushed Transform::Select(<the ids of the unzip>); offending exits {bad}", file=ps["file"], line=ps["l"], fn=ps["path"])
    rep.check(show(tail_expr(ps["body"])) == f"Ok({shp['cols']})", "returns-cols", "push_select must return the column list paired with the pushed ids", file=ps["file"], line=ps["l"], fn=ps["path"])
    # lower_pipeline base case pushes From unless the expression is the closure parameter
    lp = syn.fn("Lowerer::lower_pipeline", crate="prqlc")
    ok = False
    for n in walk(lp["body"]):
        if n.get("k") == "block":
            t = show_stmts(n, maxdepth=6)
            if "let table_ref = self.lower_table_ref(ast)?" in t and "self.pipeline.push(Transform::From(table_ref))" in t and "return Ok(())" in t:
                # every return before the push is taken only when the expression IS the closure parameter (an equality of its target with `closure_param`)
                import guards
                par = guards.parents(n)
                idx = [i for i, st in enumerate(n["s"]) if "self.lower_table_ref(ast)" in show_stmts({"k": "block", "s": [st]}, maxdepth=6)][0]
                early = [r for st in n["s"][:idx] for r in walk(st) if r.get("k") == "return"]
                ok = len(early) == 1
                for r in early:
                    conds, cur = [], r
                    while id(cur) in par:
                        p_ = par[id(cur)]
                        if p_.get("k") == "if":
                            if not any(x is cur for x in walk(p_["t"])) and cur is not p_["t"]:
                                ok = False      # reached through an else branch: the negated condition
                            conds.append(__import__("alpha").Inliner(lp).show(p_["c"]))      # named booleans inlined
                        cur = p_
                    txt = " && ".join(conds)
                    ok = ok and bool(re.search(r"== closure_param\b|\bclosure_param ==", txt)) and "!=" not in txt and "||" not in txt and "target" in txt
    rep.check(ok, "starts-with-from", "the base case of lower_pipeline must push Transform::From(table_ref), except when the expression is the closure parameter of a loop body", file=lp["file"], line=lp["l"], fn=lp["path"])


def push_select_shape(syn):
    """role-based facts about Lowerer::push_select: the list that is unzipped, the names given to its two halves"""
    ps = syn.fn("Lowerer::push_select", crate="prqlc")
    un = [n for n in walk(ps["body"]) if n.get("k") == "local" and n["pat"].get("k") == "p_tuple" and len(n["pat"]["e"]) == 2
          and n.get("init", {}).get("k") == "mcall" and n["init"]["m"] == "unzip"]
    out = {"ok_unzip": False, "cols": "?", "ids": "?", "list": "?"}
    if len(un) == 1:
        i = un[0]["init"]
        cols, ids = [show(x).replace("mut ", "") for x in un[0]["pat"]["e"]]
        lst = i["r"]["r"] if i["r"].get("k") == "mcall" and i["r"]["m"] == "into_iter" else None
        out = {"ok_unzip": lst is not None and lst.get("k") == "path", "cols": cols, "ids": ids, "list": show(lst) if lst is not None else "?"}
    return out


def r5(ctx, rep):
    rep.rule("C16.R5", "after pulling a sub-pipeline into a table, mappings are redirected to the instance's ids", floor=2)
    syn = ctx.syn
    t = syn.fn("Lowerer::lower_table_ref", crate="prqlc")
    ok = False
    for m in matches_of(t["body"]):
        if show(m["e"]) != "expr.kind":
            continue
        for arm in m["arms"]:
            if "TransformCall" in show(arm["pat"]):
                # the argument of redirect_mappings, with every intermediate local inlined and closure parameters numbered:
                # zip(<ids of the closing Select of the lowered relation>, <the new instance's column ids, in order>)
                import alpha
                A = alpha.Inliner(t, max_inline=4)
                for n in walk(arm["body"]):
                    if n.get("k") == "mcall" and n["m"] == "redirect_mappings" and n["a"]:
                        txt = A.show(n["a"][0])
                        ok = txt.startswith("zip(") and ".as_pipeline().unwrap().last().unwrap().as_select().unwrap().clone(), self.create_a_table_instance(" in txt \
                            and txt.endswith(".columns.iter().map(|_c0| *_c0)).collect()")
    rep.check(ok, "redirect", "the ids of the pulled-out pipeline's closing Select must be redirected, in order, to the new instance's column ids", file=t["file"], line=t["l"], fn=t["path"])
    r = syn.fn("Lowerer::redirect_mappings", crate="prqlc")
    txt = show_stmts(r["body"], maxdepth=14)
    ok = "self.node_mapping.values_mut()" in show(r["body"], maxdepth=14) or "node_mapping.values_mut()" in txt
    arms = set()
    for m in matches_of(r["body"]):
        for arm in m["arms"]:
            arms.add(last_seg(str(pat_head(arm["pat"]))))
    rep.check({"Compute", "Input"} <= arms, "redirect-both-kinds", f"redirect_mappings must rewrite both Compute and Input targets; arms {sorted(arms)}", file=r["file"], line=r["l"], fn=r["path"])
    # element-wise: an id is rewritten exactly when IT has a redirect - never conditioned on the other ids of the same input
    for m in matches_of(r["body"]):
        for arm in m["arms"]:
            kind = last_seg(str(pat_head(arm["pat"])))
            if kind not in ("Compute", "Input"):
                continue
            # (a closure or nested fn of redirect_mappings called from the arm counts as part of the arm)
            local_fns = {st["pat"]["n"]: st["init"] for st in walk(r["body"]) if st.get("k") == "local" and st["pat"].get("k") == "p_ident" and (st.get("init") or {}).get("k") == "closure"}
            local_fns.update({st["name"]: st for st in walk(r["body"]) if st.get("k") == "item_fn" and "name" in st})
            scope = [arm["body"]] + [local_fns[show(c["f"])] for c in walk(arm["body"]) if c.get("k") == "call" and show(c["f"]) in local_fns]
            nodes = [n for sc in scope for n in walk(sc)]
            quant = [show(n["c"], maxdepth=8) for n in nodes if n.get("k") == "if" and re.search(r"\.(all|any)\(", show(n["c"], maxdepth=10))]
            writes = [n for n in nodes if n.get("k") == "assign" and show(n["lhs"]).startswith("*")]
            gets = [n for n in nodes if n.get("k") == "mcall" and n["m"] in ("get", "contains_key", "remove") and show(n["r"]).endswith("redirects")]
            rep.check(not quant and bool(writes) and bool(gets), f"redirect:elementwise:{kind}",
                      f"the {kind} arm of redirect_mappings must rewrite each id that has a redirect, one by one (found quantified condition(s) {quant}): an input of which only some columns were "
                      "pulled into the new table keeps ids that are not visible in the outer pipeline", file=r["file"], line=arm["l"], fn=r["path"])


def r6(ctx, rep):
    rep.rule("C16.R6", "tables are lowered in dependency order; the main relation is not a table", floor=3)
    syn = ctx.syn
    f = syn.fn("lowering::lower_to_ir", crate="prqlc")
    import alpha as _alpha
    A6 = _alpha.Inliner(f)
    loop = [n for n in f["body"]["s"] if n.get("k") == "for"]
    # by role: what the lowering loop iterates over, with intermediate lets inlined, is the topological sort of the extracted tables
    it = A6.show(loop[0]["e"], strip=True).replace(" ", "") if loop else ""
    rep.check(re.fullmatch(r"toposort_tables\(TableExtractor::extract\(root_mod\.module\),main_ident\)", it) is not None, "toposort",
              f"tables must be extracted and then topologically sorted before lowering (the lowering loop iterates over `{it}`)", file=f["file"], line=f["l"], fn=f["path"])
    ok = bool(loop) and "l.lower_table_decl(table, fq_ident)" in show_stmts(loop[0]["body"], maxdepth=8)
    rep.check(ok, "lowered-in-order", "tables must be lowered by iterating the sorted list in order (declaration before use)", file=f["file"], line=f["l"], fn=f["path"])
    ok = False
    import guards as _g
    for blk in _g.branches_when(f["body"], "is_main", True):
            t = show_stmts(blk, maxdepth=8)
            ok = ok or ("l.table_buffer.pop().unwrap()" in t and "main_relation = Some(main_table.relation)" in t)
    rep.check(ok, "main-popped", "the main pipeline must be taken out of the table list and become RelationalQuery.relation", file=f["file"], line=f["l"], fn=f["path"])
    q = None
    for n in walk(f["body"]):
        if n.get("k") == "struct" and last_seg(n["p"]) == "RelationalQuery":
            q = {a_: show(b_) for a_, b_ in n["f"]}
    rep.check(q is not None and q.get("tables") == "l.table_buffer", "tables-field", "RelationalQuery.tables must be the lowerer's table buffer (in lowering order)", file=f["file"], line=f["l"], fn=f["path"])
    ts = syn.fn("lowering::toposort_tables", crate="prqlc")
    rep.check("toposort(&dependencies, Some(main_table))" in show_stmts(ts["body"], maxdepth=8), "toposort-root", "the topological sort must be rooted at the main table (prunes unreachable tables)", file=ts["file"], line=ts["l"], fn=ts["path"])


def binders(pat):
    """field -> bound variable name for a struct pattern; '@' -> whole-binding name"""
    out = {}
    if pat.get("k") == "p_ident":
        out["@"] = pat["n"]
        if "sub" in pat:
            out.update({k: v for k, v in binders(pat["sub"]).items() if k != "@"})
        return out
    if pat.get("k") == "p_struct":
        for fname, fp in pat["f"]:
            if fp.get("k") == "p_ident":
                out[fname] = fp["n"]
    return out


def r7(ctx, rep):
    rep.rule("C16.R7", "the frame of an append keeps the TOP relation's column identities (the bottom only contributes names)", floor=2)
    syn = ctx.syn
    f = syn.fn("transforms::append", crate="prqlc")
    m = None
    for mm in matches_of(f["body"]):
        if show(mm["e"]) == "(t, b)":
            m = mm
    if m is None:
        raise AnchorMissing("append: match (t, b)")
    n = 0
    for arm in m["arms"]:
        pat = arm["pat"]
        if pat.get("k") != "p_tuple" or len(pat["e"]) != 2:
            continue
        top, bot = binders(pat["e"][0]), binders(pat["e"][1])
        if not top or pat["e"][0].get("k") != "p_struct":
            continue
        n += 1
        kind = last_seg(pat["e"][0]["p"])
        bot_vars = set(bot.values())
        id_fields = {"target_id", "target_name", "input_id"}
        bad = []
        for c in walk(arm["body"]):
            if c.get("k") == "struct" and c["p"].startswith("LineageColumn::"):
                for fname, fv in c["f"]:
                    if fname in id_fields:
                        v = show(fv)
                        if v in bot_vars or v not in set(top.values()):
                            bad.append(f"{fname}: {v}")
        # the arm must not yield the bottom column itself
        tails = [tail_expr(a2["body"]) if a2["body"].get("k") == "block" else a2["body"] for mm2 in matches_of(arm["body"]) for a2 in mm2["arms"]]
        tails.append(tail_expr(arm["body"]) if arm["body"].get("k") == "block" else arm["body"])
        for t in tails:
            if t is not None and t.get("k") == "path" and t["p"] in bot_vars:
                bad.append(f"returns bottom column `{t['p']}`")
        rep.check(not bad, f"append:{kind}",
                  f"in the {kind} arm of append() the resulting column must keep the top's {sorted(id_fields & set(pat_fields(pat['e'][0])))}; found {bad}: a column identified by the bottom relation's id is not "
                  "visible in the top pipeline, so later references and the closing Select use an undefined column id",
                  file=f["file"], line=arm["l"], fn=f["path"])
    rep.check(n >= 2, "arms", f"expected the All/All and Single/Single arms in append(), found {n}", file=f["file"], line=f["l"], fn=f["path"])


def r8(ctx, rep):
    rep.rule("C16.R8", "Lineage matches column qualifiers against the input's alias (`input.name`, what the identifiers are built with), never against the table's own name", floor=3)
    syn = ctx.syn
    fns = [f for f in syn.fns if f["crate"] == "prqlc" and f["file"].endswith("semantic/resolver/transforms.rs") and f.get("self_short") == "Lineage" and "body" in f]
    if len(fns) < 5:
        raise AnchorMissing("impl Lineage in semantic/resolver/transforms.rs")
    n_cmp, n_build = 0, 0
    for f in fns:
        for n in walk(f["body"]):
            if n.get("k") == "bin" and n["op"] in ("==", "!="):
                l, r = show(n["lhs"], maxdepth=6), show(n["rhs"], maxdepth=6)
                if ".table" in l or ".table" in r:
                    rep.bad(f"qualifier:{f['name']}:table-name", f"`{show(n, maxdepth=6)}` matches a column qualifier against the input's TABLE name: identifiers in a frame are qualified by the input's alias "
                            "(`from t = tracks` gives `t.x`), so the match fails for every aliased table and the exclusion / lookup is silently dropped", file=f["file"], line=n["l"], fn=f["path"])
                elif re.search(r"\b(input|i|inp)\.name\b", l + " " + r):
                    n_cmp += 1
                    rep.ok(f"qualifier:{f['name']}:alias", nontrivial=True)
            if n.get("k") == "struct" and last_seg(n["p"]) == "Ident":
                d = {a: b for a, b in n["f"]}
                if "path" in d and "input_name" in show(d["path"], maxdepth=6):
                    n_build += 1
    rep.check(n_cmp >= 2 and n_build >= 1, "sites", f"expected >= 2 qualifier comparisons against `input.name` and >= 1 identifier built from it in impl Lineage, found {n_cmp} / {n_build}")


def pat_fields(pat):
    return [fname for fname, _ in pat.get("f", [])]


def r9(ctx, rep):
    # a sort of a joined / appended sub-pipeline that leaks into the outer pipeline is lowered to column ids of the pulled-out table
    import C03
    rep.borrowed(C03.r4, ctx, "C16.R9", "sort columns attached to transforms are columns that exist at that point of the pipeline (not those of a joined sub-pipeline, not those before an aggregate)", only=r"join-append|aggregate-resets")


def r10(ctx, rep):
    # a partition (group key) or frame of the outer pipeline that leaks into a joined / appended sub-pipeline is lowered into the pulled-out table,
    # where the key's column id is not defined
    import C04
    rep.borrowed(C04.r5, ctx, "C16.R10", "partition and frame attached to the transforms of a sub-pipeline are columns of that sub-pipeline", only=r"join-append-isolated")



def r11(ctx, rep):
    rep.rule("C16.R11", "the window a transform is lowered with does not outlive that transform", floor=1)
    import flow
    syn = ctx.syn
    fs = [f for f in syn.fns if f["crate"] == "prqlc" and f["file"].endswith("semantic/lowering.rs") and f["name"] == "lower_pipeline" and "body" in f]
    if len(fs) != 1:
        raise AnchorMissing("Lowerer::lower_pipeline")
    f = fs[0]
    sets = [n for n in walk(f["body"]) if n.get("k") == "assign" and show(n["lhs"]) == "self.window" and show(n["rhs"], maxdepth=4).startswith("Some(")]
    if not sets:
        raise AnchorMissing("lower_pipeline: `self.window = Some(..)`")
    # after the statement that sets the window, every non-error exit of the function is preceded by a statement that empties it again
    # (`self.window = None`, or an unconditional `self.window.take()`): columns declared later - e.g. for a window function in the
    # condition of an enclosing join - otherwise get the partition / sort ids of this pipeline
    stmts = f["body"]["s"]
    idx = max(i for i, st in enumerate(stmts) if any(x is n_ for n_ in sets for x in walk(st)))
    tail = {"k": "block", "l": stmts[idx]["l"], "s": stmts[idx + 1:]}

    def clears(x):
        if x.get("k") == "assign" and show(x["lhs"]) == "self.window" and show(x["rhs"]) == "None":
            return True
        return False
    bad = flow.must_precede_exits(tail, clears)
    rep.check(not bad, "window-reset", f"lower_pipeline sets `self.window = Some(..)` for the transform it lowers; the exit(s) at {bad} leave it set: the Lowerer is shared by all pipelines "
              "(lower_relation does not save it), so a window function lowered afterwards in the enclosing pipeline (a join condition) is given this pipeline's partition and sort columns - ids of "
              "another table", file=f["file"], line=sets[0]["l"], fn=f["path"])

def _leaves(e):
    """the alternative values of an expression (branches of if / match, tails of blocks)"""
    k = e.get("k") if isinstance(e, dict) else None
    if k == "paren":
        return _leaves(e["e"])
    if k == "block":
        t = tail_expr(e)
        return _leaves(t) if t is not None else [e]
    if k == "if":
        return _leaves(e["t"]) + (_leaves(e["e"]) if e.get("e") is not None else [e])
    if k == "match":
        return [x for a in e["arms"] for x in _leaves(a["body"])]
    return [e]


def r12(ctx, rep):
    rep.rule("C16.R12", "the sort in effect is lowered ahead of every transform, whatever its kind: the columns it names are declared in the pipeline that uses them", floor=1)
    syn = ctx.syn
    import alpha
    f = syn.fn("Lowerer::lower_pipeline", crate="prqlc")
    A = alpha.Inliner(f)
    lits = [n for n in walk(f["body"]) if n.get("k") == "struct" and last_seg(n["p"]) == "Window" and any(x[0] == "sort" for x in n["f"])]
    if not lits:
        raise AnchorMissing("lower_pipeline: the rq::Window built for the transform")
    for n in lits:
        v = dict(n["f"])["sort"]
        init = v
        if v.get("k") == "path":
            init = A._init_of(v, v["p"]) or v
        lv = _leaves(init)
        bad = [show(x, maxdepth=5)[:40] for x in lv if not any(c.get("k") == "mcall" and c["m"] == "lower_sorts" for c in walk(x))]
        rep.check(not bad, "window-sort-lowered", f"rq::Window.sort in lower_pipeline must be `self.lower_sorts(transform_call.sort)` on every path; found the alternative(s) {bad}: a sort column that is an "
                  "expression is then declared inside a later sub-pipeline (a loop body) while the transforms after it still refer to its id", file=f["file"], line=n["l"], fn=f["path"])


def r13(ctx, rep):
    rep.rule("C16.R13", "the input of a group / window pipeline is substituted once: the replacement is moved out of the map, so no two nodes of the result share their ids", floor=1)
    syn = ctx.syn
    fe = [f for f in syn.fns if f["crate"] == "prqlc" and f["file"].endswith("resolver/flatten.rs") and f.get("self_short") == "Flattener" and f["name"] == "fold_expr" and "body" in f]
    if len(fe) != 1:
        raise AnchorMissing("Flattener::fold_expr")
    f = fe[0]
    # every read of replace_map that yields the replacement takes it out
    reads = [n for n in walk(f["body"]) if n.get("k") == "mcall" and show(n["r"]).endswith("replace_map") and n["m"] in ("get", "get_mut", "remove", "remove_entry", "entry", "contains_key", "values", "iter", "drain")]
    taking = [n for n in reads if n["m"] in ("remove", "remove_entry")]
    copying = [n for n in reads if n["m"] in ("get", "get_mut", "values", "iter", "entry")]
    rep.check(bool(taking) and not copying, "replacement-moved", f"Flattener::fold_expr must take the replacement out of `replace_map` (`remove`), found {[n['m'] for n in reads]}: a pipeline that mentions its "
              "input twice would otherwise get two copies of it with the same node ids, and the second lowering overwrites the first one's column mapping", file=f["file"], line=(copying or reads or [f])[0]["l"], fn=f["path"])


def run(ctx, rep):
    for r in (r1, r2, r3_r4, r5, r6, r7, r8, r9, r10, r11, r12, r13):
        rep.guard(r, ctx)
