"""C18 - the dialect is chosen by options, then by the query header, then generic.

Decides:
  R1 in compile_query the header lookup happens only on the `None` edge of the dialect option, and the
     option payload reaches Context::new unchanged
  R2 an unknown target name is an error (Result of Target::from_str is propagated; from_str falls through to Err)
  R3 defaults: Option<Dialect>::unwrap_or_default with #[default] on Generic; Target::default() = Sql(None)
  R4 sql::compile / translate_query pass the option's dialect through unchanged
  R5 resolver and parser never mention the dialect, the options or the header's `other` map
  R6 every use of the option value after resolution is the effective dialect (signature comment: known finding)
"""
import re
from synq import (walk, show, show_stmts, strs, last_seg, pat_alts, pat_head, tail_expr, matches_of, mcalls, calls,
                  macros, lit_val, AnchorMissing)
import tables

META = (
    "control-dependence and who-may-mention rules for the dialect choice",
    ["A1"],
    "syntax-tree rules over compile_query / Target::from_str / sql::compile / translate_query and a who-may-mention "
    "scan of every item of the resolver and parser crates",
    True,
)


def option_edges(init, opt):
    """The two edges of the one decision on the option `opt`: (name bound to the payload, node of the Some edge or None when it is the identity,
    node of the None edge).  Forms: `if let Some(x) = opt {A} else {B}`, `match opt { Some(x) => A, None | _ => B }`,
    `opt.unwrap_or_else(|| B)`, `opt.map_or_else(|| B, |x| A)`."""
    if init is None:
        return None
    k = init.get("k")
    if k == "if" and init.get("e") is not None and init["c"].get("k") == "let" and show(init["c"]["e"]) == opt and pat_head(init["c"]["pat"]) == "Some" and init["c"]["pat"].get("e"):
        return show(init["c"]["pat"]["e"][0]), init["t"], init["e"]
    if k == "match" and show(init["e"]) == opt:
        some = none = None
        for arm in init["arms"]:
            if arm.get("guard") is not None:
                return None
            h = pat_head(arm["pat"])
            if h == "Some" and arm["pat"].get("e"):
                some = (show(arm["pat"]["e"][0]), arm["body"])
            elif h in ("None", "_"):
                none = arm["body"]
        if some and none is not None:
            return some[0], some[1], none
        return None
    if k == "mcall" and show(init["r"]) == opt and init["m"] == "unwrap_or_else" and len(init["a"]) == 1 and init["a"][0].get("k") == "closure":
        return "<payload>", None, init["a"][0]["body"]
    if k == "mcall" and show(init["r"]) == opt and init["m"] == "map_or_else" and len(init["a"]) == 2 and all(a.get("k") == "closure" for a in init["a"]):
        names = [x["n"] for x in walk(init["a"][1]["params"][0]) if x.get("k") == "p_ident"] if init["a"][1]["params"] else []
        return (names[0] if names else "?"), init["a"][1]["body"], init["a"][0]["body"]
    return None


def r1(ctx, rep):
    rep.rule("C18.R1", "the header is consulted only when no option is given; the option reaches the generator unchanged", floor=4)
    syn = ctx.syn
    f = syn.fn("pq::gen_query::compile_query", crate="prqlc")
    params = [p["name"] for p in f["params"]]
    rep.check("dialect" in params and any("Option<Dialect>" in p["ty"] for p in f["params"] if p["name"] == "dialect"), "param",
              "compile_query must receive the option as `dialect: Option<Dialect>`", file=f["file"], line=f["l"], fn=f["path"])
    # by role: the value given to Context::new, followed back to the `let` that resolves it (whatever that local is called)
    import guards
    par_ = guards.parents(f["body"])
    news0 = [n for n in walk(f["body"]) if n.get("k") == "call" and show(n["f"]) == "Context::new" and n["a"]]
    loc = None
    if len(news0) == 1 and news0[0]["a"][0].get("k") == "path":
        loc = guards.visible_def_nodes(par_, news0[0]["a"][0], news0[0]["a"][0]["p"])
    opt_param = next((p["name"] for p in f["params"] if "Option<Dialect>" in p["ty"]), "dialect")
    edges = option_edges(loc["init"], opt_param) if loc is not None else None
    if edges is None:
        rep.bad("shape", "compile_query must resolve the effective dialect by one decision on the option: `if let Some(d) = dialect {d} else {<header>}`, a `match` on it, or "
                "`dialect.unwrap_or_else(|| <header>)` / `map_or_else`", file=f["file"], line=f["l"], fn=f["path"])
        return
    bound, some_node, none_node = edges
    i = loc["init"]
    then_val = bound if some_node is None else (show(tail_expr(some_node)) if some_node.get("k") == "block" and tail_expr(some_node) is not None and len(some_node["s"]) == 1 else show(some_node))
    rep.check(then_val == bound, "option-wins",
              f"on the `Some` edge the option's payload must be the effective dialect, unchanged (found `{then_val}`)", file=f["file"], line=i["l"], fn=f["path"])
    i = dict(i, e=none_node)
    # header lookup only inside the else branch
    else_txt = show_stmts(i.get("e"), maxdepth=14)
    header_reads = [n for n in walk(f["body"]) if n.get("k") == "mcall" and n["m"] == "get" and lit_val(n["a"][0]) == "target" if n["a"]]
    in_else = [n for n in walk(i.get("e")) if n.get("k") == "mcall" and n["m"] == "get" and n["a"] and lit_val(n["a"][0]) == "target"]
    rep.check(len(header_reads) == 1 and len(in_else) == 1 and "query.def.other" in show(in_else[0]["r"]), "header-only-on-none",
              f"`query.def.other.get(\"target\")` must be read exactly once, on the edge where the option is None (reads: {len(header_reads)}, in else: {len(in_else)})",
              file=f["file"], line=i["l"], fn=f["path"])
    # the resolved value reaches Context::new
    news = [n for n in walk(f["body"]) if n.get("k") == "call" and show(n["f"]) == "Context::new"]
    rep.check(len(news) == 1 and news[0]["a"][0].get("k") == "path" and guards.visible_def_nodes(par_, news[0]["a"][0], news[0]["a"][0]["p"]) is loc, "reaches-context",
              "Context::new must be built from the resolved dialect", file=f["file"], line=f["l"], fn=f["path"])
    # the resolved value is not re-bound between its resolution and Context::new
    name_ = show(loc["pat"]).replace("mut ", "")
    later = [st for st in f["body"]["s"] if st.get("k") == "local" and show(st["pat"]).replace("mut ", "") == name_]
    reass = [n for n in walk(f["body"]) if n.get("k") == "assign" and show(n["lhs"]) == name_]
    rep.check(len(later) == 1 and not reass and not loc["pat"].get("mut"), "single-resolution", "the effective dialect must be resolved once", file=f["file"], line=f["l"], fn=f["path"])
    # Context::new uses the same value for the handler and the enum
    cn = syn.fn("Context::new", crate="prqlc", file_suffix="sql/mod.rs")
    fields = {}
    for n in walk(cn["body"]):
        if n.get("k") == "struct" and last_seg(n["p"]) == "Context":
            fields = {a: show(b) for a, b in n["f"]}
    rep.check(fields.get("dialect") == "dialect.handler()" and fields.get("dialect_enum") == "dialect", "context-fields",
              f"Context must hold the handler and the enum of the SAME dialect (found {fields.get('dialect')}, {fields.get('dialect_enum')})", file=cn["file"], line=cn["l"], fn=cn["path"])


def r2(ctx, rep):
    rep.rule("C18.R2", "an unknown target name is an error", floor=4)
    syn = ctx.syn
    f = syn.fn("pq::gen_query::compile_query", crate="prqlc")
    txt = show_stmts(f["body"], maxdepth=16)
    # target.map(|s| Target::from_str(s)).transpose()? ... the `?` must be applied to the parsed header
    # every call of Target::from_str sits under a `?` with nothing in between that can discard the error
    import guards
    par_ = guards.parents(f["body"])
    calls_fs = [n for n in walk(f["body"]) if n.get("k") == "call" and show(n["f"]) == "Target::from_str"]
    ok = bool(calls_fs)
    for c in calls_fs:
        cur, tried = c, False
        while id(cur) in par_:
            p_ = par_[id(cur)]
            if p_.get("k") == "mcall" and p_["m"] in ("ok", "unwrap_or", "unwrap_or_default", "unwrap_or_else", "is_ok", "is_err", "or_else", "or", "map_or") and p_["r"] is cur:
                break
            if p_.get("k") == "try":
                tried = True
                break
            if p_.get("k") in ("local", "item_fn", "block", "assign") and not (p_.get("k") == "block" and len(p_["s"]) == 1):
                break
            cur = p_
        ok = ok and tried
    rep.check(ok, "propagate", "the Result of Target::from_str(header) must be propagated with `?` (an unknown name aborts compilation)", file=f["file"], line=f["l"], fn=f["path"])
    fs = [x for x in syn.fns if x["crate"] == "prqlc" and x.get("self_short") == "Target" and x["name"] == "from_str"]
    if len(fs) != 1:
        raise AnchorMissing("impl FromStr for Target")
    g = fs[0]
    # obligations on the values the function can produce, independent of how the decisions are spelled (if-let chain, match, early returns)
    oks = sorted({show(n, maxdepth=6) for n in walk(g["body"]) if n.get("k") == "call" and show(n["f"]) == "Ok"})
    ok_shapes = [re.sub(r"Some\(\w+\)", "Some(<d>)", o) for o in oks]
    errs = [n for n in walk(g["body"]) if n.get("k") == "call" and show(n["f"]) == "Err" and "NotFound" in show(n, maxdepth=8)]
    rep.check(bool(errs), "fallthrough-err", "Target::from_str must produce Err(NotFound) for every other name", file=g["file"], line=g["l"], fn=g["path"])
    rep.check(sorted(set(ok_shapes)) == ["Ok(Target::Sql(None))", "Ok(Target::Sql(Some(<d>)))"], "accepted",
              f"Target::from_str must accept exactly `sql.any` and `sql.<dialect>` (Ok values found: {oks})", file=g["file"], line=g["l"], fn=g["path"])
    prm = [p_["name"] for p_ in g.get("params", []) if isinstance(p_, dict) and "name" in p_] or ["s"]
    on_s = [(n["m"], lit_val(n["a"][0]) if n["a"] else None) for n in walk(g["body"]) if n.get("k") == "mcall" and show(n["r"]) == prm[0]]
    any_lit = any((n.get("k") == "lit" and n.get("t") == "str" and n.get("v") == "any") for n in walk(g["body"]))
    dfs = [n for n in walk(g["body"]) if n.get("k") == "call" and show(n["f"]).endswith("Dialect::from_str") and n["a"]]
    shape = on_s == [("strip_prefix", "sql.")] and any_lit and len(dfs) == 1 and dfs[0]["a"][0].get("k") == "path" and dfs[0]["a"][0]["p"] != prm[0]
    rep.check(shape, "accepted-shape", f"the only operation on the name must be `strip_prefix(\"sql.\")` (found {on_s}); the remainder is compared with `any` and otherwise parsed by Dialect::from_str: "
              "anything that merely splits at the dot accepts `foo.mssql`", file=g["file"], line=g["l"], fn=g["path"])


def r3(ctx, rep):
    rep.rule("C18.R3", "with neither option nor header the generic dialect is used", floor=3)
    syn = ctx.syn
    dia = syn.adt("Dialect", crate="prqlc", file_suffix="sql/dialect.rs")
    dflt = [v["name"] for v in dia["variants"] if any(a["name"] == "default" for a in v["attrs"])]
    rep.check(dflt == ["Generic"], "default-variant", f"#[default] must be on Dialect::Generic (found {dflt})", file=dia["file"], line=dia["l"])
    derives = " ".join(a["args"] for a in dia["attrs"] if a["name"] == "derive")
    rep.check("Default" in derives, "derive-default", "Dialect must derive Default", file=dia["file"], line=dia["l"])
    td = [x for x in syn.fns if x["crate"] == "prqlc" and x.get("self_short") == "Target" and x["name"] == "default"]
    rep.check(len(td) == 1 and show(tail_expr(td[0]["body"])) == "Self::Sql(None)", "target-default", "Target::default() must be Sql(None)", file=td[0]["file"] if td else None, line=td[0]["l"] if td else None)
    f = syn.fn("pq::gen_query::compile_query", crate="prqlc")
    # a missing header resolves to Target::default(), `sql.any` (Sql(None)) to Dialect::default(): `unwrap_or_default()` or an explicit None arm
    defaults = 0
    for n in walk(f["body"]):
        if n.get("k") == "mcall" and n["m"] == "unwrap_or_default":
            defaults += 1
        if n.get("k") == "match":
            for arm in n["arms"]:
                if show(arm["pat"]) == "None" and re.search(r"(Target|Dialect|Default)::default\(\)$", show(arm["body"], maxdepth=4)):
                    defaults += 1
    rep.check(defaults == 2, "unwrap-or-default",
              f"a missing header and `sql.any` must each resolve to the Default value (unwrap_or_default() or `None => X::default()`); found {defaults} such defaults", file=f["file"], line=f["l"], fn=f["path"])


def r4(ctx, rep):
    rep.rule("C18.R4", "the option's dialect is passed through sql::compile and translate_query unchanged, and only the resolving function looks at it", floor=4)
    syn = ctx.syn
    c = syn.fn("sql::compile", crate="prqlc", file_suffix="sql/mod.rs")
    # the value handed to translate_query is the very binding of the destructured options.target: a later `let dialect = f(dialect)`
    # would be inlined here and no longer render as the bare name
    import alpha
    Ac = alpha.Inliner(c)
    destr = [st for st in c["body"]["s"] if st.get("k") == "local" and st["pat"].get("k") == "p_ts" and last_seg(st["pat"]["p"]) == "Sql" and show(st.get("init")) == "options.target"]
    bound = [x["n"] for x in walk(destr[0]["pat"]) if x.get("k") == "p_ident"] if destr else []
    ok = len(destr) == 1 and len(bound) == 1
    call = [n for n in walk(c["body"]) if n.get("k") == "call" and last_seg(show(n["f"])) == "translate_query"]
    rep.check(ok and len(call) == 1 and len(call[0]["a"]) == 2 and Ac.show(call[0]["a"][1]) == bound[0], "compile",
              "sql::compile must destructure options.target and hand its dialect to translate_query", file=c["file"], line=c["l"], fn=c["path"])
    t = syn.fn("gen_query::translate_query", crate="prqlc", file_suffix="sql/gen_query.rs")
    call = [n for n in walk(t["body"]) if n.get("k") == "call" and last_seg(show(n["f"])) == "compile_query"]
    At = alpha.Inliner(t)
    tp = [p_["name"] for p_ in t.get("params", []) if isinstance(p_, dict) and "name" in p_]
    rep.check(len(call) == 1 and len(tp) >= 2 and [At.show(a) for a in call[0]["a"]] == tp[:2], "translate_query",
              "translate_query must hand its dialect argument to compile_query unchanged", file=t["file"], line=t["l"], fn=t["path"])
    # between sql::compile and the function that resolves option-vs-header, the raw option is only handed on: a decision taken on it
    # (`dialect == Some(X)`, `match dialect`, `.map(..)`) sees `None` when the target comes from the header, so the same program would
    # compile differently under an option and under the equal header
    resolver_fns = {f_["path"] for f_ in syn.fns if f_["crate"] == "prqlc" and "body" in f_ and "/src/sql/" in f_["file"]
                    and any(x.get("k") == "mcall" and x["m"] == "get" and x["a"] and "target" in show(x["a"][0]) for x in walk(f_["body"]))}
    # (the signature comment names the target *option* by design - it is not part of the query; what sql::compile does with the raw option
    # inside `if options.signature_comment { .. }`, directly or through a helper it calls there, is outside this rule, and every other use
    # in sql::compile must be the translate_query argument)
    sig_helpers, sig_nodes = set(), set()
    for n in walk(c["body"]):
        if n.get("k") == "if" and "signature_comment" in show(n["c"]):
            for x in walk(n["t"]):
                sig_nodes.add(id(x))
                if x.get("k") == "call":
                    sig_helpers.add(last_seg(show(x["f"])))
    if bound:
        par_c = __import__("guards").parents(c["body"])
        stray = []
        for x in walk(c["body"]):
            if x.get("k") == "path" and x["p"] == bound[0] and id(x) not in sig_nodes:
                q = par_c.get(id(x))
                if not (q is not None and q.get("k") == "call" and last_seg(show(q["f"])) == "translate_query"):
                    stray.append(x["l"])
        rep.check(not stray, "raw-option-only-forwarded:compile", f"sql::compile looks at the raw target option `{bound[0]}` (line(s) {stray}) outside the signature comment: it must only be handed "
                  "to translate_query, which resolves it against the header", file=c["file"], line=stray[0] if stray else c["l"], fn=c["path"])
    n_through = 0
    for f_ in syn.fns:
        if f_["crate"] != "prqlc" or "body" not in f_ or "/src/sql/" not in f_["file"] or f_["path"] in resolver_fns:
            continue
        if f_["name"] in sig_helpers and f_["file"] == c["file"] and not any(
                x.get("k") == "call" and last_seg(show(x["f"])) == f_["name"] and id(x) not in sig_nodes
                for g_ in syn.fns if g_["crate"] == "prqlc" and "body" in g_ and "/src/sql/" in g_["file"] for x in walk(g_["body"])):
            continue        # a text helper of the signature comment, called from nowhere else
        raw = [p_["name"] for p_ in f_.get("params", []) if isinstance(p_, dict) and re.sub(r"\s", "", p_.get("ty") or "") in ("Option<Dialect>", "Option<crate::sql::Dialect>", "Option<super::Dialect>")]
        for nm in raw:
            n_through += 1
            par_ = __import__("guards").parents(f_["body"])
            badu = []
            for x in walk(f_["body"]):
                if x.get("k") == "path" and x["p"] == nm:
                    q = par_.get(id(x))
                    if q is not None and q.get("k") == "call" and any(a is x for a in q["a"]):
                        continue        # handed on as an argument
                    badu.append(x["l"])
            rep.check(not badu, f"raw-option-only-forwarded:{f_['name']}", f"{f_['path']} looks at the raw target option `{nm}` (line(s) {badu}) instead of the dialect resolved from option and header: "
                      "with the target given in the `prql target:` header the option is None and the decision differs from the one taken under the equal option", file=f_["file"], line=badu[0] if badu else f_["l"], fn=f_["path"])
    rep.check(n_through >= 1 and resolver_fns, "raw-option-sites", f"expected a function that forwards the raw option and one that resolves it against the header; found {n_through} / {sorted(resolver_fns)}")
    # lib.rs entry points pass options through
    for name in ("compile", "rq_to_sql"):
        f = syn.fn("prqlc::" + name, crate="prqlc")
        cs = [n for n in walk(f["body"]) if n.get("k") == "call" and show(n["f"]) == "sql::compile"]
        rep.check(len(cs) == 1 and show(cs[0]["a"][-1]) == "options", f"entry:{name}", f"{name} must pass its options to sql::compile", file=f["file"], line=f["l"], fn=f["path"])


FORBIDDEN = ("Dialect", "Options", "Target", "DialectHandler")


def r5(ctx, rep):
    rep.rule("C18.R5", "resolver and parser cannot see the dialect choice", floor=300)
    syn = ctx.syn
    import re
    n_items = 0
    for f in syn.fns:
        in_scope = (f["crate"] == "prqlc_parser") or (f["crate"] == "prqlc" and ("/src/semantic/" in f["file"] or f["file"].endswith("src/parser.rs") or "/src/ir/" in f["file"]))
        if not in_scope:
            continue
        n_items += 1
        hits = []
        if "body" in f:
            for n in walk(f["body"]):
                p = None
                if n.get("k") in ("path", "p_path", "p_ts", "p_struct", "struct"):
                    p = n["p"]
                    segs = p.split("::")
                    if any(s in FORBIDDEN for s in segs) and "sqlparser" not in p:
                        hits.append((n["l"], p))
                if n.get("k") == "field" and n["f"] == "other" and "def" in show(n["e"]):
                    hits.append((n["l"], show(n)))
        sig = " ".join(p.get("ty", "") for p in f.get("params", [])) + " " + f.get("ret", "")
        for w in re.findall(r"[A-Za-z_][A-Za-z0-9_]*", sig):
            if w in FORBIDDEN:
                hits.append((f["l"], "signature:" + w))
        if hits:
            rep.bad(f"mentions:{f['path']}", f"{f['path']} mentions {hits[0][1]}: name resolution / parsing must not depend on the SQL target (the same programs must be accepted for every dialect)",
                    file=f["file"], line=hits[0][0], fn=f["path"])
        else:
            rep.ok(f"clean:{f['path']}", nontrivial=False)
    for u in [u for c in ("prqlc", "prqlc_parser") for u in syn.data[c]["uses"]]:
        in_scope = ("prqlc-parser/" in u["file"]) or "/src/semantic/" in u["file"] or u["file"].endswith("src/parser.rs")
        if in_scope:
            names = re.findall(r"[A-Za-z_][A-Za-z0-9_]*", u["tree"])
            bad = [w for w in names if w in FORBIDDEN and "sqlparser" not in u["tree"]]
            rep.check(not bad, f"use:{u['file']}:{u['tree'][:40]}", f"`use {u['tree']}` imports {bad} into the resolver/parser", file=u["file"], line=u["l"])


def r6(ctx, rep):
    rep.rule("C18.R6", "after resolution only the effective dialect is used", floor=1)
    syn = ctx.syn
    c = syn.fn("sql::compile", crate="prqlc", file_suffix="sql/mod.rs")
    # uses of the option-level `dialect` other than passing it to translate_query
    uses = []
    for n in walk(c["body"]):
        if n.get("k") == "mcall" and show(n["r"]) == "dialect":
            uses.append((n["l"], show(n, maxdepth=6)))
    for l, u in uses:
        rep.bad("signature-comment-uses-option", f"`{u}` formats the OPTION's dialect into the signature comment: with the target given in the header instead, the SQL is the same but the emitted text differs (no `target:` in the comment)",
                file=c["file"], line=l, fn=c["path"])
    if not uses:
        rep.ok("signature-comment")


def r7(ctx, rep):
    rep.rule("C18.R7", "the header that is consulted is the one declared next to the main pipeline", floor=2)
    syn = ctx.syn
    f = syn.fn("RootModule::find_query_def", crate="prqlc")
    st = None
    for n in walk(f["body"]):
        if n.get("k") == "struct" and last_seg(n["p"]) == "Ident":
            st = {a: show(b) for a, b in n["f"]}
    rep.check(st is not None and st.get("path") == "main.path.clone()" and st.get("name") == "NS_QUERY_DEF.to_string()", "same-module",
              f"the `prql ..` header must be looked up in the module that declares the main pipeline (path = main.path); found {st}: with the main pipeline in a sub-module its own `target:` would be ignored",
              file=f["file"], line=f["l"], fn=f["path"])
    lo = syn.fn("lowering::lower_to_ir", crate="prqlc")
    import alpha as _alpha
    Alo = _alpha.Inliner(lo)
    dv = None
    for n in walk(lo["body"]):
        if n.get("k") == "struct" and last_seg(n["p"]) == "RelationalQuery":
            dv = dict(n["f"]).get("def")
    dtxt = Alo.show(dv, strip=True).replace(" ", "") if dv is not None else None
    rep.check(dtxt in ("root_mod.find_query_def(main_ident).cloned().unwrap_or_default()", "root_mod.find_query_def(main_ident).unwrap_or_default()"), "def-from-main",
              f"the RQ's def must be the header found for the main pipeline (default when absent); found `{dtxt}`", file=lo["file"], line=lo["l"], fn=lo["path"])
    q = None
    for n in walk(lo["body"]):
        if n.get("k") == "struct" and last_seg(n["p"]) == "RelationalQuery":
            q = {a: show(b) for a, b in n["f"]}
    rep.check(q is not None and q.get("def") == "def", "def-into-rq", "RelationalQuery.def must carry that header to the SQL back-end", file=lo["file"], line=lo["l"], fn=lo["path"])


def r8(ctx, rep):
    rep.rule("C18.R8", "the names `Dialect::from_str` accepts are exactly the names it displays and lists (an unknown name, including another spelling of a known one, is an error)", floor=2)
    import re
    syn = ctx.syn
    d = syn.adt("Dialect", crate="prqlc", file_suffix="sql/dialect.rs")
    derives = " ".join(a["args"] for a in d["attrs"] if a["name"] == "derive")
    rep.check(all(w in derives.replace(" ", "") for w in ("strum::Display", "strum::EnumString", "strum::VariantNames")), "derives",
              f"Dialect parses (EnumString), prints (Display) and lists (VariantNames) its names with strum; found derives `{derives[:160]}`", file=d["file"], line=d["l"])
    # attributes that widen what is PARSED without changing what is printed / listed
    widening = re.compile(r"ascii_case_insensitive|\bserialize\s*=|\bdefault\b|\bdisabled\b|parse_err")
    enum_args = [a["args"] for a in d["attrs"] if a["name"] == "strum"]
    bad = [x for x in enum_args if widening.search(x)]
    rep.check(enum_args == ['serialize_all = "lowercase"'] and not bad, "enum-attrs", f"`#[strum({', '.join(enum_args)})]` on Dialect: only `serialize_all = \"lowercase\"` is expected; "
              "`ascii_case_insensitive` (or an alternative `serialize = ..`) makes from_str accept names such as `sql.MsSql` that `prqlc list-targets` does not list and that are unknown targets",
              file=d["file"], line=d["l"])
    vbad = [(v["name"], a["args"]) for v in d["variants"] for a in v.get("attrs", []) if a["name"] == "strum" and widening.search(a["args"])]
    rep.check(not vbad, "variant-attrs", f"variant attribute(s) {vbad} add spellings that from_str accepts but Display / VariantNames do not produce", file=d["file"], line=d["l"])


def run(ctx, rep):
    for r in (r1, r2, r3, r4, r5, r6, r7, r8):
        rep.guard(r, ctx)
