"""C07 - every accepted program compiles to SQL the dialect parses and binds.

Decides (structural):
  R1 interface agreement of sibling operator implementations (holes vs params vs std.prql order)
  R2 closure of names (internal std.X, internal Y, null-bodied operators, dialect module names)
  R3 unsupported operator = error
  R4 query-scope push/pop pairing; window_function save/restore
  R5 placeholders for empty projection / empty relation literal / empty IN list
  R6 relation instances are named after sorts are inferred, under a uniqueness loop
  R7 Dialect::handler is total over the Dialect enum
  R8-R10 capability flags, WITH RECURSIVE accumulation, take_to_define re-arming
  R11 no `L`-suffixed numbers
Not decided: that emitted text parses and binds in each engine.
"""
import re
import json
import os

from synq import (walk, show, show_stmts, strs, last_seg, pat_alts, pat_head, tail_expr, matches_of, mcalls, calls,
                  macros, lit_val, AnchorMissing, walk_no_closure)
import tables
import stdlib
from C02 import dialect_names, std_fn, sql_impls, ora

META = (
    "structural necessary conditions of C07 decided from source tables",
    ["A1", "A3 oracle tables", "engine acceptance of the emitted text is not decided"],
    "interface agreement between std.prql declarations and every SQL implementation (base + dialect overrides), "
    "name closure between std.prql / std.sql.prql / resolve_special_func / Dialect, pairing and placeholder rules on syntax trees",
    True,
)


def r1(ctx, rep):
    rep.rule("C07.R1", "each SQL implementation takes its holes from its own parameters, at the call positions of the std.prql declaration", floor=180)
    mods = dialect_names(ctx)
    for impl in ctx.std["sql"]:
        parts = impl["path"].split(".")
        rest = ".".join(parts[1:]) if parts[0] in mods else impl["path"]
        decl = std_fn(ctx, "std." + rest)
        params = [stdlib.short(p["name"]) for p in stdlib.param_call_order(impl)]
        if any(p["default"] is not None for p in impl["params"]):
            rep.bad(f"{impl['path']}:named-param", "SQL implementations must not declare named parameters (the file's own contract)", file=impl["file"], line=impl["line"])
        if impl["body"]["kind"] != "sstring":
            rep.ok(f"{impl['path']}:no-holes", nontrivial=False)
            continue
        holes = [it[1] for it in impl["body"]["items"] if it[0] == "h"]
        if not holes:
            rep.ok(f"{impl['path']}:no-holes", nontrivial=False)
            continue
        for h in sorted(set(holes)):
            key = f"{impl['path']}:hole:{h}"
            if h not in params:
                rep.bad(key, f"hole {{{h}}} of `{impl['body']['raw']}` is not a parameter of this implementation ({params}): `args.get(..).unwrap()` panics", file=impl["file"], line=impl["line"])
                continue
            if decl is None:
                # operators created by the compiler itself (no std.prql declaration): arity only
                rep.ok(key, {"decl": None}, nontrivial=False)
                continue
            dparams = [stdlib.short(p["name"]) for p in stdlib.param_call_order(decl)]
            # the declaration may name its parameters differently (left/right vs l/r): positions must agree
            pos_impl = params.index(h)
            if len(params) != len(dparams):
                rep.bad(key,
                        f"`{impl['path']}` declares {len(params)} parameter(s) {params} but std.{rest} passes {len(dparams)} argument(s) "
                        f"in the order {dparams} (named parameters first): hole {{{h}}} receives argument #{pos_impl} = `{dparams[pos_impl] if pos_impl < len(dparams) else '<none>'}`",
                        file=impl["file"], line=impl["line"])
                continue
            # same-named parameter must be at the same position when the names are shared
            if h in dparams:
                rep.check(dparams.index(h) == pos_impl, key,
                          f"hole {{{h}}} is parameter #{pos_impl} of `{impl['path']}` but `{h}` is argument #{dparams.index(h)} in the call order of std.{rest} {dparams}",
                          file=impl["file"], line=impl["line"])
            else:
                # names differ: compare with the base implementation, which is the reference for position meaning
                base = [d for dialect, d in sql_impls(ctx, rest) if dialect is None]
                if base and base[0] is not impl:
                    bparams = [stdlib.short(p["name"]) for p in stdlib.param_call_order(base[0])]
                    rep.check(h in bparams and bparams.index(h) == pos_impl, key,
                              f"hole {{{h}}} is parameter #{pos_impl} of `{impl['path']}` but the base implementation has parameters {bparams}",
                              file=impl["file"], line=impl["line"])
                else:
                    rep.ok(key, {"positional": pos_impl})


def special_func_names(syn):
    f = syn.fn("resolve_special_func", crate="prqlc")
    names = set()
    for m in matches_of(f["body"]):
        sc = show(m["e"])
        if "internal_name" in sc or sc.endswith("as_str()"):
            for head, g, body, line, _ in tables.match_rows(m):
                if isinstance(head, tuple) and head[0] == "lit" and isinstance(head[1], str):
                    names.add(head[1])
    return f, names


def r2(ctx, rep):
    rep.rule("C07.R2", "closure of names between std.prql, std.sql.prql, resolve_special_func, operator_from_name and Dialect", floor=160)
    syn = ctx.syn
    mods = dialect_names(ctx)
    base = {d["path"]: d for d in ctx.std["sql"] if d["path"].split(".")[0] not in mods}
    f, special = special_func_names(syn)
    fo = syn.fn("gen_expr::operator_from_name", crate="prqlc")
    from_name, _ = tables.str_to_variant_table(fo)
    t = syn.fn("gen_expr::translate_expr", crate="prqlc")
    dispatch = set()
    for m in matches_of(t["body"]):
        if show(m["e"]) == "name.as_str()":
            for head, g, body, line, _ in tables.match_rows(m):
                if isinstance(head, tuple) and head[0] == "lit":
                    dispatch.add(head[1])
    for d in ctx.std["std"]:
        b = d["body"]
        if b["kind"] != "internal":
            continue
        n = b["name"]
        if n.startswith("std."):
            rep.check(n[4:] in base or n in dispatch, f"internal:{n}",
                      f"std.prql `{d['path']}` lowers to operator `{n}` but std.sql.prql has no base function `{n[4:]}`: find_operator_impl(..).unwrap() panics for every dialect without an override",
                      file=d["file"], line=d["line"])
        else:
            rep.check(n in special, f"internal:{n}",
                      f"std.prql `{d['path']}` has body `internal {n}` but resolve_special_func has no arm \"{n}\" (compile error `unknown operator` for a documented function)",
                      file=d["file"], line=d["line"])
    # null-bodied base operators must be translated by another route
    for p, d in base.items():
        if d["body"]["kind"] == "null":
            n = "std." + p
            rep.check(n in from_name or n in dispatch, f"nullbody:{n}",
                      f"base `{p}` has body `null` (= unsupported) but no operator_from_name row or translate_expr special case handles `{n}`: every use is a compile error",
                      file=d["file"], line=d["line"])
    # every dialect override overrides something that exists in base
    for d in ctx.std["sql"]:
        parts = d["path"].split(".")
        if parts[0] in mods:
            rest = ".".join(parts[1:])
            rep.check(rest in base or ("std." + rest) in dispatch, f"override:{d['path']}",
                      f"`{d['path']}` overrides `{rest}`, which has no base implementation: other dialects panic in find_operator_impl",
                      file=d["file"], line=d["line"])
    # dialect module names are Dialect variants (lower-cased by strum serialize_all)
    dia = syn.adt("Dialect", crate="prqlc", file_suffix="sql/dialect.rs")
    lower = any(a["name"] == "strum" and "serialize_all" in a["args"] and "lowercase" in a["args"] for a in dia["attrs"])
    vnames = {v["name"].lower() if lower else v["name"] for v in dia["variants"]}
    for m in sorted(mods):
        rep.check(m in vnames, f"dialect-module:{m}",
                  f"module `{m}` of std.sql.prql is not the display name of any Dialect variant ({sorted(vnames)}): its overrides are silently ignored",
                  file="prqlc/prqlc/src/sql/std.sql.prql")
    # find_operator_impl looks the module up by dialect.to_string()
    fi = syn.fn("operators::find_operator_impl", crate="prqlc")
    txt = show_stmts(fi["body"])
    ifs = [n for n in fi["body"]["s"] if n.get("k") == "if"]
    first = show_stmts(ifs[0]["t"]) if ifs else ""
    second_c = show(ifs[1]["c"]) if len(ifs) > 1 else ""
    second = show_stmts(ifs[1]["t"]) if len(ifs) > 1 else ""
    order_ok = ("dialect.to_string()" in txt and "func_def = module.get(&operator_ident)" in first
                and second_c == "func_def.is_none()" and "func_def = std().get(&operator_ident)" in second)
    if not order_ok:
        # the same order written with combinators: `<dialect module>.and_then(|m| .. m.get(&operator_ident)).or_else(|| std().get(&operator_ident))`
        import alpha
        Af = alpha.Inliner(fi, maxdepth=16, max_inline=6)
        for n in walk(fi["body"]):
            if n.get("k") == "try":
                v = Af.show(n["e"])
                if re.search(r"^std\(\)\.get\(&pl::Ident::from_name\(dialect\.to_string\(\)\)\)\.and_then\(\|_c0\| \{? ?_c0\..*\.get\(&(?P<k>.+?)\) ?\}?\)\.or_else\(\|\| std\(\)\.get\(&(?P=k)\)\)$", v):
                    order_ok = True
    rep.check(order_ok, "lookup-order",
              "find_operator_impl must look in the dialect module first and fall back to the base module", file=fi["file"], line=fi["l"], fn=fi["path"])


def r3(ctx, rep):
    rep.rule("C07.R3", "an operator without an implementation for the dialect is a compile error", floor=2)
    syn = ctx.syn
    f = syn.fn("operators::translate_operator", crate="prqlc")
    m = None
    for mm in matches_of(f["body"]):
        if "func_def.body.kind" in show(mm["e"]):
            m = mm
    if m is None:
        raise AnchorMissing("translate_operator: no match on func_def.body.kind")
    got_null = got_s = False
    for head, g, body, line, alt in tables.match_rows(m):
        s = show(alt, maxdepth=8)
        if "Null" in s:
            rets = [r for r in walk(body) if r.get("k") == "return"]
            got_null = bool(rets) and all(show(r.get("e")).startswith("Err(") for r in rets)
        if isinstance(head, str) and last_seg(head) == "SString":
            got_s = True
    rep.check(got_null, "null-body", "a `null` body must return Err(..) (unsupported for this dialect), not emit SQL", file=f["file"], line=m["l"], fn=f["path"])
    rep.check(got_s, "sstring-body", "s-string bodies are the only emitted implementation kind", file=f["file"], line=m["l"], fn=f["path"])


def paired(fn, open_name, close_name):
    """Top-level statement indexes of open/close method calls; returns list of problems."""
    probs = []
    stmts = fn["body"]["s"]
    opens = [i for i, s in enumerate(stmts) if s.get("k") == "mcall" and s["m"] == open_name]
    closes = [i for i, s in enumerate(stmts) if s.get("k") == "mcall" and s["m"] == close_name]
    all_opens = [n for n in walk(fn["body"]) if n.get("k") == "mcall" and n["m"] == open_name]
    all_closes = [n for n in walk(fn["body"]) if n.get("k") == "mcall" and n["m"] == close_name]
    if len(all_opens) != len(opens) or len(all_closes) != len(closes):
        probs.append(f"{open_name}/{close_name} must be top-level statements of the function (found nested calls)")
    if len(opens) != len(closes):
        probs.append(f"{len(opens)} {open_name}() vs {len(closes)} {close_name}()")
        return probs, 0
    for o, c in zip(opens, closes):
        if c <= o:
            probs.append(f"{close_name}() before {open_name}()")
            continue
        for st in stmts[o + 1 : c]:
            for n in walk_no_closure(st):
                if n.get("k") == "return" and not show(n.get("e")).startswith("Err("):
                    probs.append(f"`return` at line {n['l']} between {open_name}() and {close_name}() skips the {close_name}()")
        # no Ok-exit before close: the close is followed by the function's result
    return probs, len(opens)


def r4(ctx, rep):
    rep.rule("C07.R4", "query scope flags are restored on every non-error exit", floor=5)
    syn = ctx.syn
    users = [f for f in syn.fns if f["crate"] == "prqlc" and "body" in f and any(n.get("k") == "mcall" and n["m"] == "push_query" for n in walk(f["body"]))]
    for f in users:
        if f["name"] == "push_query":
            continue
        probs, n = paired(f, "push_query", "pop_query")
        rep.check(not probs and n > 0, f"pair:{f['name']}", f"push_query/pop_query not paired in {f['path']}: {probs}", file=f["file"], line=f["l"], fn=f["path"])
        # the flags of this query are written inside its scope: a write before push_query() is saved as the OUTER query's flag and survives the pop
        stmts = f["body"]["s"]
        o = [i for i, s_ in enumerate(stmts) if s_.get("k") == "mcall" and s_["m"] == "push_query"]
        c = [i for i, s_ in enumerate(stmts) if s_.get("k") == "mcall" and s_["m"] == "pop_query"]
        outside = []
        for i, s_ in enumerate(stmts):
            if o and c and not any(a < i < b for a, b in zip(o, c)):
                outside += [show(n["lhs"]) for n in walk(s_) if n.get("k") == "assign" and re.match(r"(self|ctx)\.query\.\w+$", show(n["lhs"]))]
        rep.check(not outside, f"writes-in-scope:{f['name']}", f"{f['path']} assigns {outside} outside its push_query()/pop_query() bracket: the value belongs to the enclosing SELECT and is still set after the "
                  "nested one returns (`omit_ident_prefix` of a single-table sub-query leaking into a join: `ON id = id`)", file=f["file"], line=f["l"], fn=f["path"])
    # the set of relation names in use is per SELECT: saved before a nested pipeline is folded and restored after it
    import C03
    n_scope = 0
    for g in syn.fns:
        if g["crate"] != "prqlc" or "body" not in g or g.get("self_short") != "RelVarNameAssigner":
            continue
        for blk in walk(g["body"]):
            if blk.get("k") == "block" and any("self.fold_sql_transforms(" in show_stmts({"k": "block", "s": [x]}, maxdepth=6) for x in blk["s"]):
                iso = C03.state_isolation(blk["s"], lambda t: "self.fold_sql_transforms(" in t)
                n_scope += 1
                saved, emptied, restored = iso.get("relation_instance_names", (False, False, False))
                rep.check(saved and emptied and restored, f"names-scope:{g['name']}", "the names used by the relation instances of one SELECT must be moved out before a nested pipeline is folded and put back after it: "
                          "cleared without being restored, a later instance of the same table in the outer SELECT gets no alias (`JOIN b .. JOIN b`)", file=g["file"], line=blk["l"], fn=g["path"])
    rep.check(n_scope >= 1, "names-scope:sites", f"expected RelVarNameAssigner::fold_sql_relation to fold nested pipelines, found {n_scope} site(s)")
    # pop restores what push saved
    pu = syn.fn("Context::push_query", crate="prqlc")
    po = syn.fn("Context::pop_query", crate="prqlc")
    rep.check("self.query_stack.push(self.query.clone())" in show_stmts(pu["body"]), "push-saves", "push_query must save a copy of the current flags", file=pu["file"], line=pu["l"], fn=pu["path"])
    rep.check("self.query = self.query_stack.pop().unwrap()" in show_stmts(po["body"]), "pop-restores", "pop_query must restore the saved flags", file=po["file"], line=po["l"], fn=po["path"])
    # window_function saved/restored around translate_expr in translate_cid
    tc = syn.fn("gen_expr::translate_cid", crate="prqlc")
    txt = show_stmts(tc["body"], maxdepth=14)
    assigns = [n for n in walk(tc["body"]) if n.get("k") == "assign" and show(n["lhs"]).endswith("query.window_function")]
    saved = [n for n in walk(tc["body"]) if n.get("k") == "local" and "window_function" in show(n.get("init"))]
    rep.check(len(assigns) >= 2 and saved, "window_function-restore",
              f"translate_cid must set ctx.query.window_function for a windowed column and restore the previous value afterwards (found {len(assigns)} assignment(s), {len(saved)} save(s))",
              file=tc["file"], line=tc["l"], fn=tc["path"])


def r5(ctx, rep):
    rep.rule("C07.R5", "placeholders keep the statement well-formed for empty projections, relations and IN lists", floor=3)
    syn = ctx.syn
    # empty projection -> NULL unless supports_zero_columns
    # role anchor: the `push` of a NULL select item; the `if` around it is evaluated as a truth table over (projection empty, dialect supports zero columns)
    import alpha
    import boolfn
    import guards as _g
    ok = False
    where = None
    for f in syn.fns_in_file("sql/gen_projection.rs"):
        if "body" not in f:
            continue
        par = _g.parents(f["body"])
        for n in walk(f["body"]):
            if n.get("k") == "mcall" and n["m"] == "push" and "Value::Null" in show(n, maxdepth=14) and "SelectItem" in show(n, maxdepth=14):
                where = f
                acc = show(n["r"])
                cur, cond = n, None
                while id(cur) in par:
                    cur = par[id(cur)]
                    if cur.get("k") == "if":
                        cond = cur
                        break
                if cond is None:
                    continue
                A = alpha.Inliner(f)
                try:
                    rows = []
                    for empty in (True, False):
                        for zero in (True, False):
                            def atom(t, empty=empty, zero=zero):
                                t = t.replace(" ", "")
                                return empty if t == f"{acc}.is_empty()" else zero if t == "ctx.dialect.supports_zero_columns()" else None
                            rows.append(boolfn.ev(cond["c"], atom, A) == (empty and not zero))
                    ok = all(rows) and any(x is n or True for x in walk(cond["t"])) and _g._contains(cond["t"], n)
                except boolfn.Unknown:
                    ok = False
    rep.check(ok, "empty-projection", "an empty projection must be replaced by a NULL item unless the dialect supports zero columns",
              file=where["file"] if where else "prqlc/prqlc/src/sql/gen_projection.rs", line=where["l"] if where else None, fn=where["path"] if where else None)
    # a relation literal whose rows have no fields (`from [{}]`, `from_text` with "columns": []): every SELECT that is built needs the placeholder, not only the no-rows case
    rl = syn.fn("gen_query::translate_relation_literal", crate="prqlc")
    sel = [n for n in walk(rl["body"]) if n.get("k") == "struct" and last_seg(n["p"]) == "Select"]
    n_guarded = 0
    for n in sel:
        proj = dict(n["f"]).get("projection")
        txt = show(proj, maxdepth=12) if proj is not None else ""
        # the projection value is a local that had a NULL item pushed when empty, or is built right here from the row
        if proj is not None and proj.get("k") == "path":
            pushes = [x for x in walk(rl["body"]) if x.get("k") == "mcall" and x["m"] == "push" and show(x["r"]) == proj["p"] and "Null" in show(x, maxdepth=12)]
            n_guarded += 1 if pushes else 0
    rep.check(len(sel) >= 2 and n_guarded == len(sel), "empty-literal-row", f"translate_relation_literal builds {len(sel)} SELECTs and protects {n_guarded} of them against an empty projection: "
              "`from [{}]` compiles to `WITH table_0 AS (SELECT) ..`, a syntax error", file=rl["file"], line=rl["l"], fn=rl["path"])
    # empty IN list -> false
    f = syn.fn("gen_expr::process_array_in", crate="prqlc")
    # (polarity-aware: `if empty {FALSE} else {IN}`, `if !empty {IN} else {FALSE}` or an early return)
    import guards
    par = guards.parents(f["body"])
    at = guards.polarity_of("in_values.is_empty()")
    inl = [n for n in walk(f["body"]) if n.get("k") == "struct" and last_seg(n["p"]) == "InList"]
    fal = [n for n in walk(f["body"]) if n.get("k") == "call" and show(n["f"]).endswith("Value::Boolean") and show(n["a"][0]) == "false"]
    ok = bool(inl) and bool(fal) and all(guards.side_of(par, n, at) is False for n in inl) and any(guards.side_of(par, n, at) is True for n in fal)
    rep.check(ok, "empty-in", "`in []` must become FALSE, never `IN ()`", file=f["file"], line=f["l"], fn=f["path"])
    # empty relation literal -> SELECT NULL .. WHERE false
    cands = [g for g in syn.fns_in_file("sql/gen_query.rs") if "body" in g and "rows.is_empty()" in show_stmts(g["body"], maxdepth=20)]
    ok = False
    g0 = None
    for g in cands:
        for n in walk(g["body"]):
            if n.get("k") == "if" and "rows.is_empty()" in show(n["c"]):
                g0 = g
                t = show_stmts(n["t"], maxdepth=30)
                ok = "Value::Boolean(false)" in t and "selection" in t
    rep.check(ok, "empty-relation", "an empty relation literal must become a SELECT with `WHERE false`", file=g0["file"] if g0 else "prqlc/prqlc/src/sql/gen_query.rs", line=g0["l"] if g0 else None, fn=g0["path"] if g0 else None)


def r6(ctx, rep):
    rep.rule("C07.R6", "every relation instance gets a unique name, after sorts are inferred", floor=3)
    syn = ctx.syn
    f = syn.fn("postprocess::postprocess", crate="prqlc")
    txt = show_stmts(f["body"])
    rep.check(txt.index("infer_sorts(") < txt.index("assign_names(") if "infer_sorts(" in txt and "assign_names(" in txt else False,
              "order", "postprocess must run infer_sorts before assign_names (sorting adds relation references)", file=f["file"], line=f["l"], fn=f["path"])
    a = syn.fn("postprocess::assign_names", crate="prqlc")
    import guards as _g
    par_a = _g.parents(a["body"])
    ok = False
    for n in walk(a["body"]):
        if n.get("k") == "mcall" and n["m"] == "gen" and show(n["r"]).endswith("table_name"):
            lp, tests, form = _g.regen_loop(par_a, n, fn=a)
            # (while form: the condition also covers the missing name; loop form: only a `Some(name)` that is free breaks out)
            ok = ok or (form == "while" and bool(tests) and "is_none()" in show(lp["c"])) or (form == "loop" and bool(tests))
    rep.check(ok, "cte-names", "CTE names must be regenerated until set and not clashing", file=a["file"], line=a["l"], fn=a["path"])
    fr = [x for x in syn.find_fns("fold_rel", crate="prqlc") if x.get("self_short") == "RelVarNameAssigner"]
    if len(fr) != 1:
        raise AnchorMissing("RelVarNameAssigner::fold_rel")
    fr = fr[0]
    wl = [n for n in walk(fr["body"]) if n.get("k") == "while"]
    ok = any(("map_or(true" in show(w["c"], maxdepth=10) or ".unwrap_or(true)" in show(w["c"], maxdepth=10)) and "relation_instance_names.contains" in show(w["c"], maxdepth=10) for w in wl)
    ins = "relation_instance_names.insert(" in show_stmts(fr["body"], maxdepth=12)
    rep.check(ok and ins, "instance-names", "relation instance names must be generated until set and unused in the current query, and recorded",
              file=fr["file"], line=fr["l"], fn=fr["path"])


def r7(ctx, rep):
    rep.rule("C07.R7", "Dialect::handler has a row for every Dialect variant", floor=12)
    syn = ctx.syn
    dia = syn.adt("Dialect", crate="prqlc", file_suffix="sql/dialect.rs")
    f = syn.fn("Dialect::handler", crate="prqlc")
    m = tables.first_match(f, "self")
    rows = {}
    wild = False
    for head, g, body, line, _ in tables.match_rows(m):
        if head == "_":
            wild = True
        elif isinstance(head, str):
            rows[last_seg(head)] = show(tail_expr(body) if body.get("k") == "block" else body)
    for v in dia["variants"]:
        rep.check(v["name"] in rows, f"handler:{v['name']}",
                  f"Dialect::{v['name']} has no explicit handler row" + (" (falls into a wildcard arm)" if wild else ""),
                  file=f["file"], line=f["l"], fn=f["path"])


def dialect_matrix(syn):
    defaults, mat = {}, {}
    for f in syn.fns:
        if "body" not in f:
            continue
        if f.get("self_short") == "DialectHandler" and f.get("trait_default"):
            t = tail_expr(f["body"])
            defaults[f["name"]] = (show(t) if t is not None else "?", f)
        elif f.get("trait_short") == "DialectHandler":
            t = tail_expr(f["body"])
            mat.setdefault(f["self_short"], {})[f["name"]] = (show(t) if t is not None else "?", f)
    return defaults, mat


def effective(defaults, mat, handler, flag, depth=0):
    v, f = mat.get(handler, {}).get(flag, defaults.get(flag, (None, None)))
    if v is not None and v.startswith("self.") and v.endswith("()") and depth < 3:
        return effective(defaults, mat, handler, v[5:-2], depth + 1)[0], f
    return v, f


def r8(ctx, rep):
    rep.rule("C07.R8", "dialect capability flags do not claim a feature the engine lacks", floor=35)
    syn = ctx.syn
    defaults, mat = dialect_matrix(syn)
    with open(os.path.join(os.path.dirname(os.path.dirname(os.path.dirname(os.path.abspath(__file__)))), "oracles", "dialect_caps.json")) as fh:
        rows = json.load(fh)["rows"]
    handlers = {i["self_short"] for i in syn.impls if i.get("trait_short") == "DialectHandler"}
    for handler, flag, want, why in rows:
        key = f"cap:{handler}.{flag}"
        if handler not in handlers:
            rep.bad(key, f"dialect handler {handler} not found")
            continue
        if flag not in defaults:
            rep.bad(key, f"DialectHandler::{flag} not found")
            continue
        got, f = effective(defaults, mat, handler, flag)
        norm = (got or "").strip("'")
        rep.check(norm == want, key,
                  f"{handler}::{flag}() is `{got}` but the engine requires `{want}` ({why}): the generator would emit syntax this dialect cannot parse",
                  file=f["file"] if f else None, line=f["l"] if f else None, fn=f["path"] if f else None)


def r9(ctx, rep):
    rep.rule("C07.R9", "WITH RECURSIVE is decided by ANY recursive CTE (monotone accumulation), and only for dialects that have the keyword", floor=2)
    syn = ctx.syn
    f = syn.fn("gen_query::translate_query", crate="prqlc", file_suffix="sql/gen_query.rs")
    val = None
    for n in walk(f["body"]):
        if n.get("k") == "struct" and last_seg(n["p"]) == "With":
            for fname, fv in n["f"]:
                if fname == "recursive":
                    val = fv
    if val is None:
        raise AnchorMissing("translate_query: no `With { recursive, .. }` literal")
    # the field is the accumulator, possibly AND-ed with capability tests of the dialect
    conj = []

    def flat(x):
        if x.get("k") == "paren":
            flat(x["e"])
        elif x.get("k") == "bin" and x["op"] == "&&":
            flat(x["lhs"])
            flat(x["rhs"])
        else:
            conj.append(x)
    flat(val)
    accs = [c for c in conj if c.get("k") == "path" and "::" not in c["p"]]
    caps = [c for c in conj if c.get("k") == "mcall" and show(c["r"]).endswith("dialect") and not c["a"]]
    rest = [c for c in conj if not any(c is x for x in accs + caps)]
    if len(accs) != 1 or rest:
        rep.bad("recursive-field", f"`With.recursive` is `{show(val)}`: expected the accumulated flag of the CTE loop, optionally AND-ed with dialect capability tests", file=f["file"], line=val.get("l"), fn=f["path"])
        return
    var = accs[0]["p"]
    n_assign = 0
    for loop in [n for n in walk(f["body"]) if n.get("k") in ("for", "while", "loop")]:
        for a in walk(loop["body"]):
            if a.get("k") == "assign" and show(a["lhs"]) == var:
                n_assign += 1
                rhs = a["rhs"]
                ok = rhs.get("k") == "bin" and rhs["op"] == "||" and var in (show(rhs["lhs"]), show(rhs["rhs"]))
                rep.check(ok, f"accumulate:{var}",
                          f"`{var} = {show(rhs)}` inside the CTE loop overwrites the flag: only the last CTE would decide whether WITH RECURSIVE is emitted "
                          f"(expected `{var} = {var} || ..`)", file=f["file"], line=a["l"], fn=f["path"])
            if a.get("k") == "bin" and a["op"] == "|=" and show(a["lhs"]) == var:
                n_assign += 1
                rep.ok(f"accumulate:{var}")
    if n_assign == 0:
        # iterator form: `let <var> = <translated CTEs>.iter().any(|(_, rec)| *rec)` - true as soon as one CTE is recursive
        import alpha
        init = alpha.Inliner(f)._init_of(accs[0], var)
        anyc = [x for x in walk(init)] if init is not None else []
        is_any = init is not None and init.get("k") == "mcall" and init["m"] == "any" and "translate_cte" in alpha.Inliner(f).show(init["r"])
        if is_any:
            rep.ok(f"accumulate:{var}", {"form": "any"})
        else:
            rep.bad(f"accumulate:{var}", f"`{var}` is never updated from the translated CTEs", file=f["file"], line=f["l"], fn=f["path"])
    # the keyword is withheld from the dialects that lack it: some conjunct is a capability whose value is false for them (the values themselves are C07.R8 rows)
    defaults, mat = dialect_matrix(syn)
    lacking = ["MsSqlDialect"]
    for h in lacking:
        vals = {c["m"]: effective(defaults, mat, h, c["m"])[0] for c in caps if c["m"] in defaults}
        rep.check(any(v == "false" for v in vals.values()), f"keyword-withheld:{h}",
                  f"`With.recursive` is `{show(val)}`; for {h} no conjunct is false ({vals}): `loop` compiles to `WITH RECURSIVE ..`, which T-SQL does not parse "
                  "(a T-SQL CTE that refers to itself is recursive without a keyword)", file=f["file"], line=val.get("l"), fn=f["path"])


def r10(ctx, rep):
    import flow
    rep.rule("C07.R10", "a table taken for definition is re-armed for later references or emitted as a CTE on every non-error path", floor=1)
    syn = ctx.syn
    f = syn.fn("pq::gen_query::compile_relation_instance", crate="prqlc")
    target = None
    for n in walk(f["body"]):
        if n.get("k") == "if" and n["c"].get("k") == "let" and "take_to_define()" in show(n["c"]["e"]):
            target = n
    if target is None:
        raise AnchorMissing("compile_relation_instance: no `if let .. = decl.relation.take_to_define()`")

    def marker(n):
        if n.get("k") == "assign" and show(n["lhs"]).endswith(".relation") and "NotYetDefined" in show(n["rhs"]):
            return True
        if n.get("k") == "mcall" and n["m"] == "push" and show(n["r"]).endswith("ctes"):
            return True
        return False

    bad = flow.must_precede_exits(target["t"], marker)
    rep.check(not bad, "take_to_define",
              f"after `take_to_define()` the declaration is empty: exit(s) {bad} leave it neither restored (`decl.relation = NotYetDefined(..)`) nor "
              "pushed to `ctx.ctes`, so a later reference by name points at a CTE that is never emitted",
              file=f["file"], line=bad[0][0] if bad and isinstance(bad[0][0], int) else target["l"], fn=f["path"])


def r11(ctx, rep):
    rep.rule("C07.R11", "no number is emitted with sqlparser's `L` (long) suffix: Value::Number(_, long) is always built with long = false", floor=4)
    syn = ctx.syn
    n_sites = 0
    for f in syn.fns:
        if f["crate"] != "prqlc" or "/src/sql/" not in f["file"] or "body" not in f:
            continue
        k = 0
        for n in walk(f["body"]):
            if n.get("k") == "call" and last_seg(show(n["f"])) == "Number" and "Value" in show(n["f"]) and len(n["a"]) == 2:
                n_sites += 1
                k += 1
                rep.check(lit_val(n["a"][1]) is False, f"long-flag:{f['path']}:{k}",
                          f"`{show(n, maxdepth=5)}`: the second field of Value::Number makes sqlparser print an `L` suffix (`5000000000L`), which no supported dialect parses; it must be the literal `false`",
                          file=f["file"], line=n["l"], fn=f["path"])
    rep.check(n_sites >= 4, "sites", f"expected >= 4 Value::Number construction sites under sql/, found {n_sites}")


def r12(ctx, rep):
    rep.rule("C07.R12", "after the projection a renamed column is referred to by its alias alone, never as <table>.<alias>", floor=1)
    syn = ctx.syn
    f = syn.fn("gen_expr::translate_cid", crate="prqlc")
    # the branch that builds `translate_ident(table_name.., Some(column), ctx)` from the relation instance's name and the registered column name
    site = None
    for n in walk(f["body"]):
        if n.get("k") == "call" and last_seg(show(n["f"])) == "translate_ident" and len(n["a"]) >= 2 and "table_name" in show(n["a"][0]) and show(n["a"][1]) == "Some(column)":
            site = n
    if site is None:
        raise AnchorMissing("translate_cid: translate_ident(table_name.., Some(column), ctx)")
    # the qualifier (relation_instances) and the name (column_names) come from two tables; they agree only while the column keeps its own name.
    agree = [n for n in walk(f["body"]) if (n.get("k") == "bin" and n["op"] in ("==", "!=") and "column" in (show(n["lhs"]), show(n["rhs"]), show(n["lhs"]).lstrip("*&"), show(n["rhs"]).lstrip("*&")))
             or (n.get("k") == "match" and any(a.get("guard") is not None and "column" in show(a["guard"]) for a in n["arms"]))]
    rep.check(bool(agree), "qualified-alias", "translate_cid qualifies the registered column name with the relation's name without testing that the name is still the relation column's own: "
              "when the projection renamed the column (`a.x AS _expr_0`) the ORDER BY of that SELECT refers to `a._expr_0`, which is not a column of `a`",
              file=f["file"], line=site["l"], fn=f["path"])


def can_materialize_shape(syn):
    """(ok, what was found) - name-independent: locals are inlined, closure parameters numbered"""
    import alpha
    cm = syn.fn("anchor::can_materialize", crate="prqlc")
    A = alpha.Inliner(cm)
    t = A.tail()
    if t is None or t.get("k") != "tuple" or len(t["e"]) != 2:
        return False, "the function does not end in a pair (can, max_complexity)"
    first, second = A.show(t["e"][0]), A.show(t["e"][1])
    prm = [show(x.get("pat", x)).split(":")[0].strip() if isinstance(x, dict) else str(x).split(":")[0].strip() for x in cm.get("params", [])]
    compute = prm[0] if prm else "compute"
    want_fold = f".filter(|_c0| (_c0.col == {compute}.id)).fold(Complexity::highest(), |_c0, _c1| Complexity::min(_c0, _c1.max_complexity))"
    ok = first == f"(infer_complexity({compute}) <= {second})" and second.endswith(want_fold)
    if not ok:
        # the same minimum written as a loop: `let mut m = Complexity::highest(); for r in reqs { if r.col == compute.id { m = Complexity::min(m, r.max_complexity) } }`
        import guards
        reqs = prm[1] if len(prm) > 1 else "inputs_required"
        par = guards.parents(cm["body"])
        for st in cm["body"]["s"]:
            if st.get("k") == "local" and st["pat"].get("k") == "p_ident" and st["pat"].get("mut") and show(st.get("init")) == "Complexity::highest()":
                m = st["pat"]["n"]
                if first != f"(infer_complexity({compute}) <= {m})" or second != m:
                    continue
                writes = [n for n in walk(cm["body"]) if n.get("k") == "assign" and show(n["lhs"]) == m]
                good = bool(writes)
                for w in writes:
                    rhs = show(w["rhs"], maxdepth=8)
                    # enclosing loop over the requirements and the filter on this compute's id
                    loop, cond, cur = None, [], w
                    while id(cur) in par:
                        cur = par[id(cur)]
                        if cur.get("k") == "if" and cur.get("e") is None:
                            cond.append(show(cur["c"], maxdepth=8).strip("()"))
                        if cur.get("k") == "for":
                            loop = cur
                            break
                    if loop is None:
                        good = False
                        continue
                    r_ = show(loop["pat"])
                    it = show(loop.get("iter", loop.get("e")), maxdepth=6)
                    good = good and it in (reqs, f"{reqs}.iter()", f"&{reqs}") and rhs in (f"Complexity::min({m}, {r_}.max_complexity)", f"Complexity::min({r_}.max_complexity, {m})",
                                                                                           f"{m}.min({r_}.max_complexity)") \
                        and cond in ([f"{r_}.col == {compute}.id"], [f"{compute}.id == {r_}.col"])
                ok = good
    return ok, f"found `{first[:200]}`"


def r13(ctx, rep):
    rep.rule("C07.R13", "no window function or aggregate is nested in another; a CASE never loses all its WHEN branches", floor=3)
    syn = ctx.syn
    # (a) get_requirements: what a window function / aggregate may inline must stay below window functions
    en = syn.adt("Complexity", crate="prqlc")
    order = tables.enum_variants(en)          # declaration order = derive(PartialOrd) order
    rep.check(order == ["Plain", "NonGroup", "Windowed", "Aggregation"], "complexity:order", f"Complexity is compared by declaration order; expected Plain < NonGroup < Windowed < Aggregation, found {order}", file=en["file"], line=en["l"])
    f = syn.fn("anchor::get_requirements", crate="prqlc")
    m = None
    for mm in matches_of(f["body"]):
        if "infer_complexity(compute)" in show(mm["e"]):
            m = mm
    if m is None:
        raise AnchorMissing("get_requirements: match infer_complexity(compute)")
    rows = {}
    for arm in m["arms"]:
        for alt in pat_alts(arm["pat"]):
            h = pat_head(alt)
            rows[last_seg(h) if isinstance(h, str) else str(h)] = last_seg(show(arm["body"]))
    for mine in ("Windowed", "Aggregation"):
        allowed = rows.get(mine, rows.get("_"))
        ok = allowed in order and order.index(allowed) < order.index("Windowed")
        rep.check(ok, f"complexity:inputs-of:{mine}", f"a compute of complexity {mine} may inline inputs up to `{allowed}`: SQL does not allow a window function or an aggregate inside the argument of "
                  f"another (`SUM(RANK() OVER ())`), so the limit must be below Windowed", file=f["file"], line=m["l"], fn=f["path"])
    # (a') can_materialize: a compute is inlined only if its complexity is at most the MINIMUM any consumer allows
    okc, why = can_materialize_shape(syn)
    cm = syn.fn("anchor::can_materialize", crate="prqlc")
    rep.check(okc, "complexity:can_materialize", "can_materialize must return `infer_complexity(compute) <= m` where m is the minimum of max_complexity over the requirements OF THIS COLUMN, "
              f"starting from the highest complexity ({why})", file=cm["file"], line=cm["l"], fn=cm["path"])
    # (b) static_eval_case: the list that is tested for "only a literal-true branch is left" is the list that is emitted
    c = syn.fn("static_eval::static_eval_case", crate="prqlc")
    emitted = None
    for n in walk(c["body"]):
        if n.get("k") == "call" and show(n["f"]).endswith("ExprKind::Case") and n["a"]:
            emitted = show(n["a"][0])
    tested = []
    for n in walk(c["body"]):
        if n.get("k") == "if" and n["c"].get("k") == "bin" and n["c"]["op"] == "==" and show(n["c"]["lhs"]).endswith(".len()") and lit_val(n["c"]["rhs"]) == 1:
            if any(r.get("k") == "return" and ".value" in show(r.get("e"), maxdepth=8) for r in walk(n["t"])):
                tested.append(show(n["c"]["lhs"])[:-len(".len()")])
    empt = [show(n["c"], maxdepth=6) for n in walk(c["body"]) if n.get("k") == "if" and ".is_empty()" in show(n["c"], maxdepth=6)]
    rep.check(emitted is not None and tested == [emitted], "case:lone-default", f"the CASE that is emitted is `{emitted}`; the simplification `a single literal-true branch is just its value` is applied to {tested}: "
              "it must test the emitted list after constant-false branches were dropped, otherwise `case [false => 0, true => x]` reaches SQL as `CASE ELSE x END`", file=c["file"], line=c["l"], fn=c["path"])
    rep.check(emitted is not None and f"{emitted}.is_empty()" in empt, "case:empty", f"an emitted CASE without branches must be replaced (NULL); `{emitted}.is_empty()` is not tested", file=c["file"], line=c["l"], fn=c["path"])


def r14(ctx, rep):
    # a column reference the folders do not reach (inside an array literal, a window, a take range) is not redirected at a split:
    # the SELECT then names a table that exists only inside the CTE
    import C01
    rep.borrowed(C01.r4, ctx, "C07.R14", "every column reference is reached by the RQ / PQ folders, so splits redirect it")


def r15(ctx, rep):
    rep.rule("C07.R15", "clauses are translated in the phase they belong to: WHERE / HAVING / GROUP BY / FROM / SELECT before the projection exists, ORDER BY after it", floor=4)
    syn = ctx.syn
    f = syn.fn("gen_query::translate_select_pipeline", crate="prqlc")
    st = [show_stmts({"k": "block", "s": [x]}, maxdepth=16) for x in f["body"]["s"]]
    lines = [x.get("l") for x in f["body"]["s"]]

    # (a clause translated in a private helper of the same file counts at the statement that calls the helper)
    file_fns = {h["name"]: h for h in syn.fns if h["crate"] == "prqlc" and h["file"] == f["file"] and "body" in h and h["path"] != f["path"]}
    for i, x in enumerate(f["body"]["s"]):
        for _ in range(2):
            for c in walk(x):
                if c.get("k") == "call" and last_seg(show(c["f"])) in file_fns and file_fns[last_seg(show(c["f"]))]["name"] not in ("translate_relation_expr", "translate_join", "translate_select_items",
                                                                                                                                 "filter_of_conditions", "try_into_exprs", "translate_column_sort"):
                    st[i] += " /*via " + last_seg(show(c["f"])) + "*/ " + show_stmts(file_fns[last_seg(show(c["f"]))]["body"], maxdepth=16)

    def idx(pred):
        return [i for i, t in enumerate(st) if pred(t)]
    i_true = idx(lambda t: re.match(r"ctx\.query\.pre_projection = true;?$", t))
    i_false = idx(lambda t: re.match(r"ctx\.query\.pre_projection = false;?$", t))
    rep.check(len(i_true) == 1 and len(i_false) == 1 and i_true[0] < i_false[0], "phase-flag", f"expected `ctx.query.pre_projection = true` followed by `= false` as statements of translate_select_pipeline, found {i_true} / {i_false}",
              file=f["file"], line=f["l"], fn=f["path"])
    if len(i_true) != 1 or len(i_false) != 1:
        return
    lo, hi = i_true[0], i_false[0]
    pre = {"FROM": "translate_relation_expr(", "JOIN": "translate_join(", "SELECT": "translate_select_items(", "WHERE/HAVING": "filter_of_conditions(", "GROUP BY": "try_into_exprs("}
    for clause, call in pre.items():
        where = idx(lambda t, call=call: call in t)
        rep.check(bool(where) and all(lo < i < hi for i in where), f"phase:{clause}", f"{clause} is translated by `{call}..)` at statement(s) {[lines[i] for i in where]}; it must happen while `pre_projection` is true "
                  f"(between lines {lines[lo]} and {lines[hi]}): translate_cid then names the underlying column or expression; outside that phase it emits the SELECT alias, which FROM/WHERE/GROUP BY cannot see",
                  file=f["file"], line=lines[where[0]] if where else f["l"], fn=f["path"])
    ob = idx(lambda t: "translate_column_sort(" in t)
    rep.check(bool(ob) and all(i > hi for i in ob), "phase:ORDER BY", f"ORDER BY is translated at statement(s) {[lines[i] for i in ob]}; it must come after `pre_projection = false` (line {lines[hi]}): a sort key that is a "
              "projected column is referred to by its output name (required with DISTINCT and in set operations)", file=f["file"], line=lines[ob[0]] if ob else f["l"], fn=f["path"])
    # GROUP BY is the one clause where `*` may be disallowed: the flag is set for it and reset right after
    i_set = idx(lambda t: re.match(r"ctx\.query\.allow_stars = ctx\.dialect\.stars_in_group\(\);?$", t))
    i_reset = idx(lambda t: re.match(r"ctx\.query\.allow_stars = true;?$", t))
    gb = idx(lambda t: "try_into_exprs(" in t)
    rep.check(len(i_set) == 1 and len(i_reset) == 1 and bool(gb) and all(i_set[0] < i < i_reset[0] for i in gb), "stars-in-group", "`allow_stars` must be the dialect's stars_in_group() exactly while GROUP BY is translated "
              "and true again afterwards", file=f["file"], line=f["l"], fn=f["path"])


def set_ops_tables(ctx, rep, rid):
    """op table and quantifier decision of translate_set_ops_pipeline (shared by C01 and C07)"""
    import alpha
    import boolfn
    syn = ctx.syn
    f = syn.fn("gen_query::translate_set_ops_pipeline", crate="prqlc")
    # (a) the SQL operator has the name of the transform
    # (one match or several, a bare operator or a tuple that contains it: per transform kind, the SetOperator variants its arms mention)
    found = {}
    for m_ in matches_of(f["body"]):
        for arm in m_["arms"]:
            for alt in pat_alts(arm["pat"]):
                h = pat_head(alt)
                if isinstance(h, str) and last_seg(h) in ("Union", "Except", "Intersect"):
                    names = {last_seg(x["p"]) for x in walk(arm["body"]) if x.get("k") == "path" and re.search(r"SetOperator::\w+$", x["p"])}
                    found.setdefault(last_seg(h), set()).update(names)
    ops = {k: "|".join(sorted(v)) for k, v in found.items()} if len(found) == 3 and all(found.values()) else None
    rep.check(ops is not None and all(k == v for k, v in ops.items()), "set-op:table", f"each set transform must become the SQL set operator of the same name; found {ops}", file=f["file"], line=f["l"], fn=f["path"])
    # (b) quantifier: ALL unless the transform is distinct; DISTINCT is spelled out only for dialects that accept the keyword
    q = None
    for n in walk(f["body"]):
        if n.get("k") == "struct" and last_seg(n["p"]) == "SetOperation":
            q = dict(n["f"]).get("set_quantifier")
    A = alpha.Inliner(f)
    ok = q is not None
    got = {}
    if q is not None:
        try:
            for d in (True, False):
                for flag in (True, False):
                    def atom(t, d=d, flag=flag):
                        t = t.replace(" ", "")
                        return d if t == "distinct" else flag if t in ("context.dialect.set_ops_distinct()", "ctx.dialect.set_ops_distinct()") else None
                    got[(d, flag)] = last_seg(show(boolfn.leaf(q, atom, A)))
            ok = got == {(True, True): "Distinct", (True, False): "None", (False, True): "All", (False, False): "All"}
        except boolfn.Unknown:
            ok = False
    rep.check(ok, "set-op:quantifier", f"`append` / `remove` / `intersect` keep duplicates (ALL) unless the transform is marked distinct; DISTINCT is written only where the dialect accepts the keyword "
              f"(otherwise the bare operator, which means DISTINCT); found (distinct, dialect flag) -> {got}", file=f["file"], line=f["l"], fn=f["path"])


def r16(ctx, rep):
    rep.rule("C07.R16", "set operations: operator of the same name, and a quantifier the dialect can parse", floor=2)
    set_ops_tables(ctx, rep, "C07.R16")


def r17(ctx, rep):
    # an ORDER BY inherited past a DISTINCT / DISTINCT ON names a column the SELECT list does not have: databases reject the statement
    import C03
    rep.borrowed(C03.r6, ctx, "C07.R17", "a Sort is pushed before every DISTINCT ON (it separates a preceding take and resets the inherited order)")
    rep.borrowed(C03.r1_r2, ctx, "C07.R18", "DISTINCT and aggregation reset the inherited order", only=r"^(reset|retain):")
    rep.borrowed(C03.r3, ctx, "C07.R23", "the ORDER BY of an outer query names columns the CTE returns: sort keys are added to a CTE's SELECT unless that column is selected", only=r"^cte-projection")


def r24(ctx, rep):
    # `-{l}` without an operand strength prints the negation of a negation as `--x`: a line comment, the statement is cut off there
    import C02
    rep.borrowed(C02.r4, ctx, "C07.R24", "the operand of the unary minus template is parenthesised when it is itself a negation (`- -x`, never `--x`)", only=r"^neg:")


def r19(ctx, rep):
    import C04
    rep.borrowed(C04.r9, ctx, "C07.R19", "a RANGE frame with offsets needs an ORDER BY to be valid SQL")


def r20(ctx, rep):
    rep.rule("C07.R20", "an OFFSET without LIMIT is only emitted for dialects that parse it", floor=2)
    import alpha
    import boolfn
    syn = ctx.syn
    defaults, mat = dialect_matrix(syn)
    # role anchor: the `LimitClause::LimitOffset { limit, offset, .. }` literal(s) of sql/gen_query.rs
    sites = []
    for f in syn.fns_in_file("sql/gen_query.rs"):
        if "body" not in f:
            continue
        for n in walk(f["body"]):
            if n.get("k") == "struct" and last_seg(n["p"]) == "LimitOffset":
                sites.append((f, n))
    if not sites:
        raise AnchorMissing("sql/gen_query.rs: no `LimitClause::LimitOffset { .. }` literal")
    needy = ["SQLiteDialect", "MySqlDialect"]
    for f, n in sites:
        fields = dict(n["f"])
        lim = fields.get("limit")
        A = alpha.Inliner(f)
        # follow the (possibly shadowed) local that holds the limit back through its definitions; collect the decisions that can turn None into Some
        decisions = []
        cur, depth = lim, 0
        while cur is not None and depth < 6:
            depth += 1
            if cur.get("k") == "path" and "::" not in cur["p"]:
                cur = A._init_of(cur, cur["p"])
                continue
            if cur.get("k") == "if" and cur.get("e") is not None:
                decisions.append(cur)
                # continue through the branch that passes the old value on
                nxt = None
                for br in (cur["e"], cur["t"]):
                    leafs = br["s"] if br.get("k") == "block" else [br]
                    if leafs and leafs[-1].get("k") == "path":
                        nxt = leafs[-1]
                cur = nxt
                continue
            break
        for h in needy:
            ok = False
            for d in decisions:
                def atom(t, h=h):
                    t = t.replace(" ", "")
                    if t.endswith("limit.is_none()"):
                        return True
                    if t.endswith("limit.is_some()"):
                        return False
                    if t.endswith("offset.is_some()"):
                        return True
                    if t.endswith("offset.is_none()"):
                        return False
                    m = re.match(r"^ctx\.dialect\.(\w+)\(\)$", t)
                    if m and m.group(1) in defaults:
                        v = effective(defaults, mat, h, m.group(1))[0]
                        return {"true": True, "false": False}.get(v)
                    return None
                try:
                    taken = d["t"] if boolfn.ev(d["c"], atom, A) else d["e"]
                except boolfn.Unknown:
                    continue
                txt = show(taken, maxdepth=10).strip("{ }")
                if txt.startswith("Some("):
                    ok = True
            rep.check(ok, f"offset-needs-limit:{h}", f"{f['path']}: for {h} an open-ended `take n..` (limit None, offset Some) reaches `LimitOffset {{ limit: None, offset }}` and prints a bare `OFFSET n`, "
                      "which this engine rejects (OFFSET is part of its LIMIT clause): no decision on the way to the `limit` field supplies a LIMIT in that case",
                      file=f["file"], line=n["l"], fn=f["path"])


def r21(ctx, rep):
    rep.rule("C07.R21", "what a transform's clause mentions is requested from the preceding sub-query: a take's ORDER BY keys and its range", floor=2)
    syn = ctx.syn
    f = syn.fn("anchor::get_requirements", crate="prqlc")
    found = None
    for m in matches_of(f["body"]):
        for arm in m["arms"]:
            for alt in pat_alts(arm["pat"]):
                for n in walk(alt):
                    if n.get("k") == "p_struct" and last_seg(n["p"]) == "Take":
                        bound = {}
                        for fld in n["f"]:
                            # (field name, pattern): `sort`, `sort: keys`, ..
                            names = [x["n"] for x in walk(fld[1]) if x.get("k") == "p_ident"] if len(fld) > 1 and isinstance(fld[1], dict) else [fld[0]]
                            bound[fld[0]] = names or [fld[0]]
                        used = {k: any(y.get("k") == "path" and y["p"] in v for y in walk(arm["body"])) for k, v in bound.items()}
                        found = (arm, used)
    if found is None:
        raise AnchorMissing("get_requirements: no arm for `Take { .. }`")
    arm, used = found
    # postprocess pushes `Sort(take.sort)` in front of every Take (C03.R2): the ORDER BY is printed in the SELECT of the take
    for fld, why in (("range", "the LIMIT / OFFSET expressions"), ("sort", "the ORDER BY that is emitted in front of the LIMIT (`sort c | take 7` is one Take { sort: [c] })")):
        rep.check(used.get(fld, False), f"take-requires:{fld}", f"get_requirements does not ask the preceding pipeline for the columns of `Take.{fld}` ({why}): after a split the earlier "
                  "sub-query is built without the column and the SELECT of the take names a column that does not exist there", file=f["file"], line=arm["l"], fn=f["path"])


def r22(ctx, rep):
    rep.rule("C07.R22", "positional pairing of the fields of two relations never pairs a column with a wildcard", floor=1)
    import alpha
    import guards as _g
    syn = ctx.syn
    f = syn.fn("resolve_special_func", crate="prqlc")
    arm = None
    for m in matches_of(f["body"]):
        for a in m["arms"]:
            if any(x.get("k") == "lit" and x.get("v") == "tuple_zip" for x in walk(a["pat"])):
                arm = a
    if arm is None:
        raise AnchorMissing("resolve_special_func: no arm \"tuple_zip\"")
    body = arm["body"]
    A = alpha.Inliner(f)
    # the pairing: `zip(a, b)` / `a.zip(b)` whose pairs are pushed / collected
    zips = [n for n in walk(body) if (n.get("k") == "call" and last_seg(show(n["f"])) == "zip" and len(n["a"]) == 2) or (n.get("k") == "mcall" and n["m"] == "zip")]
    if not zips:
        raise AnchorMissing("tuple_zip arm: no zip of the two field lists")
    # a rejecting guard: an `if` whose then-branch returns an Err and whose condition (locals and closures inlined) looks at the wildcard-ness (`flatten` / `ExprKind::All`) of the elements
    guards_found = []
    for n in walk(body):
        if n.get("k") == "if" and n.get("e") is None and _g._diverges(n["t"]) and any(x.get("k") == "path" and last_seg(x["p"]) == "Err" for x in walk(n["t"])):
            txt = A.show(n["c"])
            # closures bound to locals are inlined by name: look at their bodies too
            extra = ""
            ctext = show(n["c"], maxdepth=12)
            for loc in walk(body):
                if loc.get("k") == "local" and loc.get("init") is not None and loc["init"].get("k") == "closure" and loc["pat"].get("k") == "p_ident" and loc["pat"]["n"] in ctext:
                    extra += " " + show(loc["init"], maxdepth=12)
                if loc.get("k") == "item_fn" and loc.get("name") and loc["name"] + "(" in ctext and "body" in loc:
                    extra += " " + show_stmts(loc["body"], maxdepth=12)
            # a private helper of the same file called in the condition
            for hf in syn.fns_in_file(f["file"].split("/src/")[-1]):
                if "body" in hf and hf is not f and re.search(r"\b" + re.escape(hf["name"]) + r"\(", ctext):
                    extra += " " + show_stmts(hf["body"], maxdepth=12)
            if re.search(r"\bflatten\b|ExprKind::All", txt + extra):
                guards_found.append(n)
    first_zip_line = min(z["l"] for z in zips if not any(_g._contains(g["c"], z) for g in guards_found)) if [z for z in zips if not any(_g._contains(g["c"], z) for g in guards_found)] else None
    ok = bool(guards_found) and first_zip_line is not None and any(g["l"] < first_zip_line for g in guards_found)
    rep.check(ok, "tuple_zip:wildcard-paired", "std.tuple_zip (used by `remove` / `intersect` to compare the two relations column by column) pairs the fields of its two arguments by position "
              "without rejecting a pair of a known column and the wildcard of a relation whose columns are not known: `from t | select {a, b} | remove u` compiles to `.. ON t.a = b.* WHERE b.* IS NULL`",
              file=f["file"], line=arm["l"], fn=f["path"])


def run(ctx, rep):
    for r in (r1, r2, r3, r4, r5, r6, r7, r8, r9, r10, r11, r12, r13, r14, r15, r16, r17, r19, r20, r21, r22, r24):
        rep.guard(r, ctx)
