"""C01 - compiled SQL returns the relation the PRQL pipeline denotes.

Decides four structural necessary conditions:
  R1 the clause-order table that forces a new sub-query covers SQL's evaluation order
     (Req(T) subset of S(T)); every listed name is a real transform name
  R2 empty-input values: COALESCE defaults and COUNT(*) agree across base and dialect overrides,
     and the annotation reaches a COALESCE wrapper outside window functions
  R3 WHERE takes the filters before the aggregate, HAVING those after; conditions are AND-ed in order
  R4 redirects reach every column id: every rq/pq fold rebuilds cid-carrying fields through the folder
Not decided: result equality on databases, cid bookkeeping across splits, take arithmetic, prune_inputs.
"""
import json
import os
import re

from synq import (walk, show, show_stmts, strs, paths, last_seg, pat_alts, pat_head, tail_expr, matches_of, mcalls, calls,
                  macros, lit_val, AnchorMissing)
import tables
from C02 import dialect_names, sql_impls, ora

META = (
    "structural necessary conditions of C01",
    ["A1", "A3 oracles/sql_clause_order.json, prql_std.json"],
    "clause-order table extracted from is_split_required and compared with SQL's logical evaluation order; coalesce/"
    "count annotations compared across sibling implementations; WHERE/HAVING routing and fold exhaustiveness on syntax trees",
    True,
)


def split_table(syn):
    f = syn.fn("anchor::is_split_required", crate="prqlc")
    m = None
    for mm in matches_of(f["body"]):
        if show(mm["e"]) == "transform":
            m = mm
    if m is None:
        raise AnchorMissing("is_split_required: match transform")
    table = {}
    for arm in m["arms"]:
        names = []
        for alt in pat_alts(arm["pat"]):
            h = pat_head(alt)
            if isinstance(h, str):
                if last_seg(h) == "Super" and alt.get("e"):
                    inner = pat_head(alt["e"][0])
                    names.append(last_seg(inner) if isinstance(inner, str) else str(inner))
                else:
                    names.append(last_seg(h))
        body = arm["body"]
        # union over all contains_any arrays on every path (conditional rows: take the intersection = always-split set)
        arrays = []
        for c in walk(body):
            if c.get("k") == "call" and last_seg(show(c["f"])) == "contains_any" and len(c["a"]) == 2:
                arrays.append(set(strs(c["a"][1])))
        everything = any(show(x).replace(" ", "") == "!following.is_empty()" for x in walk(body))
        always = set.intersection(*arrays) if arrays else set()
        any_ = set.union(*arrays) if arrays else set()
        for n in names:
            table[n] = {"always": always, "any": any_, "everything": everything, "line": arm["l"]}
    return f, m, table


def take_distinct_on_shield(syn, table, rep):
    # Take followed by DistinctOn: LIMIT is applied after DISTINCT ON, so they must not share a SELECT. The table has no such entry;
    # what separates them is the Sort that preprocess::distinct emits in front of every DistinctOn (Sort IS in the row of Take).
    take = table.get("Take", {"always": set(), "everything": False})
    if not (take["everything"] or "DistinctOn" in take["always"]):
        d = syn.fn("pq::preprocess::distinct", crate="prqlc")
        n_sites, bad_sites = 0, []
        for blk in walk(d["body"]):
            if blk.get("k") != "block":
                continue
            st = blk["s"]
            for i, x in enumerate(st):
                if x.get("k") == "mcall" and x["m"] == "push" and x["a"] and show(x["a"][0]).startswith("SqlTransform::DistinctOn"):
                    n_sites += 1
                    prev = st[i - 1] if i > 0 else None
                    okp = prev is not None and prev.get("k") == "mcall" and prev["m"] == "push" and show(prev["r"]) == show(x["r"]) and prev["a"] and show(prev["a"][0]).startswith("SqlTransform::Sort")
                    if not okp:
                        bad_sites.append(x["l"])
        shielded = n_sites >= 1 and not bad_sites and "Sort" in take["always"]
        rep.check(shielded, "req:Take:DistinctOn",
                  "`Take` followed by `DistinctOn` stays in one SELECT unless something separates them: the row of Take does not list DistinctOn, and "
                  f"preprocess::distinct does not unconditionally push a Sort right before the DistinctOn at line(s) {bad_sites} "
                  "(`SELECT DISTINCT ON (k) * FROM a LIMIT 5 OFFSET 2` applies the LIMIT after de-duplication)", file=d["file"], line=(bad_sites or [d["l"]])[0], fn=d["path"])
    else:
        rep.ok("req:Take:DistinctOn")


def r1(ctx, rep):
    rep.rule("C01.R1", "clause-order table: a transform is split from followers that SQL would evaluate before it", floor=100)
    O = ora("sql_clause_order.json")
    syn = ctx.syn
    f, m, table = split_table(syn)
    # names are real variant names
    sqlt = syn.adt("SqlTransform", crate="prqlc")
    rqt = syn.adt("Transform", crate="prqlc", file_suffix="ir/rq/transform.rs")
    valid = set(tables.enum_variants(sqlt)) | set(tables.enum_variants(rqt))
    for t, row in sorted(table.items()):
        for n in sorted(row["any"]):
            rep.check(n in valid, f"name:{t}:{n}", f"`{n}` in the row of {t} is not the name of any SqlTransform/rq::Transform variant: the entry can never match (dead row)",
                      file=f["file"], line=row["line"], fn=f["path"])
    for t, req in O["must_split_before"].items():
        if t not in table:
            rep.bad(f"row:{t}", f"is_split_required has no row for {t}: it is never split from what follows", file=f["file"], line=m["l"], fn=f["path"])
            continue
        row = table[t]
        for follower in req:
            ok = row["everything"] or follower in row["always"]
            rep.check(ok, f"req:{t}:{follower}",
                      f"`{t}` followed by `{follower}` stays in one SELECT, but SQL evaluates {follower} before {t} ({O['why'].get(t, '')}): "
                      f"the row of {t} lists only {sorted(row['always'])}",
                      file=f["file"], line=row["line"], fn=f["path"])
    take_distinct_on_shield(syn, table, rep)
    # the accumulation of names: a transform that is kept is recorded
    txt = show_stmts(f["body"], maxdepth=10)
    rep.check("following.insert(transform.as_str().to_string())" in show_stmts(f["body"], maxdepth=12) or any(
        n.get("k") == "mcall" and n["m"] == "insert" and "transform.as_str()" in show(n, maxdepth=8) for n in walk(f["body"])), "records",
        "a transform that stays in the SELECT must be recorded in `following`", file=f["file"], line=f["l"], fn=f["path"])
    # as_str: Super(t) => t.as_ref(), _ => self.as_ref()
    a = [x for x in syn.fns if x["crate"] == "prqlc" and x.get("self_short") == "SqlTransform" and x["name"] == "as_str"]
    if len(a) == 1:
        mm = tables.first_match(a[0], "self")
        rows = {str(pat_head(pa)): show(arm["body"]) for arm in mm["arms"] for pa in pat_alts(arm["pat"])}
        rep.check(rows.get("SqlTransform::Super") == "t.as_ref()" and rows.get("_") == "self.as_ref()", "as_str",
                  f"names compared in the table are the variant names of the wrapped rq::Transform / the SqlTransform itself; found {rows}", file=a[0]["file"], line=a[0]["l"], fn=a[0]["path"])
    else:
        rep.bad("as_str", "SqlTransform::as_str not found")


def r2(ctx, rep):
    rep.rule("C01.R2", "empty-input values: COALESCE defaults and COUNT(*) agree in base and every override", floor=8)
    O = ora("prql_std.json")["empty_input"]
    mods = dialect_names(ctx)
    for name, want in O["coalesce"].items():
        impls = sql_impls(ctx, name)
        if not impls:
            rep.bad(f"coalesce:{name}", f"no implementation of {name} in std.sql.prql")
        for dialect, impl in impls:
            got = impl["annotations"].get("coalesce")
            rep.check(str(got) == want if got is not None else False, f"coalesce:{name}:{dialect or 'base'}",
                      f"`{impl['path']}` must carry coalesce=\"{want}\" (value of {name} over no rows); found {got!r}: over an empty input SQL returns NULL",
                      file=impl["file"], line=impl["line"])
    for dialect, impl in sql_impls(ctx, "count"):
        raw = impl["body"].get("raw", "")
        rep.check(raw.replace(" ", "").upper() == "COUNT(*)", f"count:{dialect or 'base'}",
                  f"count must be COUNT(*) (counts rows, including nulls); `{impl['path']}` is `{raw}`", file=impl["file"], line=impl["line"])
    # the annotation reaches a COALESCE wrapper
    syn = ctx.syn
    to = syn.fn("operators::translate_operator", crate="prqlc")
    ok = False
    import guards as _g
    for blk in _g.branches_when(to["body"], "ctx.query.window_function", False):
            inner = [i for i in walk(blk) if i.get("k") == "if" and i["c"].get("k") == "let" and show(i["c"]["e"]) == "coalesce"]
            for i in inner:
                bound = [x["n"] for x in walk(i["c"]["pat"]) if x.get("k") == "p_ident"]
                for a in walk(i["t"]):
                    # <acc> = format!("COALESCE({<acc>}, {<the default bound by the if-let>})"), whatever the names are
                    if a.get("k") == "assign" and a["rhs"].get("k") == "macro" and a["rhs"]["n"] == "format" and a["rhs"].get("a"):
                        fm = lit_val(a["rhs"]["a"][0])
                        args = [show(x) for x in a["rhs"]["a"][1:]]
                        m = re.fullmatch(r"COALESCE\(\{(\w*)\}, \{(\w*)\}\)", fm or "")
                        if m:
                            g1 = m.group(1) or (args[0] if args else "")
                            g2 = m.group(2) or (args[1 if not m.group(1) else 0] if args else "")
                            ok = g1 == show(a["lhs"]) and bool(bound) and g2 == bound[0]
    rep.check(ok, "wrapper", "translate_operator must wrap the emitted text as COALESCE(<text>, <default>) when the implementation declares coalesce", file=to["file"], line=to["l"], fn=to["path"])
    fi = syn.fn("operators::find_operator_impl", crate="prqlc")
    rep.check("pluck_annotation(&annotation, 'coalesce')" in show_stmts(fi["body"], maxdepth=10).replace("&mut ", "&"), "pluck",
              "find_operator_impl must read the `coalesce` annotation", file=fi["file"], line=fi["l"], fn=fi["path"])


def r3(ctx, rep):
    rep.rule("C01.R3", "filters before the aggregate go to WHERE, those after it to HAVING, AND-ed in order", floor=5)
    syn = ctx.syn
    f = syn.fn("gen_query::translate_select_pipeline", crate="prqlc")
    import alpha
    A = alpha.Inliner(f)
    # the pair bound from `.break_up(|t| matches!(t, Aggregate | Union))`, whatever its names are
    first = second = None
    for st in f["body"]["s"]:
        if st.get("k") == "local" and st["pat"].get("k") == "p_tuple" and len(st["pat"]["e"]) == 2 and st.get("init", {}).get("k") == "mcall" and st["init"]["m"] == "break_up":
            if "Transform::Aggregate" in show_pat_any(st["init"]):
                first, second = [show(x).replace("mut ", "") for x in st["pat"]["e"]]
    rep.check(first is not None, "break-at-aggregate", "the pipeline must be broken up at the Aggregate", file=f["file"], line=f["l"], fn=f["path"])
    sel = None
    for n in walk(f["body"]):
        if n.get("k") == "struct" and last_seg(n["p"]) == "Select":
            sel = {a: A.show(b) for a, b in n["f"]}
    w, h = (sel or {}).get("selection"), (sel or {}).get("having")
    rep.check(first is not None and w == f"filter_of_conditions({first}.pluck(|_c0| _c0.into_filter()), ctx)?", "where", f"Select.selection (WHERE) must be built from the filters BEFORE the aggregate; found `{w}`", file=f["file"], line=f["l"], fn=f["path"])
    rep.check(second is not None and h == f"filter_of_conditions({second}.pluck(|_c0| _c0.into_filter()), ctx)?", "having", f"Select.having (HAVING) must be built from the filters AFTER the aggregate; found `{h}`", file=f["file"], line=f["l"], fn=f["path"])
    rep.check(sel is not None and "selection" in sel and "having" in sel, "select-fields", "the Select must carry a selection and a having field", file=f["file"], line=f["l"], fn=f["path"])
    a = syn.fn("gen_query::all", crate="prqlc")
    # by role: inside the loop that takes one more condition (`while let Some(e) = <list>.pop()` / a for loop / a fold), the accumulator is
    # re-built as Operator { name: "std.and" (literal or constant), args: [<that condition>, <accumulator>] } - conditions are popped from the
    # end, so the earlier one goes first
    from synq import const_str
    ok, st = False, None
    for n in walk(a["body"]):
        if n.get("k") == "struct" and last_seg(n["p"]) == "Operator":
            d = dict(n["f"])
            name = const_str(syn, a, d.get("name"))
            args = d.get("args")
            elems = [show(x) for x in (args.get("a") or args.get("e") or [])] if isinstance(args, dict) else []
            st = {"name": name, "args": elems}
            # the accumulator is the variable this Operator is assigned to; the other operand is bound by the enclosing loop pattern
            acc = None
            for asg in walk(a["body"]):
                if asg.get("k") == "assign" and any(x is n for x in walk(asg["rhs"])):
                    acc = show(asg["lhs"])
            ok = name == "std.and" and len(elems) == 2 and acc is not None and elems[1] == acc and elems[0] != acc
    rep.check(ok, "and", f"several conditions must be joined with std.and, earlier condition first (args: [the condition just taken, the accumulated one]); found {st}", file=a["file"], line=a["l"], fn=a["path"])


def show_pat_any(node):
    out = []
    for n in walk(node):
        if n.get("k") in ("p_struct", "p_ts", "p_path", "path"):
            out.append(n["p"])
    return " ".join(out)


def carrying_types(syn):
    """names of rq/pq types that (transitively) contain a column id"""
    adts = [a for a in syn.adts if a["crate"] == "prqlc" and ("/ir/rq/" in a["file"] or a["file"].endswith("ir/generic.rs") or a["file"].endswith("sql/pq/ast.rs"))]
    carrying = {"CId"}
    changed = True
    while changed:
        changed = False
        for a in adts:
            if a["name"] in carrying:
                continue
            tys = []
            if a["kind"] == "struct":
                tys = [f["ty"] for f in a["fields"]]
            elif a["kind"] == "enum":
                tys = [f["ty"] for v in a["variants"] for f in v["fields"]]
            elif a["kind"] == "alias":
                tys = [a["ty"]]
            for t in tys:
                toks = set(re.findall(r"[A-Za-z_][A-Za-z0-9_]*", t))
                # generic parameters named T / Rel / Super stand for carrying types in their uses
                if toks & carrying:
                    carrying.add(a["name"])
                    changed = True
                    break
    return carrying, {a["name"]: a for a in adts}


def r4(ctx, rep):
    rep.rule("C01.R4", "folds rebuild every cid-carrying field through the folder (redirects and collectors see every id)", floor=40)
    syn = ctx.syn
    carrying, adts = carrying_types(syn)
    carrying |= {"T", "Rel", "RelIn", "SuperIn"}  # generic slots instantiated with carrying types
    rev = {"Take.range": "take ranges hold integer literals only (validate_take_range); no column id can occur"}
    fns = [f for f in syn.fns if f["crate"] == "prqlc" and (f["file"].endswith("ir/rq/fold.rs") or f["file"].endswith("sql/pq/ast.rs"))
           and f["name"].startswith("fold_") and "body" in f and not f.get("trait_default") and not f.get("self_short")]

    def folded(expr):
        for n in walk(expr):
            if n.get("k") == "mcall" and n["m"].startswith("fold") and show(n["r"]) in ("fold", "self"):
                return True
            if n.get("k") == "call" and last_seg(show(n["f"])).startswith("fold_"):
                return True
        return False

    folded_expr = folded

    for f in fns:
        # an intermediate binding stands for its initialiser: `let keys = fold.fold_cids(partition)?; .. partition: keys`
        inits = {}
        for n in walk(f["body"]):
            if n.get("k") == "local" and n.get("init") is not None and n["pat"].get("k") == "p_ident":
                inits.setdefault(n["pat"]["n"], []).append(n["init"])
        # a name that a match arm, an `if let` or a closure binds as well is not followed: inside that arm it is the matched value, not the local
        for n in walk(f["body"]):
            pats = [a_["pat"] for a_ in n["arms"]] if n.get("k") == "match" else ([n["pat"]] if n.get("k") == "let" else (n.get("params", []) if n.get("k") == "closure" else []))
            for p_ in pats:
                for x in walk(p_):
                    if x.get("k") == "p_ident":
                        inits.pop(x["n"], None)

        def folded(expr, depth=0, _inits=inits):
            if folded_expr(expr):
                return True
            if depth < 3 and expr.get("k") == "path" and expr["p"] in _inits:
                return all(folded(i_, depth + 1) for i_ in _inits[expr["p"]])
            return False
        for n in walk(f["body"]):
            if n.get("k") != "struct":
                continue
            name = last_seg(n["p"])
            adt = adts.get(name)
            fields = None
            if adt and adt["kind"] == "struct":
                fields = {x["name"]: x["ty"] for x in adt["fields"]}
                owner = name
            else:
                # enum struct-variant: Owner::Variant { .. }
                segs = n["p"].split("::")
                for a in adts.values():
                    if a["kind"] == "enum":
                        for v in a["variants"]:
                            if v["name"] == name and v["shape"] == "struct" and (len(segs) == 1 or segs[-2] in (a["name"], "Self") or True):
                                fields = {x["name"]: x["ty"] for x in v["fields"]}
                                owner = a["name"] + "::" + name
            if fields is None:
                continue
            for fname, fval in n["f"]:
                ty = fields.get(fname)
                if ty is None:
                    continue
                toks = set(re.findall(r"[A-Za-z_][A-Za-z0-9_]*", ty))
                key = f"{f['name']}:{owner}.{fname}"
                if not (toks & carrying):
                    rep.ok(key, nontrivial=False)
                    continue
                if f"{owner}.{fname}" in rev or f"{name}.{fname}" in rev:
                    rep.ok(key, {"reviewed": rev.get(f"{owner}.{fname}") or rev.get(f"{name}.{fname}")})
                    continue
                rep.check(folded(fval), key,
                          f"{f['name']} rebuilds {owner}.{fname} ({ty}) as `{show(fval, maxdepth=5)}` without passing it through the folder: column ids inside it are invisible to "
                          "CidRedirector / CidCollector (they keep pre-split ids, or the columns are pruned as unused)",
                          file=f["file"], line=n["l"], fn=f["path"])
        # tuple variants in match arms: V(x) => V(<expr using x>)
        for m in matches_of(f["body"]):
            for arm in m["arms"]:
                for alt in pat_alts(arm["pat"]):
                    if alt.get("k") != "p_ts" or not alt.get("e"):
                        continue
                    vname = last_seg(alt["p"])
                    vty = None
                    for a in adts.values():
                        if a["kind"] == "enum":
                            for v in a["variants"]:
                                if v["name"] == vname and v["shape"] == "tuple":
                                    vty = " ".join(x["ty"] for x in v["fields"])
                                    owner = a["name"]
                    if vty is None:
                        continue
                    toks = set(re.findall(r"[A-Za-z_][A-Za-z0-9_]*", vty))
                    key = f"{f['name']}:{owner}::{vname}"
                    if not (toks & carrying):
                        rep.ok(key, nontrivial=False)
                        continue
                    rep.check(folded(arm["body"]), key,
                              f"{f['name']} rebuilds {owner}::{vname}({vty}) as `{show(arm['body'], maxdepth=5)}` without passing its payload through the folder",
                              file=f["file"], line=arm["l"], fn=f["path"])


def r5(ctx, rep):
    rep.rule("C01.R5", "join side names map to the join kind of the same name, in the resolver's two tables and in the SQL generator", floor=12)
    syn = ctx.syn
    f = syn.fn("resolve_special_func", crate="prqlc")
    n_tables = 0
    for m in matches_of(f["body"]):
        rows = {}
        for arm in m["arms"]:
            for alt in pat_alts(arm["pat"]):
                h = pat_head(alt)
                if isinstance(h, tuple) and h[0] == "lit" and isinstance(h[1], str):
                    b = show(arm["body"])
                    if b.startswith("JoinSide::"):
                        rows[h[1]] = last_seg(b)
        if len(rows) >= 3:
            n_tables += 1
            for name, side in rows.items():
                bare = name.strip('"')
                rep.check(bare == side.lower(), f"side:{n_tables}:{bare}", f"join side `{name}` is resolved to JoinSide::{side}", file=f["file"], line=m["l"], fn=f["path"])
            for want in ("inner", "left", "right", "full"):
                rep.check(any(k.strip('"') == want for k in rows), f"side:{n_tables}:has:{want}", f"join side table #{n_tables} has no row for `{want}`", file=f["file"], line=m["l"], fn=f["path"])
    rep.check(n_tables == 2, "side-tables", f"expected the bare-word table and the string-literal table of join sides, found {n_tables}", file=f["file"], line=f["l"], fn=f["path"])
    g = syn.fn("gen_query::translate_join", crate="prqlc")
    want = {"Inner": "Inner", "Left": "LeftOuter", "Right": "RightOuter", "Full": "FullOuter"}
    got = {}
    for m in matches_of(g["body"]):
        for arm in m["arms"]:
            h = pat_head(arm["pat"])
            if isinstance(h, str) and h.startswith("JoinSide::"):
                b = tail_expr(arm["body"]) if arm["body"].get("k") == "block" else arm["body"]
                got[last_seg(h)] = last_seg(show(b["f"])) if b.get("k") == "call" else show(b)
    for k, v in want.items():
        rep.check(got.get(k) == v, f"sql-join:{k}", f"JoinSide::{k} must be emitted as JoinOperator::{v}; found {got.get(k)}", file=g["file"], line=g["l"], fn=g["path"])


def plain_only(g):
    """the guard admits exactly Complexity::Plain: `c == Plain`, `Plain == c`, `matches!(c, Plain)`, `c <= Plain` (Plain is the least element)"""
    if g is None:
        return False
    if g.get("k") == "paren":
        return plain_only(g["e"])
    if g.get("k") == "macro" and g["n"] == "matches" and g.get("guard") is None:
        return show(g["a"][0]) == "infer_complexity(compute)" and show(g["pat"]) == "Complexity::Plain"
    t = show(g).strip("()")
    return t in ("infer_complexity(compute) == Complexity::Plain", "Complexity::Plain == infer_complexity(compute)", "infer_complexity(compute) <= Complexity::Plain",
                 "Complexity::Plain >= infer_complexity(compute)")


def r6(ctx, rep):
    rep.rule("C01.R6", "a compute is moved in front of a take only when it is plain (shared with C04.R7)", floor=2)
    syn = ctx.syn
    r = syn.fn("preprocess::reorder", crate="prqlc")
    mm = None
    for x in matches_of(r["body"]):
        if show(x["e"]) == "prev":
            mm = x
    if mm is None:
        raise AnchorMissing("reorder: match prev")
    take_arms = [a for a in mm["arms"] if "Take" in show(a["pat"])]
    ok = len(take_arms) == 1 and plain_only(take_arms[0].get("guard")) and show(take_arms[0]["body"]) == "true"
    rep.check(ok, "reorder:take", "an aggregate / window compute evaluated in the same SELECT as LIMIT sees all rows, not the taken ones: only Complexity::Plain computes may be hoisted above `take`", file=r["file"], line=mm["l"], fn=r["path"])
    movers = sorted(show(a["pat"]) for a in mm["arms"] if show(a["body"]) == "true")
    rep.check(movers == ["Super(Sort(_))", "Super(Take(_))"], "reorder:movable", f"computes may only move across Sort and (plain) Take; arms returning true: {movers}", file=r["file"], line=mm["l"], fn=r["path"])


def r7(ctx, rep):
    import re
    rep.rule("C01.R7", "the recognisers of EXCEPT / INTERSECT match exactly the join the std library defines `remove` / `intersect` with", floor=4)
    syn = ctx.syn
    src = open(os.path.join(ctx.repo if hasattr(ctx, "repo") else os.environ.get("VERIF_REPO", "/repo"), "prqlc/prqlc/src/semantic/std.prql")).read()
    want = {}
    for fn_name in ("intersect", "remove"):
        m = re.search(r"^let " + fn_name + r" = .*?\(\n(.*?)^\)", src, re.S | re.M)
        if not m:
            rep.bad(f"std:{fn_name}", f"definition of `{fn_name}` not found in std.prql")
            continue
        body = m.group(1)
        j = re.search(r"^\s*join\s+(side:(\w+)\s+)?", body, re.M)
        want[fn_name] = (j.group(2) if j and j.group(2) else "inner").capitalize() if j else None
        want[fn_name + ":filter-null"] = bool(re.search(r"^\s*filter\s+\(tuple_every \(tuple_map _is_null b\.\*\)\)", body, re.M))
    for rec, std_name in (("intersect", "intersect"), ("except", "remove")):
        f = syn.fn("preprocess::" + rec, crate="prqlc")
        sides = []
        for n in walk(f["body"]):
            if n.get("k") == "local" and n.get("else") is not None and n["pat"].get("k") == "p_struct" and last_seg(n["pat"]["p"]) == "Join":
                d = dict((a, b) for a, b in n["pat"]["f"])
                sides.append(last_seg(d["side"]["p"]) if "side" in d and d["side"].get("k") == "p_path" else None)
        rep.check(sides == [want.get(std_name)], f"recogniser:{rec}:side", f"preprocess::{rec} rewrites a join into a set operation; std.prql defines `{std_name}` with a {want.get(std_name)} join, "
                  f"so the recogniser must match only `JoinSide::{want.get(std_name)}` (found {sides}): any other join of the same shape has different rows", file=f["file"], line=f["l"], fn=f["path"])
    # `remove` is an anti-join: the recogniser of EXCEPT must also see the null filter
    f = syn.fn("preprocess::except", crate="prqlc")
    has_filter = any(n.get("k") == "local" and n.get("else") is not None and "Filter" in show(n["pat"], maxdepth=6) for n in walk(f["body"]))
    nulls = any(n.get("k") == "call" and last_seg(show(n["f"])) == "all_null" for n in walk(f["body"]))
    rep.check(want.get("remove:filter-null") and has_filter and nulls, "recogniser:except:null-filter", "EXCEPT is recognised only for a left join followed by the all-null filter on the bottom's columns (std.remove)",
              file=f["file"], line=f["l"], fn=f["path"])
    rep.check(want.get("intersect") == "Inner" and want.get("remove") == "Left", "std:sides", f"std.prql: intersect joins inner and remove joins left; found {want}")
    # a set operation has only the top's columns: both recognisers must give up when the output still uses a column of the bottom
    for rec in ("intersect", "except"):
        f = syn.fn("preprocess::" + rec, crate="prqlc")
        ok = False
        for n in walk(f["body"]):
            if n.get("k") == "if" and any(x.get("k") == "continue" for x in walk(n["t"])):
                c = show(n["c"], maxdepth=10)
                if "bottom" in c and "output.contains(" in c and ".any(" in c:
                    ok = True
        rep.check(ok, f"recogniser:{rec}:bottom-unused", f"preprocess::{rec} must skip the rewrite (`continue`) when any column of the bottom relation is in the output: "
                  "after the rewrite those columns do not exist, so they silently vanish from the result", file=f["file"], line=f["l"], fn=f["path"])
    _adjacent_distinct(ctx, rep)
    _only_equalities(ctx, rep)
    _pairs_by_position(ctx, rep)


def _only_equalities(ctx, rep):
    """`collect_equals` turns a conjunction of equalities into two lists; a condition with any other conjunct (`a.x == b.x && a.y > 5`)
    is not a set operation, so the fallback arm of its match over the expression kind must leave the function without a pair of lists."""
    syn = ctx.syn
    f = syn.fn("preprocess::collect_equals", crate="prqlc")
    ms = [m for m in matches_of(f["body"]) if any("std.eq" in strs(a.get("guard") or {}) or "std.eq" in show(a.get("guard"), maxdepth=10) for a in m["arms"])]
    if not ms:
        rep.bad("recogniser:collect_equals:only-equalities", "the match of collect_equals that recognises `std.eq` was not found", file=f["file"], line=f["l"], fn=f["path"])
        return
    m = ms[0]
    fallback = [a for a in m["arms"] if any(alt.get("k") == "p_wild" or (alt.get("k") == "p_ident" and not alt.get("sub")) for alt in pat_alts(a["pat"]))]
    ok = True
    why = "no fallback arm (the match is exhaustive over the kinds it accepts)"
    for a in fallback:
        b = a["body"]
        leaves = [b] if b.get("k") != "block" else ([tail_expr(b)] if tail_expr(b) is not None else []) + [s for s in b.get("s", []) if s.get("k") in ("return", "macro")]
        div = [x for x in leaves if x is not None and (x.get("k") == "return" or (x.get("k") == "macro" and x.get("n") in ("bail", "unreachable", "panic")))]
        if not div:
            ok, why = False, f"the `_` arm is `{show(b, maxdepth=6)}`: the conjunct is skipped and the remaining equalities are returned"
        else:
            for d in div:
                t = show(d.get("e"), maxdepth=8) if d.get("k") == "return" else ""
                if "Some" in t or "lefts" in t:
                    ok, why = False, f"the `_` arm returns `{t}`"
                else:
                    why = f"the `_` arm leaves with `{show(d, maxdepth=8)}`"
    rep.check(ok, "recogniser:collect_equals:only-equalities",
              "collect_equals must give up on a condition that contains anything but equalities joined by `and`: " + why +
              " — `join b (a.x == b.x && a.y == b.y && a.x > 5)` over all columns would be rewritten into INTERSECT / EXCEPT and the extra condition lost",
              detail=why, file=f["file"], line=f["l"], fn=f["path"])


def _pairs_by_position(ctx, rep):
    """A set operation matches the columns of its operands by position; the join it is recognised from must therefore equate column i of the
    top with column i of the bottom. A test that looks at each side of the equalities separately (`all_in(top, lefts) && all_in(bottom, rights)`)
    cannot tell `a.x == b.y && a.y == b.x` from the positional pairing: some predicate of the skip guards has to see both column lists and both sides."""
    syn = ctx.syn
    for rec in ("intersect", "except"):
        f = syn.fn("preprocess::" + rec, crate="prqlc")
        # roles: top = columns of the pipeline so far, bottom = columns of the joined relation, (L, R) = sides of the join condition's equalities
        top = bottom = None
        cond_var = None
        for n in walk(f["body"]):
            if n.get("k") == "local" and n.get("else") is not None and n["pat"].get("k") == "p_struct" and last_seg(n["pat"]["p"]) == "Join":
                d = dict((a, b) for a, b in n["pat"]["f"])
                if "filter" in d:
                    cond_var = d["filter"].get("n") or "filter"
            if n.get("k") == "local" and n.get("init") is not None and n["pat"].get("k") == "p_ident":
                t = show(n["init"], maxdepth=10)
                if "determine_select_columns(" in t and "[" in t:
                    top = n["pat"]["n"]
                elif "table_ref.columns" in t:
                    bottom = n["pat"]["n"]
        sides = None
        for n in walk(f["body"]):
            if n.get("k") == "local" and n.get("init") is not None and cond_var:
                t = show(n["init"], maxdepth=8)
                if re.match(r"collect_equals\(&?" + re.escape(cond_var) + r"\)", t):
                    names = [x["n"] for x in walk(n["pat"]) if x.get("k") == "p_ident"]
                    if len(names) == 2:
                        sides = names
        if not (top and bottom and sides):
            rep.bad(f"recogniser:{rec}:pairs-by-position", f"roles not found in preprocess::{rec} (top={top}, bottom={bottom}, join condition={cond_var}, sides={sides}) — fail closed",
                    file=f["file"], line=f["l"], fn=f["path"])
            continue
        want = {top, bottom, sides[0], sides[1]}
        seen = []
        for n in walk(f["body"]):
            if n.get("k") == "if" and any(x.get("k") == "continue" for x in walk(n["t"])):
                for c in walk(n["c"]):
                    if c.get("k") in ("call", "mcall"):
                        mentioned = {p for p in paths(c) if p in want}
                        if sides[0] in mentioned or sides[1] in mentioned:
                            seen.append((show(c, maxdepth=8), mentioned))
        ok = any(m == want for _, m in seen)
        rep.check(ok, f"recogniser:{rec}:pairs-by-position",
                  f"preprocess::{rec}: no skip guard tests the pairing of `{top}` and `{bottom}` through the equalities (`{sides[0]}`, `{sides[1]}`) in one predicate "
                  f"(found {[s for s, _ in seen]}): tests of one side at a time accept `x == b.y && y == b.x`, which is not the positional INTERSECT / EXCEPT",
                  detail=[s for s, _ in seen], file=f["file"], line=f["l"], fn=f["path"])
    # the predicate itself: it compares a position in the top with a position in the bottom
    g = syn.fn_opt("preprocess::pairs_by_position", crate="prqlc")
    if g is not None:
        t = show_stmts(g["body"], maxdepth=14) if g["body"].get("k") == "block" else show(g["body"], maxdepth=14)
        npos = len([1 for n in walk(g["body"]) if n.get("k") == "mcall" and n["m"] in ("position", "find_position", "enumerate", "zip")])
        rep.check(npos >= 2, "recogniser:pairs_by_position:compares-positions", "pairs_by_position no longer relates positions of the two column lists "
                  f"({npos} position / zip / enumerate step(s))", file=g["file"], line=g["l"], fn=g["path"])


def _adjacent_distinct(ctx, rep):
    """DISTINCT-ness of a recognised set operation is read from the transform that directly precedes the join (or directly follows it)."""
    import re
    from guards import parents
    syn = ctx.syn
    for rec in ("intersect", "except"):
        f = syn.fn("preprocess::" + rec, crate="prqlc")
        par = parents(f["body"])
        # offset of the join in the accumulated pipeline: `let SqlTransform::Join {..} = &res[res.len() - J] else`
        J = None
        for n in walk(f["body"]):
            if n.get("k") == "local" and n.get("else") is not None and n["pat"].get("k") == "p_struct" and last_seg(n["pat"]["p"]) == "Join":
                m = re.search(r"\[\(?(\w+)\.len\(\) - (\d+)\)?\]", show(n.get("init"), maxdepth=8))
                if m:
                    acc, J = m.group(1), int(m.group(2))
        if J is None:
            rep.bad(f"recogniser:{rec}:distinct-adjacent", "the position of the recognised Join in the accumulated pipeline was not found", file=f["file"], line=f["l"], fn=f["path"])
            continue
        # (`<acc>.last()` is that same transform once the recognised join has been popped, and the join itself before)
        allowed = {f"&{acc}[({acc}.len() - {J + 1})]", f"{acc}[({acc}.len() - {J + 1})]", "pipeline.peek()", f"&{acc}.last()", f"{acc}.last()"}
        # every test of the `Distinct` variant in the recogniser looks at one of those positions (whatever the test is written as:
        # `if let`, `matches!`, a match arm; stored in a flag or a `let`)
        writes, bad = 0, []
        for n in walk(f["body"]):
            scr = None
            if n.get("k") == "let" and re.search(r"\bDistinct\b", show(n["pat"])) and "DistinctOn" not in show(n["pat"]):
                scr = show(n["e"], maxdepth=8)
            elif n.get("k") == "macro" and n["n"] == "matches" and n.get("a") and re.search(r"\bDistinct\b", show(n["pat"])) and "DistinctOn" not in show(n["pat"]):
                scr = show(n["a"][0], maxdepth=8)
            elif n.get("k") == "match" and any(re.search(r"\bDistinct\b", show(a["pat"])) and "DistinctOn" not in show(a["pat"]) for a in n["arms"]):
                scr = show(n["e"], maxdepth=8)
            if scr is None:
                continue
            writes += 1
            if scr not in allowed:
                bad.append(scr)
        rep.check(writes >= 1 and not bad, f"recogniser:{rec}:distinct-adjacent", f"preprocess::{rec} decides `DISTINCT` from {bad}; only the transform next to the recognised join ({sorted(allowed)}) says whether "
                  "the top relation is distinct at that point — a Distinct further up followed by a row-multiplying join would turn EXCEPT/INTERSECT ALL into the DISTINCT form and drop duplicate rows",
                  file=f["file"], line=f["l"], fn=f["path"])


def r8(ctx, rep):
    # which rows `take` returns depends on the order in effect: C03's transfer table and ORDER-BY-before-LIMIT rules are necessary for C01 too
    import C03
    rep.borrowed(C03.r1_r2, ctx, "C01.R8", "the rows a take returns are those of the order in effect")


def r13(ctx, rep):
    # which rows `take a..b | take c..d` returns is arithmetic on positions: C03's composition / LIMIT / OFFSET formulas are necessary for C01 too
    import C03
    rep.borrowed(C03.r5, ctx, "C01.R13", "the rows a composed take returns are those at the documented positions")


def r14(ctx, rep):
    # the rows of a relation literal are values of the denoted relation: each field must land in the column of its name
    import C08
    rep.borrowed(C08.r8, ctx, "C01.R14", "the rows of a relation literal are placed under the columns their fields name")


def r9(ctx, rep):
    rep.rule("C01.R9", "the two functions that compute the row of a pipeline agree on what an Aggregate outputs", floor=2)
    syn = ctx.syn
    a = syn.fn("AnchorContext::determine_select_columns", crate="prqlc")
    b = syn.fn("positional_mapping::compute_positional_mappings", crate="prqlc")

    def agg_fields(f):
        out = []
        for m in matches_of(f["body"]):
            for arm in m["arms"]:
                for alt in pat_alts(arm["pat"]):
                    for n in walk(alt):
                        if n.get("k") == "p_struct" and last_seg(n["p"]) == "Aggregate":
                            bound = [x[0] for x in n["f"]]
                            used = [v for v in bound if any(y.get("k") == "path" and y["p"] == v for y in walk(arm["body"]))]
                            out.append((arm["l"], used))
        return out
    fa, fb = agg_fields(a), agg_fields(b)
    rep.check(len(fa) == 1 and fa[0][1] == ["partition", "compute"], "aggregate-row:determine_select_columns",
              f"determine_select_columns must give an Aggregate the row partition ++ compute (GROUP BY columns, then the aggregates); found {fa}", file=a["file"], line=a["l"], fn=a["path"])
    rep.check(len(fb) == 1 and fa and fb[0][1] == fa[0][1], "aggregate-row:compute_positional_mappings",
              f"compute_positional_mappings tracks the row of the top operand to align a set operation's bottom operand by position; for an Aggregate it uses {fb[0][1] if fb else None} while "
              f"determine_select_columns (the row that is emitted) uses {fa[0][1] if fa else None}: the stored mapping is then one column short and the bottom operand loses its aggregate column",
              file=b["file"], line=fb[0][0] if fb else b["l"], fn=b["path"])


def r10(ctx, rep):
    rep.rule("C01.R10", "a relation taken out of its declaration to be defined is either emitted as a CTE or put back on every path", floor=1)
    import flow
    syn = ctx.syn
    n_sites = 0
    for f in syn.fns:
        if f["crate"] != "prqlc" or "body" not in f or "/sql/" not in f["file"]:
            continue
        for n in walk(f["body"]):
            # role anchor: `if let RelationStatus::NotYetDefined(r) = <decl>.relation.take_to_define() { .. }` with no else: the declaration is now marked Defined
            if n.get("k") == "if" and n["c"].get("k") == "let" and any(x.get("k") == "mcall" and x["m"] == "take_to_define" for x in walk(n["c"]["e"])) and n.get("e") is None:
                n_sites += 1

                # what was taken out: the binding of `NotYetDefined(<taken>)`
                taken = [y["n"] for y in walk(n["c"]["pat"]) if y.get("k") == "p_ident"]

                def done(x, taken=taken):
                    if x.get("k") == "mcall" and x["m"] == "push" and show(x["r"], maxdepth=5).endswith(".ctes") and any(y.get("k") == "struct" and last_seg(y["p"]) == "Cte" for y in walk(x)):
                        return True
                    if x.get("k") == "assign" and show(x["lhs"], maxdepth=5).endswith(".relation") and "NotYetDefined(" in show(x["rhs"], maxdepth=6):
                        # .. and what is put back is what was taken (not a compiled or otherwise derived form of it: a later reference compiles it
                        # again in ITS context - column order, pruning -, which a cached result of the first reference does not have)
                        m_ = re.search(r"NotYetDefined\((.*)\)$", show(x["rhs"], maxdepth=8))
                        payload = re.sub(r"\.(clone|to_owned)\(\)$", "", m_.group(1).strip()) if m_ else ""
                        return payload in taken
                    return False
                bad = flow.must_precede_exits(n["t"], done)
                rep.check(not bad, f"defined-or-restored:{f['name']}", f"{f['path']}: after take_to_define() the declaration says `Defined`; the exit(s) at {bad} neither push a `Cte` for it nor restore "
                          "`NotYetDefined`: the next reference to the same let-table is emitted as a bare `FROM name` although no CTE of that name exists (or reads a real table of that name)",
                          file=f["file"], line=n["l"], fn=f["path"])
    rep.check(n_sites >= 1, "sites", f"expected the take_to_define() site of compile_relation_instance, found {n_sites}")


def r11(ctx, rep):
    # UNION vs UNION ALL, EXCEPT vs INTERSECT: which rows the set operation returns
    import C07
    rep.borrowed(C07.r16, ctx, "C01.R11", "append keeps duplicates (ALL) and each set transform becomes the operator of its name")


def r12(ctx, rep):
    rep.rule("C01.R12", "an ungrouped aggregate yields one row even when none of its columns is used: the placeholder of its empty projection aggregates", floor=1)
    import alpha
    import boolfn
    import guards as _g
    syn = ctx.syn
    # role anchor: the function of sql/gen_query.rs that plucks the Aggregate out of the pipeline (`into_aggregate`) and owns `projection`
    fs = [f for f in syn.fns_in_file("sql/gen_query.rs") if "body" in f and any(x.get("k") == "mcall" and x["m"] == "into_aggregate" for x in walk(f["body"]))]
    if not fs:
        raise AnchorMissing("sql/gen_query.rs: no function plucks `into_aggregate()`")
    f = fs[0]
    par = _g.parents(f["body"])
    A = alpha.Inliner(f)
    agg_re = re.compile(r"^(COUNT|MIN|MAX|SUM)\(")
    # writes of an aggregate-call placeholder into the projection (`projection[i] = ..`, `projection.push(..)`, `*item = ..`)
    sites = []
    for n in walk(f["body"]):
        val = None
        if n.get("k") == "assign":
            val = n["rhs"]
        elif n.get("k") == "mcall" and n["m"] in ("push", "insert") and n["a"]:
            val = n["a"][-1]
        if val is None:
            continue
        if any(x.get("k") == "lit" and x.get("t") == "str" and agg_re.match(str(x.get("v"))) for x in walk(val)):
            sites.append(n)

    def holds(n, agg, empty):
        """conjunction of the conditions of all enclosing `if`s (then-branches), with the tests of "the projection is the lone NULL placeholder" taken as true"""
        cur = n
        while id(cur) in par:
            p = par[id(cur)]
            if p.get("k") == "if":
                in_then = p.get("t") is cur or _g._contains(p.get("t"), cur)
                in_else = p.get("e") is not None and (p["e"] is cur or _g._contains(p["e"], cur))
                if in_then or in_else:
                    c = p["c"]
                    if c.get("k") == "let" or (c.get("k") == "macro" and c.get("n") == "matches" and "Null" in show(c.get("pat"))):
                        v = True          # `if let <placeholder pattern> = projection[..]` / `matches!(.., Value::Null)`: the placeholder case
                        if in_else:
                            return False
                    else:
                        def atom(t):
                            t = t.replace(" ", "")
                            if "into_aggregate" in t and t.endswith(".is_some()"):
                                return agg
                            if "into_aggregate" in t and t.endswith(".is_none()"):
                                return not agg
                            if re.search(r"(group_by|partition|part)\)*\.is_empty\(\)$", t) or ("into_aggregate" in t and t.endswith(".is_empty()")):
                                return empty
                            if "projection" in t or "Value::Null" in t or t.startswith("v.") or "placeholder" in t.lower():
                                return True
                            return None
                        def ev(x):
                            k = x.get("k")
                            if k == "paren":
                                return ev(x["e"])
                            if k == "bin" and x["op"] == "&&":
                                return ev(x["lhs"]) and ev(x["rhs"])
                            if k == "bin" and x["op"] == "||":
                                return ev(x["lhs"]) or ev(x["rhs"])
                            if k == "un" and x["op"] == "!" and "projection" not in show(x):
                                return not ev(x["e"])
                            if "projection" in show(x, maxdepth=8):
                                return True       # a test of the projection: the lone-placeholder case is the one under study
                            return boolfn.ev(x, atom, A)
                        v = ev(c)
                        if in_else:
                            v = not v
                    if not v:
                        return False
            cur = p
        return True
    ok, why = False, "no write of an aggregate placeholder (`COUNT(*)`) into the projection was found"
    for n in sites:
        try:
            tt = {(a, e): holds(n, a, e) for a in (True, False) for e in (True, False)}
        except boolfn.Unknown as e:
            why = f"the condition around the placeholder write at line {n['l']} could not be evaluated ({e})"
            continue
        if tt[(True, True)] and not tt[(False, True)] and not tt[(False, False)]:
            ok = True
        else:
            why = f"the placeholder write at line {n['l']} happens for (aggregate present, no group) = {[k for k, v in tt.items() if v]}; it must happen for (True, True) and never without an aggregate"
    rep.check(ok, "ungrouped-aggregate-placeholder", f"{f['path']}: when every column of an ungrouped `aggregate` is unused the projection is the NULL placeholder and `SELECT NULL FROM t` returns one row "
              f"per input row instead of one row: {why}", file=f["file"], line=f["l"], fn=f["path"])


def m_guard_free(cond):
    """the `matches!` in the condition has no `if` guard (a guard narrows what is dropped, which is fine, or widens nothing; it is simply not the reviewed shape)"""
    return not any(m.get("k") == "macro" and m.get("n") == "matches" and m.get("guard") is not None for m in walk(cond))


def r15(ctx, rep):
    """Where the pipeline is cut into sub-queries is the compiler's choice; that every transform ends up in exactly one of the two parts is not.
    `split_off_back` pops transforms off the end of the pipeline one at a time. A popped transform is either given back (the cut is in front
    of it: push-back, then leave the loop) or moved into the part being built; nothing else may happen to it."""
    from guards import parents
    rep.rule("C01.R15", "split_off_back: a transform popped off the pipeline is pushed back before the loop is left, or moved into the atomic part "
             "(only a Select is dropped, it is rebuilt); the part is reversed once; what the rest must provide is what is required and not available", floor=6)
    syn = ctx.syn
    f = syn.fn("anchor::split_off_back", crate="prqlc")
    par = parents(f["body"])
    loop = None
    for n in walk(f["body"]):
        if n.get("k") == "while" and n["c"].get("k") == "let" and n["c"]["e"].get("k") == "mcall" and n["c"]["e"]["m"] == "pop":
            names = [x["n"] for x in walk(n["c"]["pat"]) if x.get("k") == "p_ident"]
            if len(names) == 1:
                loop, src, var = n, show(n["c"]["e"]["r"]), names[0]
    if loop is None:
        raise AnchorMissing("split_off_back: `while let Some(t) = <pipeline>.pop()`")
    loc = dict(file=f["file"], fn=f["path"])

    def is_push(n, recv=None, arg=None):
        return (n.get("k") == "mcall" and n["m"] == "push" and len(n["a"]) == 1 and (recv is None or show(n["r"]) == recv) and (arg is None or show(n["a"][0]) == arg))

    # (a) every way out of the pop loop other than its exhausted condition gives the transform back first
    def enclosing_loops(n):
        out, cur = [], n
        while id(cur) in par:
            cur = par[id(cur)]
            if cur.get("k") in ("while", "loop", "for"):
                out.append(cur)
            if cur is loop:
                break
        return out
    n_exits = 0
    for b in walk(loop["body"]):
        if b.get("k") not in ("break", "return"):
            continue
        loops = enclosing_loops(b)
        if b["k"] == "break":
            target = loops[0] if loops else None
            if b.get("label"):
                target = next((l for l in loops if l.get("label") == b["label"]), None)
            if target is not loop:
                # a break of an inner loop: control stays in the pop loop. It must not skip the statement that keeps the transform:
                # that is decided in (b) by where the keeping push stands (after the inner loop, at the level of the loop body)
                rep.check(target is not None, f"pop-loop:inner-break:{b['l'] - loop['l']}" if False else "pop-loop:inner-break", "break with an unknown label", line=b["l"], **loc)
                continue
        n_exits += 1
        blk = par.get(id(b))
        stmts = blk.get("s", []) if blk and blk.get("k") == "block" else []
        before = stmts[:next((i for i, x in enumerate(stmts) if x is b), 0)]
        ok = any(is_push(x, src, var) for x in before)
        rep.check(ok, f"pop-loop:exit-gives-back:{n_exits}", f"split_off_back leaves its loop (`{show(b)}`) without `{src}.push({var})` in front of it: the transform that was popped "
                  "is in neither part of the split and disappears from the query", line=b["l"], **loc)
    # a transform that was given back is not kept as well: after `<src>.push(<var>)` control leaves the pop loop
    for blk in walk(loop["body"]):
        if blk.get("k") != "block":
            continue
        st = blk.get("s", [])
        for i, x in enumerate(st):
            if is_push(x, src, var):
                nxt = st[i + 1] if i + 1 < len(st) else None
                leaves = False
                if nxt is not None and nxt.get("k") == "return":
                    leaves = True
                if nxt is not None and nxt.get("k") == "break":
                    loops = enclosing_loops(nxt)
                    target = loops[0] if loops else None
                    if nxt.get("label"):
                        target = next((l for l in loops if l.get("label") == nxt["label"]), None)
                    leaves = target is loop
                rep.check(leaves, "pop-loop:given-back-leaves", f"split_off_back gives the transform back (`{src}.push({var})`) and then does not leave the pop loop "
                          f"(next: `{show(nxt) if nxt else 'end of block'}`): the transform is in the rest and, a few lines on, in the part being built as well", line=x["l"], **loc)
    rep.check(n_exits >= 2, "pop-loop:exits", f"expected the loop to be left where a split is required and where a compute cannot be materialised, found {n_exits} exit(s)", line=loop["l"], **loc)
    # (b) the transform is kept: a push of it into another vector at the level of the loop body, conditional at most on its not being a Select
    keeps = []
    for st in loop["body"].get("s", []):
        for n in walk(st):
            if is_push(n, None, var) and show(n["r"]) != src:
                keeps.append((st, n))
    ok, why = False, "no statement of the loop body moves the popped transform into the part being built"
    for st, n in keeps:
        if st is n or (st.get("k") == "mcall" and st is n):
            ok, why = True, "unconditional"
        elif st.get("k") == "if" and st.get("e") is None:
            c = show(st["c"], maxdepth=10)
            pats = [show(m.get("pat"), maxdepth=8) for m in walk(st["c"]) if m.get("k") == "macro" and m.get("n") == "matches"]
            alts = [show(a_, maxdepth=8) for m in walk(st["c"]) if m.get("k") == "macro" and m.get("n") == "matches" for a_ in pat_alts(m.get("pat") or {})]
            if c.startswith("!") and len(pats) == 1 and alts and all(re.search(r"\bSelect\b", a_) for a_ in alts) and "&&" not in c and "||" not in c and m_guard_free(st["c"]):
                ok, why = True, "all but Select"
            else:
                why = f"the transform is kept only under `{c}`; anything but `not a Select` drops transforms from the query"
        else:
            why = f"the keeping push is inside `{show(st, maxdepth=3)[:60]}`"
    rep.check(ok, "pop-loop:keeps", "split_off_back: " + why, detail=why, line=loop["l"], **loc)
    acc = show(keeps[0][1]["r"]) if keeps else None
    # (c) the part is collected back to front: reversed exactly once, after the loop and after its Select was appended
    if acc:
        revs = [n for n in walk(f["body"]) if n.get("k") == "mcall" and n["m"] == "reverse" and show(n["r"]) == acc]
        in_loop = [n for n in revs if any(n is x for x in walk(loop))]
        sel_push = [n for n in walk(f["body"]) if is_push(n, acc) and "Select" in show(n["a"][0], maxdepth=8)]
        ok = len(revs) == 1 and not in_loop and len(sel_push) == 1 and sel_push[0]["l"] < revs[0]["l"] and loop["l"] < sel_push[0]["l"]
        rep.check(ok, "part:reversed-once", f"split_off_back collects `{acc}` back to front: one `.reverse()` after the loop and after the one push of its Select "
                  f"(found {len(revs)} reverse(s), {len(in_loop)} inside the loop, {len(sel_push)} Select push(es))", line=loop["l"], **loc)
    # (d) the rest of the pipeline is asked for exactly the required columns that this part cannot provide itself
    avail = None
    for n in walk(loop["body"]):
        if n.get("k") == "mcall" and n["m"] == "insert" and len(n["a"]) == 1 and re.search(r"\.id$", show(n["a"][0])):
            avail = show(n["r"])
    neg_tests = [n for n in walk(f["body"]) if n.get("k") == "un" and n.get("op") == "!" and n["e"].get("k") == "mcall" and n["e"]["m"] == "contains" and avail and show(n["e"]["r"]) == avail]
    pos_tests = [n for n in walk(f["body"]) if n.get("k") == "mcall" and n["m"] == "contains" and avail and show(n["r"]) == avail]
    rep.check(avail is not None and len(neg_tests) == 1 and len(pos_tests) == 1, "rest:missing-is-required-minus-available",
              f"split_off_back: the columns asked of the preceding sub-query are those `!{avail}.contains(..)` (found {len(neg_tests)} negated of {len(pos_tests)} membership test(s) on the set of columns this part provides): "
              "asking for an available column selects it twice, not asking for a missing one leaves a dangling reference", line=loop["l"], **loc)
    # (e) the rest gets its Select only when there is a rest
    tail = [n for n in walk(f["body"]) if n.get("k") == "if" and re.fullmatch(r"!?" + re.escape(src) + r"\.is_empty\(\)", show(n["c"]))]
    ok = False
    for n in tail:
        neg = show(n["c"]).startswith("!")
        empty_b, rest_b = (n.get("e"), n["t"]) if neg else (n["t"], n.get("e"))
        if empty_b is None or rest_b is None:
            continue
        e_txt, r_txt = show(empty_b, maxdepth=8), show_stmts(rest_b, maxdepth=10) if rest_b.get("k") == "block" else show(rest_b, maxdepth=10)
        if "None" in e_txt and "push" not in e_txt and any(is_push(x, src) and "Select" in show(x["a"][0], maxdepth=8) for x in walk(rest_b)) and f"Some({src})" in r_txt:
            ok = True
    rep.check(ok, "rest:select-iff-rest", f"split_off_back returns `None` for an exhausted pipeline and `Some({src})` with a Select of the missing columns pushed otherwise", line=loop["l"], **loc)


def r16(ctx, rep):
    """`anchor_split` turns the front part of a pipeline into a relation of its own and re-anchors the back part on it. Every column that crosses
    the cut gets one fresh id, is offered by the new relation under that id at the position it had, and every reference behind the cut is
    redirected to it; the back part then reads from the new relation first."""
    from guards import parents
    rep.rule("C01.R16", "anchor_split: one fresh column id per column at the cut, registered as redirect old -> new and as column of the new relation in the same "
             "iteration and unconditionally; the back part starts with From(new relation) and is passed through the redirector", floor=5)
    syn = ctx.syn
    f = syn.fn("pq::anchor::anchor_split", crate="prqlc")
    loc = dict(file=f["file"], fn=f["path"])
    # the loop over the columns at the cut: the one whose body generates a column id
    loop = None
    for n in walk(f["body"]):
        if n.get("k") == "for" and any(x.get("k") == "mcall" and x["m"] == "gen" and show(x["r"]).endswith(".cid") for x in walk(n["body"])):
            loop = n
    if loop is None:
        raise AnchorMissing("anchor_split: the loop that generates a column id per column at the cut")
    old = [x["n"] for x in walk(loop["pat"]) if x.get("k") == "p_ident"]
    new = None
    top = loop["body"].get("s", [])
    for st in top:
        if st.get("k") == "local" and st.get("init") is not None and st["init"].get("k") == "mcall" and st["init"]["m"] == "gen" and show(st["init"]["r"]).endswith(".cid") and st["pat"].get("k") == "p_ident":
            new = st["pat"]["n"]
    rep.check(len(old) == 1 and new is not None, "cut:fresh-id-per-column", "anchor_split binds one fresh id (`<ctx>.cid.gen()`) per column at the cut, at the top level of the loop body", line=loop["l"], **loc)
    if not (len(old) == 1 and new):
        return
    old = old[0]

    def strip(t):
        return t.replace("*", "").replace("&", "").replace(" ", "")
    redirect = [st for st in top if st.get("k") == "mcall" and st["m"] == "insert" and len(st["a"]) == 2 and strip(show(st["a"][0])) == old and strip(show(st["a"][1])) == new]
    all_redirect = [n for n in walk(loop["body"]) if n.get("k") == "mcall" and n["m"] == "insert" and len(n["a"]) == 2 and strip(show(n["a"][1])) == new and strip(show(n["a"][0])) == old]
    rep.check(len(redirect) == 1 and len(all_redirect) == 1, "cut:redirect-recorded", f"anchor_split records `{old} -> {new}` once per column, unconditionally (found {len(redirect)} at the top level of the loop body, "
              f"{len(all_redirect)} in all): a column without redirect keeps its old id behind the cut, where nothing defines it", line=loop["l"], **loc)
    cols = [st for st in top if st.get("k") == "mcall" and st["m"] == "push" and len(st["a"]) == 1 and st["a"][0].get("k") == "tuple" and len(st["a"][0]["e"]) == 2 and strip(show(st["a"][0]["e"][1])) == new]
    rep.check(len(cols) == 1, "cut:column-offered", f"anchor_split appends `(column, {new})` to the new relation's columns once per column, unconditionally and in order (found {len(cols)} push(es) at the top level of the loop body)",
              line=loop["l"], **loc)
    maps = show(redirect[0]["r"]) if redirect else None
    colv = show(cols[0]["r"]) if cols else None
    # both reach create_relation_instance
    cri = [n for n in walk(f["body"]) if n.get("k") == "mcall" and n["m"] == "create_relation_instance"]
    ok = len(cri) == 1 and maps and colv and maps in [show(a) for a in cri[0]["a"]] and re.search(r"\bcolumns(: " + re.escape(colv) + r")?\b", show(cri[0]["a"][0], maxdepth=8)) is not None
    if ok:
        d = dict((k_, v_) for k_, v_ in cri[0]["a"][0].get("f", [])) if cri[0]["a"][0].get("k") == "struct" else {}
        ok = "columns" in d and show(d["columns"]) == colv
    rep.check(ok, "cut:instance-gets-both", f"the relation instance is created from the collected columns (`{colv}`) and the redirects (`{maps}`)", line=loop["l"], **loc)
    riid = None
    par = parents(f["body"])
    if cri:
        p_ = par.get(id(cri[0]))
        if p_ and p_.get("k") == "local" and p_["pat"].get("k") == "p_ident":
            riid = p_["pat"]["n"]
    ins = [n for n in walk(f["body"]) if n.get("k") == "mcall" and n["m"] == "insert" and len(n["a"]) == 2 and "From" in show(n["a"][1]) and riid and riid in show(n["a"][1])]
    ok = len(ins) == 1 and lit_val(ins[0]["a"][0]) in (0, "0")
    back = show(ins[0]["r"]) if ins else None
    rep.check(ok, "back:from-first", f"the back part gets `From({riid})` inserted at position 0 (found {[show(i, maxdepth=6) for i in ins]})", line=f["l"], **loc)
    t = tail_expr(f["body"])
    tt = show(t, maxdepth=8) if t is not None else ""
    rep.check(back is not None and re.fullmatch(r"CidRedirector::redirect_pipeline\(" + re.escape(back or "") + r", \w+\)", tt) is not None, "back:redirected",
              f"anchor_split returns the back part passed through `CidRedirector::redirect_pipeline` (found `{tt}`)", line=f["l"], **loc)


def r17(ctx, rep):
    """The redirector that re-anchors the back part of a split: a column id is replaced by its redirect when it has one and left alone otherwise,
    a re-anchored compute is registered in its *redirected* form, and every other transform goes through the generic folder."""
    rep.rule("C01.R17", "CidRedirector: fold_cid = redirect or identity; a redirected compute is registered as redirected; other transforms are folded; "
             "the redirects are those of the pipeline's first From", floor=5)
    syn = ctx.syn
    fc = next((f for f in syn.fns if f["crate"] == "prqlc" and f["file"].endswith("pq/anchor.rs") and f["name"] == "fold_cid" and f.get("self_short") == "CidRedirector"), None)
    ft = next((f for f in syn.fns if f["crate"] == "prqlc" and f["file"].endswith("pq/anchor.rs") and f["name"] == "fold_transform" and f.get("self_short") == "CidRedirector"), None)
    of = syn.fn_opt("CidRedirector::of_first_from", crate="prqlc")
    if fc is None or ft is None or of is None:
        raise AnchorMissing("CidRedirector::{fold_cid, fold_transform, of_first_from}")
    loc = dict(file=fc["file"], fn=fc["path"])
    params = [x["n"] for p_ in fc["params"] for x in walk(p_) if x.get("k") == "p_ident" and x["n"] != "self"]
    cid = params[0] if params else None
    gets = [n for n in walk(fc["body"]) if n.get("k") == "mcall" and n["m"] in ("get", "get_mut", "remove", "contains_key")]
    ok_get = len(gets) == 1 and gets[0]["m"] == "get" and re.search(r"redirects?$", show(gets[0]["r"])) is not None and show(gets[0]["a"][0]).replace("&", "") == cid
    rep.check(ok_get, "fold_cid:looks-up-argument", f"fold_cid looks its argument up in the redirect map, once, without removing the entry (found {[show(g, maxdepth=5) for g in gets]})", line=fc["l"], **loc)
    # identity for unmapped ids: the parameter itself is the alternative (unwrap_or(cid) / None => cid / else { cid })
    fallback = False
    for n in walk(fc["body"]):
        if n.get("k") == "mcall" and n["m"] in ("unwrap_or",) and len(n["a"]) == 1 and show(n["a"][0]) == cid:
            fallback = True
        if n.get("k") == "mcall" and n["m"] in ("unwrap_or_else", "map_or", "map_or_else") and any(show(tail_expr(a_["body"]) if a_.get("k") == "closure" and a_["body"].get("k") == "block" else (a_.get("body") if a_.get("k") == "closure" else a_)) == cid for a_ in n["a"][:1]):
            fallback = True
        if n.get("k") == "match":
            for a_ in n["arms"]:
                if show(a_["pat"]) == "None" and show(a_["body"] if a_["body"].get("k") != "block" else tail_expr(a_["body"])) == cid:
                    fallback = True
        if n.get("k") == "if" and n.get("e") is not None and n["c"].get("k") == "let":
            e_ = n["e"]
            if show(tail_expr(e_) if e_.get("k") == "block" else e_) == cid:
                fallback = True
    bad_ops = [show(n) for n in walk(fc["body"]) if n.get("k") in ("bin", "index") or (n.get("k") == "mcall" and n["m"] in ("unwrap", "expect", "unwrap_or_default"))]
    rep.check(fallback and not bad_ops, "fold_cid:identity-when-unmapped", f"fold_cid returns the id itself when the map has no redirect for it (fallback to `{cid}` found: {fallback}; other operations: {bad_ops}): "
              "columns defined behind the cut have no redirect and must keep their ids", line=fc["l"], **loc)
    # fold_transform
    loc = dict(file=ft["file"], fn=ft["path"])
    ms = matches_of(ft["body"])
    ok_default = ok_compute = False
    detail = ""
    for m in ms:
        for a_ in m["arms"]:
            heads = [last_seg(h) if isinstance(h, str) else h for h in (pat_head(x) for x in pat_alts(a_["pat"]))]
            body = a_["body"]
            if heads == ["Compute"]:
                folded = [st for st in walk(body) if st.get("k") == "local" and st.get("init") is not None and "fold_compute(" in show(st["init"], maxdepth=6)]
                reg = [n for n in walk(body) if n.get("k") == "mcall" and n["m"] == "register_compute"]
                if len(folded) == 1 and len(reg) == 1 and folded[0]["pat"].get("k") == "p_ident":
                    name = folded[0]["pat"]["n"]
                    arg = show(reg[0]["a"][0]).replace(".clone()", "").replace("&", "")
                    ret = show(tail_expr(body) if body.get("k") == "block" else body, maxdepth=6)
                    ok_compute = arg == name and reg[0]["l"] > folded[0]["l"] and re.search(r"Compute\(" + re.escape(name) + r"\)", ret) is not None
                    detail = f"registers `{arg}`, returns `{ret}`"
                elif not reg and len(folded) == 0:
                    detail = "no registration"
            elif any(x.get("k") == "p_wild" or (x.get("k") == "p_ident" and not x["n"][0].isupper()) for x in pat_alts(a_["pat"])):
                t = show(body if body.get("k") != "block" else tail_expr(body), maxdepth=6)
                ok_default = re.fullmatch(r"fold_transform\(self, \w+\)", t) is not None
    rep.check(ok_compute, "fold_transform:compute-registered-redirected", "CidRedirector::fold_transform folds a Compute first and registers and returns the folded one "
              f"({detail or 'Compute arm not found'}): the column declaration behind the cut must speak of the new ids", line=ft["l"], **loc)
    rep.check(ok_default, "fold_transform:others-folded", "every other transform goes through the generic `fold_transform(self, ..)`", line=ft["l"], **loc)
    # of_first_from: the redirects of the relation instance of the pipeline's *first* transform
    t = show_stmts(of["body"], maxdepth=10)
    ok = re.search(r"\.first\(\)\?\.as_from\(\)\?", t) is not None and ".cid_redirects" in t and ".last()" not in t
    rep.check(ok, "of_first_from:first", "CidRedirector::of_first_from reads the redirects of the relation the pipeline starts from (`.first()?.as_from()?`)", file=of["file"], line=of["l"], fn=of["path"])


class _NoEval(Exception):
    pass


def _int_eval(node, env):
    """value of a side-effect-free integer expression over `env` (decided from the syntax tree: + - max min, comparisons, if/else)"""
    k = node.get("k")
    if k == "paren":
        return _int_eval(node["e"], env)
    if k == "lit" and node.get("t") == "int":
        return int(str(node["v"]).replace("_", ""))
    if k in ("path", "field"):
        t = show(node)
        if t in env:
            return env[t]
        raise _NoEval(t)
    if k == "bin":
        a, b = _int_eval(node["lhs"], env), _int_eval(node["rhs"], env)
        op = node["op"]
        table = {"+": lambda: a + b, "-": lambda: a - b, "*": lambda: a * b, "<": lambda: a < b, "<=": lambda: a <= b, ">": lambda: a > b, ">=": lambda: a >= b,
                 "==": lambda: a == b, "!=": lambda: a != b, "&&": lambda: a and b, "||": lambda: a or b}
        if op in table:
            return table[op]()
        raise _NoEval(op)
    if k == "un" and node.get("op") == "!":
        return not _int_eval(node["e"], env)
    if k == "mcall" and node["m"] in ("max", "min") and len(node["a"]) == 1:
        a, b = _int_eval(node["r"], env), _int_eval(node["a"][0], env)
        return max(a, b) if node["m"] == "max" else min(a, b)
    if k == "mcall" and node["m"] in ("saturating_add", "wrapping_add", "saturating_sub") and len(node["a"]) == 1:
        a, b = _int_eval(node["r"], env), _int_eval(node["a"][0], env)
        return a + b if "add" in node["m"] else max(a - b, 0)
    if k == "call" and last_seg(show(node["f"])) in ("max", "min") and len(node["a"]) == 2:
        a, b = _int_eval(node["a"][0], env), _int_eval(node["a"][1], env)
        return max(a, b) if last_seg(show(node["f"])) == "max" else min(a, b)
    if k == "if" and node["c"].get("k") != "let":
        c = _int_eval(node["c"], env)
        br = node["t"] if c else node.get("e")
        if br is None:
            return None
        return _int_block(br, env)
    if k == "block":
        return _int_block(node, env)
    raise _NoEval(k)


def _int_block(block, env):
    """executes assignments / lets / ifs of a block on `env`; returns the value of its tail expression (if any)"""
    if block.get("k") != "block":
        return _int_eval(block, env)
    val = None
    for st in block.get("s", []):
        k = st.get("k")
        if k == "assign":
            env[show(st["lhs"])] = _int_eval(st["rhs"], env)
        elif k == "assign_op" or (k == "bin" and st.get("op") in ("+=", "-=")):
            tgt = show(st["lhs"])
            d = _int_eval(st["rhs"], env)
            env[tgt] = env[tgt] + d if st["op"].startswith("+") else env[tgt] - d
        elif k == "local" and st["pat"].get("k") == "p_ident" and st.get("init") is not None:
            env[st["pat"]["n"]] = _int_eval(st["init"], env)
        elif k == "if":
            val = _int_eval(st, env)
        elif k == "macro" and st.get("n") in ("debug", "trace", "debug_assert"):
            continue
        else:
            val = _int_eval(st, env)
    return val


def r18(ctx, rep):
    """The SQL backend invents column and table ids of its own (sub-queries, row numbers, split columns). They come from generators that
    are first moved past every id of the query: an id handed out twice makes two columns one."""
    rep.rule("C01.R18", "ids generated in the SQL backend lie above every id of the relational query: `skip(id)` leaves next = max(next, id + 1), "
             "the loader visits every column id and table id of the query, `gen` hands out next and moves on", floor=5)
    syn = ctx.syn
    sk = syn.fn("IdGenerator::skip", crate="prqlc")
    params = [x["n"] for p_ in sk["params"] for x in walk(p_) if x.get("k") == "p_ident" and x["n"] != "self"]
    ok, detail = True, []
    try:
        for nxt in range(0, 4):
            for i in range(0, 4):
                env = {"self.next_id": nxt, params[0]: i}
                _int_block(sk["body"], env)
                if env["self.next_id"] != max(nxt, i + 1):
                    ok = False
                    detail.append(f"next_id={nxt}, skip({i}) -> {env['self.next_id']}")
    except (_NoEval, IndexError, KeyError) as e:
        ok, detail = False, [f"not evaluable: {e!r}"]
    rep.check(ok, "skip:max-of-next-and-id-plus-one", f"IdGenerator::skip(id) must leave `next_id = max(next_id, id + 1)` (evaluated on 0..3 x 0..3): {detail[:4]} - "
              "otherwise the first generated id is one the query already uses", detail=detail[:8], file=sk["file"], line=sk["l"], fn=sk["path"])
    g = syn.fn("IdGenerator::gen", crate="prqlc")
    ok, detail = True, []
    try:
        for nxt in (0, 1, 5):
            env = {"self.next_id": nxt}
            stmts = g["body"].get("s", [])
            body = {"k": "block", "s": [s_ for s_ in stmts if not (s_.get("k") == "call" and "from" in show(s_["f"]))]}
            _int_block(body, env)
            t = tail_expr(g["body"])
            arg = t["a"][0] if t is not None and t.get("k") == "call" and len(t["a"]) == 1 else None
            out = _int_eval(arg, env) if arg is not None else None
            if env["self.next_id"] != nxt + 1 or out not in (nxt, nxt + 1):
                ok = False
                detail.append(f"next_id={nxt}: returns {out}, next_id becomes {env['self.next_id']}")
    except (_NoEval, KeyError) as e:
        ok, detail = False, [f"not evaluable: {e!r}"]
    rep.check(ok, "gen:hands-out-next-and-advances", f"IdGenerator::gen returns `T::from(next_id)` and advances by one: {detail[:3]}", file=g["file"], line=g["l"], fn=g["path"])
    # the loader
    fns = {f["name"]: f for f in syn.fns if f["crate"] == "prqlc" and f["file"].endswith("utils/id_gen.rs") and f.get("self_short") == "IdLoader"}
    for name, field, getter in (("fold_cid", "cid", None), ("fold_table", "tid", "id")):
        f = fns.get(name)
        if f is None:
            rep.bad(f"loader:{name}", f"IdLoader::{name} not found: ids of that kind are not skipped", file=sk["file"], line=sk["l"], fn=sk["path"])
            continue
        prm = [x["n"] for p_ in f["params"] for x in walk(p_) if x.get("k") == "p_ident" and x["n"] != "self"]
        skips = [n for n in f["body"].get("s", []) if n.get("k") == "mcall" and n["m"] == "skip" and show(n["r"]) == f"self.{field}"]
        want = f"{prm[0]}.get()" if getter is None else f"{prm[0]}.{getter}.get()"
        ok = len(skips) == 1 and show(skips[0]["a"][0]) == want
        rep.check(ok, f"loader:{name}:skips-own-id", f"IdLoader::{name} calls `self.{field}.skip({want})` unconditionally (found {[show(x, maxdepth=6) for x in skips]})", file=f["file"], line=f["l"], fn=f["path"])
        t = tail_expr(f["body"])
        tt = show(t, maxdepth=6) if t is not None else ""
        ok = tt == f"Ok({prm[0]})" if name == "fold_cid" else re.fullmatch(r"fold_table\(self, " + re.escape(prm[0]) + r"\)", tt) is not None
        rep.check(ok, f"loader:{name}:continues", f"IdLoader::{name} returns the value unchanged" + (" and keeps folding inside the table (`fold_table(self, ..)`: the ids of nested relations)" if name == "fold_table" else "") + f"; found `{tt}`",
                  file=f["file"], line=f["l"], fn=f["path"])
    ld = syn.fn("IdGenerator::load", crate="prqlc")
    t = show_stmts(ld["body"], maxdepth=10)
    prm = [x["n"] for p_ in ld["params"] for x in walk(p_) if x.get("k") == "p_ident"]
    rep.check(re.search(r"\.fold_query\(" + re.escape(prm[0]) + r"\)", t) is not None and "default()" in t, "load:folds-whole-query",
              "IdGenerator::load starts from empty generators and folds the whole query through the loader", file=ld["file"], line=ld["l"], fn=ld["path"])


def r19(ctx, rep):
    """WHERE / HAVING routing, the take / sort extraction and the aggregate extraction of a SELECT all go through two small vector helpers.
    `pluck` moves the elements a function accepts into a new vector and keeps the others, both in their order; `break_up` cuts a vector in
    front of the first element a predicate accepts. An element lost or put on the wrong side is a clause lost or evaluated at the wrong stage."""
    rep.rule("C01.R19", "utils::Pluck / BreakUp: every drained element lands in exactly one of the two vectors in order; the cut is in front of the first match", floor=4)
    syn = ctx.syn
    pl = next((f for f in syn.fns if f["crate"] == "prqlc" and f["file"].endswith("utils/mod.rs") and f["name"] == "pluck" and "body" in f), None)
    bu = next((f for f in syn.fns if f["crate"] == "prqlc" and f["file"].endswith("utils/mod.rs") and f["name"] == "break_up" and "body" in f), None)
    if pl is None or bu is None:
        raise AnchorMissing("utils::{Pluck::pluck, BreakUp::break_up}")
    loc = dict(file=pl["file"], fn=pl["path"])
    loops = [n for n in walk(pl["body"]) if n.get("k") == "for" and re.fullmatch(r"self\.drain\(\.\.\)", show(n["e"], maxdepth=6).replace("(..)", "(..)"))]
    if not loops:
        loops = [n for n in walk(pl["body"]) if n.get("k") == "for" and "drain" in show(n["e"], maxdepth=6)]
    ok, why = False, "the loop over `self.drain(..)` was not found"
    kept = moved = None
    if len(loops) == 1:
        lp = loops[0]
        full = show(lp["e"], maxdepth=6).replace(" ", "") in ("self.drain(..)",)
        ms = matches_of(lp["body"])
        if full and len(ms) == 1 and len(lp["body"].get("s", [])) == 1:
            arms = {}
            for a_ in ms[0]["arms"]:
                h = pat_head(a_["pat"])
                names = [x["n"] for x in walk(a_["pat"]) if x.get("k") == "p_ident"]
                b = a_["body"]
                b = b["s"][0] if b.get("k") == "block" and len(b.get("s", [])) == 1 else b
                if isinstance(h, str) and len(names) == 1 and b.get("k") == "mcall" and b["m"] == "push" and show(b["a"][0]) == names[0] and a_.get("guard") is None:
                    arms[last_seg(h)] = show(b["r"])
            if set(arms) == {"Ok", "Err"} and arms["Ok"] != arms["Err"]:
                moved, kept = arms["Ok"], arms["Err"]
                ok = True
            else:
                why = f"the arms of the match over the function's result must push the bound value into two different vectors (found {arms})"
        else:
            why = "the loop must drain the whole vector and consist of one match over the function's result"
    rep.check(ok, "pluck:every-element-lands-once", "Pluck::pluck: " + ("ok" if ok else why), line=pl["l"], **loc)
    if ok:
        ext = [n for n in pl["body"].get("s", []) if n.get("k") == "mcall" and n["m"] == "extend" and show(n["r"]) == "self" and show(n["a"][0]) == kept]
        t = tail_expr(pl["body"])
        rep.check(len(ext) == 1 and t is not None and show(t) == moved, "pluck:kept-put-back-moved-returned",
                  f"Pluck::pluck puts the rejected elements back (`self.extend({kept})`, once, unconditionally) and returns the accepted ones (`{moved}`)", line=pl["l"], **loc)
        sorts = [n["m"] for n in walk(pl["body"]) if n.get("k") == "mcall" and n["m"] in ("rev", "reverse", "sort", "sort_by", "sort_by_key", "dedup", "swap_remove", "insert", "retain")]
        rep.check(not sorts, "pluck:order-kept", f"Pluck::pluck does not reorder or drop ({sorts})", line=pl["l"], **loc)
    loc = dict(file=bu["file"], fn=bu["path"])
    prm = [x["n"] for p_ in bu["params"] for x in walk(p_) if x.get("k") == "p_ident" and x["n"] != "self"]
    pos = None
    for st in bu["body"].get("s", []):
        if st.get("k") == "local" and st["pat"].get("k") == "p_ident" and st.get("init") is not None:
            t = show(st["init"], maxdepth=8)
            if re.fullmatch(r"self\.iter\(\)\.position\(" + re.escape(prm[0] if prm else "f") + r"\)\.unwrap_or\(self\.len\(\)\)", t):
                pos = st["pat"]["n"]
    drains = [n for n in walk(bu["body"]) if n.get("k") == "mcall" and n["m"] in ("drain", "split_off")]
    ok = pos is not None and len(drains) == 1 and show(drains[0]["r"]) == "self" and show(drains[0]["a"][0], maxdepth=4).replace(" ", "").replace("(", "").replace(")", "") in (pos + "..", pos)
    rep.check(ok, "break_up:cut-in-front-of-first-match", f"BreakUp::break_up cuts at the position of the first match, or at the end when there is none "
              f"(position `{pos}`; cut {[show(d, maxdepth=5) for d in drains]}): the matching element belongs to the second part", line=bu["l"], **loc)
    t = tail_expr(bu["body"])
    second = None
    for st in bu["body"].get("s", []):
        if st.get("k") == "local" and st["pat"].get("k") == "p_ident" and st.get("init") is not None and drains and any(d is x for d in drains for x in walk(st["init"])):
            second = st["pat"]["n"]
    rep.check(t is not None and t.get("k") == "tuple" and [show(x) for x in t["e"]] == ["self", second], "break_up:parts-in-order",
              f"BreakUp::break_up returns (front, back) = (self, {second}); found `{show(t) if t else None}`", line=bu["l"], **loc)


FOLD_FILES = ("ir/rq/fold.rs", "sql/pq/ast.rs", "ir/pl/fold.rs")


def r20(ctx, rep):
    """The generic folders (RQ, PQ and PL) are what every pass of the compiler is built on: redirecting column ids at a split, loading ids,
    resolving names, flattening. A folder that rebuilds `Take{partition, sort, range}` with two fields exchanged, or turns a `Filter` arm into
    a `Select`, changes the query for every pass at once. Each arm must rebuild the variant it matched and each field initialiser must be
    made from the field of the same name."""
    rep.rule("C01.R20", "generic folders are homomorphic: an arm that matches variant V rebuilds V (or passes the value on whole); "
             "a field initialiser `f: e` of a rebuilt struct is made from the field / binding `f`", floor=150)
    syn = ctx.syn
    n_arm = n_field = 0
    for f in syn.fns:
        if not (f["crate"] == "prqlc" and f["file"].endswith(FOLD_FILES) and "body" in f and f["name"].startswith("fold")):
            continue
        loc = dict(file=f["file"], fn=f["path"])
        inits = {}
        for n in walk(f["body"]):
            if n.get("k") == "local" and n.get("init") is not None and n["pat"].get("k") == "p_ident":
                inits.setdefault(n["pat"]["n"], []).append(n["init"])
        for n in walk(f["body"]):
            if n.get("k") != "struct":
                continue
            for fname, fval in n["f"]:
                n_field += 1
                names = set()

                def collect(e, depth=0):
                    for x in walk(e):
                        if x.get("k") == "field":
                            names.add(x["f"])
                        if x.get("k") == "path":
                            nm = last_seg(x["p"])
                            names.add(nm)
                            # an intermediate binding (`let p = fold.fold_cids(partition)?; .. partition: p`) stands for its initialiser
                            if depth < 3 and nm in inits and nm != fname:
                                for i_ in inits[nm]:
                                    collect(i_, depth + 1)
                collect(fval)
                rep.check(fname in names, f"field:{f['name']}:{last_seg(n['p'])}.{fname}", f"{f['name']} rebuilds `{last_seg(n['p'])}` with `{fname}: {show(fval, maxdepth=6)}`: "
                          f"the value is not made from the field `{fname}` of what is being folded", line=n["l"], **loc)
        for m in matches_of(f["body"]):
            for a in m["arms"]:
                alts = pat_alts(a["pat"])
                if len(alts) != 1:
                    continue
                inner = alts[0]
                whole = None
                while inner.get("k") == "p_ident" and inner.get("sub") is not None:
                    whole = inner["n"]
                    inner = inner["sub"]
                h = pat_head(inner)
                if not isinstance(h, str) or not last_seg(h)[:1].isupper():
                    continue
                v = last_seg(h)
                b = a["body"]
                if b.get("k") == "block":
                    b = tail_expr(b) or b
                while b.get("k") in ("try", "paren") or (b.get("k") == "call" and show(b["f"]) == "Ok" and len(b["a"]) == 1):
                    b = b["e"] if b.get("k") in ("try", "paren") else b["a"][0]
                head = None
                if b.get("k") == "call":
                    head = last_seg(show(b["f"]))
                elif b.get("k") == "struct":
                    head = last_seg(b["p"])
                elif b.get("k") == "path":
                    head = last_seg(b["p"])
                else:
                    continue
                if not head[:1].isupper() and head not in (whole, show(m["e"])):
                    # a helper call (`fold_x(..)`) or a local: not a rebuild in place
                    continue
                n_arm += 1
                rep.check(head == v or head in (whole, show(m["e"])), f"arm:{f['name']}:{v}", f"{f['name']}: the arm for `{v}` yields `{show(b, maxdepth=4)[:80]}`", line=a["l"], **loc)
    rep.check(n_arm >= 60 and n_field >= 100, "sites", f"expected >= 60 rebuilding arms and >= 100 field initialisers in {FOLD_FILES}, found {n_arm} / {n_field}")


def r21(ctx, rep):
    # the rows a filter keeps and the values a derive computes are part of "exactly the rows": an expression that is regrouped on its way
    # to SQL, or a null test on the wrong operand, returns other rows. C02 decides those; C01 relies on them.
    import C02
    rep.borrowed(C02.r6, ctx, "C01.R21", "null comparisons become IS [NOT] NULL on the operand that is not the null literal")
    rep.borrowed(C02.r4, ctx, "C01.R22", "every SQL template guards its operator context: an operand is parenthesised where SQL would regroup it")
    # which rows a `take` keeps after a join / append depends on the order remembered across it (the Flattener's state discipline)
    import C03
    rep.borrowed(C03.r4, ctx, "C01.R23", "the order in effect before a join / append is the order in effect after it; a sub-pipeline's sort does not leak out")


def run(ctx, rep):
    for r in (r1, r2, r3, r4, r5, r6, r7, r8, r9, r10, r11, r12, r13, r14, r15, r16, r17, r18, r19, r20, r21):
        rep.guard(r, ctx)
