"""C06 - refactorings PRQL defines as equivalent do not change results.

Result equality of two programs on all databases is not decidable from the shape of the compiler. Four clauses of the property
do rest on a shape whose breakage necessarily makes the two spellings compile differently, and only those are decided:
  R1 `filter a && b` == `filter a | filter b`: `&&` is std.and, and the filters of one SELECT are joined with std.and in order
     (borrowed: the And row of C02.R2 and C01.R3)
  R2 `... | into x` == `let x = (...)`: after ast_expand a variable definition is (name, value, type) - the PL type has no field that
     could tell the two spellings apart, and the expansion copies name and value without reading the kind
  R3 a piped value is the last argument: `x | f a` is the call of `f a` with the one further argument `x`; elements are folded
     left to right
  R4 a named parameter that is not supplied takes its declared default, a supplied one replaces it
Not decided: let-table inlining vs CTE, beta-reduction of user functions, module paths, identity transforms (all decided by values
the resolver computes).
"""
import re

from synq import walk, show, show_stmts, last_seg, matches_of, pat_alts, pat_head, AnchorMissing

META = (
    "structural necessary conditions of four clauses of C06 (conjunctive filters, into = let, piped argument, named default)",
    ["A1"],
    "borrowed rows of C01.R3 / C02.R2; the fields of pl::VarDef and the VarDef arm of the AST expansion; the call built by "
    "desugar_pipeline; the value flow of a named parameter's argument in apply_args_to_closure",
    False,
)


def r1(ctx, rep):
    import C01
    import C02
    rep.borrowed(C01.r3, ctx, "C06.R1", "consecutive filters of one SELECT are joined with AND, in order")
    rep.borrowed(C02.r2, ctx, "C06.R1b", "`&&` is std.and", only=r"And|and")
    # .. and there is no second way of joining them: an AND built directly from translated conditions has no operand check, so a filter that
    # is a disjunction loses its parentheses (`f1 AND a OR b AND f3`)
    rep.borrowed(C02.r11, ctx, "C06.R1c", "conditions are joined only through operand-checked constructs", only=r"gen_query::(filter_of_conditions|all)|sql::gen_query")


def r5(ctx, rep):
    # `let x = (from t | sort a)` + `from x | take 3` must take by the order of x, like the inline pipeline does: the sorting of a referenced
    # relation is inherited by the pipeline that continues from it, and a take without a sort of its own is ordered by it
    import C03
    rep.borrowed(C03.r1_r2, ctx, "C06.R5", "a pipeline that continues from a let-bound relation inherits its order", only=r"inherit|sort-before-take|main-end")


def r6(ctx, rep):
    # a declaration moved into a module and used there by its plain name must still be found: inside a module, names resolve relative to the
    # module first and only then as written
    import C10
    rep.borrowed(C10.r11, ctx, "C06.R6", "inside a module a name is looked up module-relative first, stripping only the prepended path")


def r2(ctx, rep):
    rep.rule("C06.R2", "`into x` and `let x = ..` give the same declaration: nothing after the parser can tell them apart", floor=3)
    syn = ctx.syn
    adt = [a for a in syn.adts if a["crate"] == "prqlc" and a["name"] == "VarDef" and "/ir/pl/" in a["file"]]
    if len(adt) != 1:
        raise AnchorMissing("ir::pl VarDef")
    fields = [(f_["name"], f_.get("ty", "")) for f_ in adt[0].get("fields", [])]
    rep.check(fields and not any("VarDefKind" in t or n == "kind" for n, t in fields), "pl-vardef-has-no-kind",
              f"pl::VarDef has the fields {fields}: a field that records how the variable was written (`let` / `into` / main) lets the resolver treat "
              "`from a | into x` and `let x = (from a)` differently", file=adt[0]["file"], line=adt[0]["l"])
    f = syn.fn("ast_expand::expand_stmt_kind", crate="prqlc")
    arm = None
    for m in matches_of(f["body"]):
        for a in m["arms"]:
            if "StmtKind::VarDef" in show(a["pat"], maxdepth=6):
                arm = a
    if arm is None:
        raise AnchorMissing("expand_stmt_kind: VarDef arm")
    bound = [x["n"] for x in walk(arm["pat"]) if x.get("k") == "p_ident"]
    v = bound[0] if bound else None
    uses = sorted({x["f"] for x in walk(arm["body"]) if x.get("k") == "field" and show(x["e"]) == v})
    rep.check(v is not None and "kind" not in uses and {"name", "value"} <= set(uses), "expansion-ignores-kind",
              f"the VarDef arm of expand_stmt_kind reads {uses} of the parsed definition: it must copy name and value and must not look at `kind`", file=f["file"], line=arm["l"], fn=f["path"])
    # the parser gives `into NAME` the name NAME and the pipeline as value
    p = [g for g in syn.fns if g["crate"] == "prqlc_parser" and g["file"].endswith("parser/stmt.rs") and "body" in g and any(x.get("k") == "lit" and x.get("v") == "into" for x in walk(g["body"]))]
    ok = False
    for g in p:
        for n in walk(g["body"]):
            if n.get("k") == "struct" and last_seg(n["p"]) == "VarDef":
                d = dict(n["f"])
                if "name" in d and "value" in d and "Some(" in show(d["value"], maxdepth=6) and any(x.get("k") == "lit" and x.get("v") == "main" for x in walk(g["body"])):
                    ok = True
    rep.check(ok, "parser-into-names-pipeline", "the statement parser must build VarDef { name: <name after `into`, else \"main\">, value: Some(<pipeline>) } for `pipeline | into name`",
              file=p[0]["file"] if p else None, line=p[0]["l"] if p else None, fn=p[0]["path"] if p else None)


def r3(ctx, rep):
    rep.rule("C06.R3", "a piped value is the one further (last) argument of the next pipeline element, elements are folded left to right", floor=2)
    syn = ctx.syn
    f = syn.fn("ast_expand::desugar_pipeline", crate="prqlc")
    import alpha
    A = alpha.Inliner(f)
    # the iteration over the remaining elements: a `for` loop with an accumulator that is re-assigned, or `fold` / `try_fold(init, |acc, elem| ..)`
    elem = acc = it = where = None
    loops = [n for n in walk(f["body"]) if n.get("k") == "for"]
    folds = [n for n in walk(f["body"]) if n.get("k") == "mcall" and n["m"] in ("fold", "try_fold") and len(n["a"]) == 2 and n["a"][1].get("k") == "closure"]
    if len(loops) == 1 and not folds:
        lp = loops[0]
        names = [x["n"] for x in walk(lp["pat"]) if x.get("k") == "p_ident"]
        assigns = [n for n in walk(lp["body"]) if n.get("k") == "assign" and n["lhs"].get("k") == "path"]
        elem, acc, it, where = (names[0] if names else None), (assigns[0]["lhs"]["p"] if assigns else None), lp["e"], lp["body"]
    elif len(folds) == 1 and not loops:
        cl = folds[0]["a"][1]
        names = [[x["n"] for x in walk(p_) if x.get("k") == "p_ident"] for p_ in cl["params"]]
        if len(names) == 2 and names[0] and names[1]:
            acc, elem, it, where = names[0][0], names[1][0], folds[0]["r"], cl["body"]
    if elem is None or acc is None:
        raise AnchorMissing("desugar_pipeline: the iteration over the pipeline's elements (a for loop with an accumulator, or a fold)")
    ok, found = False, None
    for n in walk(where):
        if n.get("k") == "call" and last_seg(show(n["f"])) == "new_simple" and "FuncCall" in show(n["f"]) and len(n["a"]) == 2:
            callee, args = A.show(n["a"][0], strip=True), show(n["a"][1]).replace(" ", "")
            found = (callee, args)
            # the callee is the (expanded) element, the argument list is exactly [accumulator]
            ok = re.search(r"\b" + re.escape(elem) + r"\b", callee) is not None and args in (f"vec!({acc})", f"vec![{acc}]", f"[{acc}].into()", f"vec!({acc},)")
    rep.check(ok, "piped-value-is-sole-argument", f"desugar_pipeline must turn `value | element` into the call of `element` with the single argument `value` (so that `x | f a` is `f a x`); found {found}",
              file=f["file"], line=f["l"], fn=f["path"])
    # left to right: the first element is the initial value (`remove(0)` / `into_iter().next()` before the loop), the loop runs over the rest in order
    txt = show_stmts(f["body"], maxdepth=10)
    first = re.search(r"\.remove\(0\)|\.into_iter\(\)\.next\(\)|split_first|\.next\(\)", txt) is not None
    rev = ".rev()" in show(it, maxdepth=8)
    rep.check(first and not rev, "left-to-right", "the first element of a pipeline is the initial value and the remaining elements are applied in order (no reversal)", file=f["file"], line=f["l"], fn=f["path"])


def r4(ctx, rep):
    rep.rule("C06.R4", "the argument of a named parameter is the supplied named argument, else the parameter's declared default", floor=1)
    syn = ctx.syn
    f = syn.fn("apply_args_to_closure", crate="prqlc")
    import alpha
    A = alpha.Inliner(f)
    ok, found = False, []
    for lp in [n for n in walk(f["body"]) if n.get("k") == "for" and "named_params" in show(n["e"], maxdepth=8)]:
        for n in walk(lp["body"]):
            # what is pushed as the argument
            if n.get("k") == "mcall" and n["m"] == "push" and show(n["r"]).endswith(".args") and n["a"]:
                t = A.show(n["a"][0], strip=True).replace(" ", "")
                found.append(t)
                # <named args>.remove(<param name>) with the default as the fallback (unwrap_or / unwrap_or_else / match / if let)
                ok = ok or (re.search(r"named_args\.remove\(", t) is not None and "default_value" in t and re.search(r"unwrap_or|unwrap_or_else|None=>|else", t) is not None)
    rep.check(ok, "named-default", f"apply_args_to_closure must give a named parameter `named_args.remove(<its name>)` and fall back to `param.default_value`; found {found}: "
              "otherwise `f x` and `f a:<default> x` differ, or an explicit named argument is ignored", file=f["file"], line=f["l"], fn=f["path"])


def r7(ctx, rep):
    # `let t = (..)` referenced twice = the pipeline written out twice: the second reference must still find the relation (a CTE, or the
    # restored definition for an inline sub-query)
    import C01
    rep.borrowed(C01.r10, ctx, "C06.R7", "a let-bound relation referenced several times is, each time, the relation it was bound to")


def r8(ctx, rep):
    """Calling a user function is its body with the arguments substituted (beta-reduction): `let top = c -> max c` then `top x` is `max x`.
    In `fold_function` the value of the call is what `materialize_function` returns; nothing but the span may be overridden on it,
    otherwise `top x` and `max x` differ in a flag (needs_window, ty, alias ..) that later stages read."""
    rep.rule("C06.R8", "a user-function call evaluates to its materialised body: only `span` is overridden on the way out of fold_function", floor=2)
    syn = ctx.syn
    f = syn.fn("Resolver::fold_function", crate="prqlc")
    inits = {}
    for n in walk(f["body"]):
        if n.get("k") == "local" and n.get("init") is not None and n["pat"].get("k") == "p_ident":
            inits.setdefault(n["pat"]["n"], []).append(n["init"])

    def from_body(e, depth=0):
        """does the value of `e` come (on some branch) from materialize_function?"""
        from C02 import _value_leaves
        for leaf in _value_leaves(e):
            if any(x.get("k") == "mcall" and x["m"] == "materialize_function" for x in [leaf] + ([leaf["e"]] if leaf.get("k") == "try" else [])):
                return True
            if leaf.get("k") == "mcall" and leaf["m"] == "materialize_function":
                return True
            if depth < 3 and leaf.get("k") == "path" and leaf["p"] in inits and any(from_body(i_, depth + 1) for i_ in inits[leaf["p"]]):
                return True
            if leaf.get("k") == "struct" and leaf.get("rest") is not None and from_body(leaf["rest"], depth + 1):
                return True
        return False
    n_sites = 0
    calls_m = [x for x in walk(f["body"]) if x.get("k") == "mcall" and x["m"] == "materialize_function"]
    for n in walk(f["body"]):
        if n.get("k") == "struct" and n.get("rest") is not None and from_body(n["rest"]):
            n_sites += 1
            over = [a for a, _ in n["f"]]
            rep.check(set(over) <= {"span"}, f"override:{'+'.join(over) or 'none'}", f"fold_function rebuilds the materialised body with {over} overridden (`{show(n, maxdepth=4)[:90]}`): "
                      "the call no longer equals its body with the arguments substituted", file=f["file"], line=n["l"], fn=f["path"])
    rep.check(len(calls_m) >= 1, "materialize-site", f"expected fold_function to materialise the closure (`self.materialize_function(..)`), found {len(calls_m)} call(s)", file=f["file"], line=f["l"], fn=f["path"])
    rep.check(n_sites >= 1, "way-out", "expected the struct update that stamps the call's span on the materialised body", file=f["file"], line=f["l"], fn=f["path"])


def r9(ctx, rep):
    # naming a prefix with `let` moves a `take` into a sub-query of its own; written inline, two takes meet in one SELECT and are merged
    # by range_of_ranges. Both spellings return the same rows only if the merge is the composition of the two ranges.
    import C03
    rep.borrowed(C03.r5, ctx, "C06.R9", "two takes merged inside one SELECT select the rows that two nested sub-queries would", only=r"^compose")


def r10(ctx, rep):
    # .. and a derive after a take stays behind it unless it is a plain expression: `take 3 | derive {total = sum b}` inline must equal
    # `let top = (.. | take 3)` + `from top | derive {total = sum b}`
    import C01
    rep.borrowed(C01.r6, ctx, "C06.R10", "a compute is evaluated over the rows a preceding take leaves, as it would be over a let-bound prefix")


def run(ctx, rep):
    for r in (r1, r2, r3, r4, r5, r6, r7, r8, r9, r10):
        rep.guard(r, ctx)
