"""C13 - errors are located inside the source and point at the offending text.

Decides:
  R1 one unit (byte / char) per span channel, equal to the unit the rendering sinks index by
  R3 every error reason is non-empty text
  R4 source ids: single writer of the id map; an unknown id is skipped, not a panic
"""
import json
import os
import re

from synq import (walk, show, show_stmts, strs, last_seg, pat_alts, pat_head, tail_expr, matches_of, mcalls, calls,
                  macros, lit_val, AnchorMissing)

ROOT = os.path.dirname(os.path.dirname(os.path.dirname(os.path.abspath(__file__))))

META = (
    "span units and error-reason discipline",
    ["A1", "A2 oracles/libs.json: ariadne 0.5.1 Source::get_offset_line and Config::default() index by CHAR; chumsky SimpleSpan over &str is in BYTES",
     "A4 chumsky map_with span semantics"],
    "unit lattice {Byte, Char} over every Span construction site (syntax trees of lexer, parser, interpolation parser) "
    "joined per channel and compared with the unit of the rendering sinks; inventory of Error reason arguments",
    True,
)


def libs():
    with open(os.path.join(ROOT, "oracles", "libs.json")) as f:
        return json.load(f)


def local_inits(fn):
    out = {}
    for n in walk(fn["body"]):
        if n.get("k") == "local" and n.get("init") is not None:
            out.setdefault(show(n["pat"]), n["init"])
    return out


def unit_of(expr, inits, token_unit, depth=0):
    """Unit of an offset expression: 'Char', 'Byte', 'Neutral' (literal), or '?'."""
    if expr is None or depth > 6:
        return "?"
    k = expr.get("k")
    if k == "lit":
        return "Neutral"
    txt = show(expr, maxdepth=10)
    if k == "mcall" and expr["m"] == "count" and show(expr["r"], maxdepth=10).endswith(".chars()"):
        return "Char"
    if k == "mcall" and expr["m"] in ("start", "end") and not expr["a"]:
        base = expr["r"]
        b = show(base)
        if base.get("k") == "path" and b in inits:
            return "Byte" if "span()" in show(inits[b], maxdepth=6) else unit_of(inits[b], inits, token_unit, depth + 1)
        return "Byte"
    if k == "field" and expr["f"] in ("start", "end"):
        base = show(expr["e"])
        if base.endswith(".span") or base == "t.span":
            return token_unit
        if base in inits:
            i = show(inits[base], maxdepth=6)
            if "extra.span()" in i or ".span()" in i:
                return "Byte"
        if base in ("simple_span", "span", "s", "e.span()", "span_base"):
            return "Byte" if base != "span_base" else token_unit
        return "?"
    if k == "path" and expr["p"] in inits:
        return unit_of(inits[expr["p"]], inits, token_unit, depth + 1)
    if k == "bin" and expr["op"] in ("+", "-"):
        a = unit_of(expr["lhs"], inits, token_unit, depth + 1)
        b = unit_of(expr["rhs"], inits, token_unit, depth + 1)
        us = {a, b} - {"Neutral"}
        if len(us) == 1:
            return us.pop()
        return "Mixed(" + ",".join(sorted(us)) + ")" if us else "Neutral"
    if k == "mcall" and expr["m"] in ("unwrap_or", "map", "unwrap_or_default", "saturating_sub", "min", "max"):
        # look inside closures / receivers
        for n in walk(expr):
            if n is expr:
                continue
            if n.get("k") == "field" and n["f"] in ("start", "end") and show(n["e"]).endswith("span"):
                return token_unit
        return unit_of(expr["r"], inits, token_unit, depth + 1)
    return "?"


def span_sites(fn):
    out = []
    for n in walk(fn["body"]):
        if n.get("k") == "struct" and (last_seg(n["p"]) == "Span" or (n["p"] == "Self" and fn.get("self_short") == "Span")):
            d = {a: b for a, b in n["f"]}
            if "start" in d and "end" in d:
                out.append((n, d))
    return out


def r1(ctx, rep):
    rep.rule("C13.R1", "every span channel uses the unit the rendering sinks index by", floor=8)
    L = libs()
    syn = ctx.syn
    # ---- sinks
    cl = syn.fn("ErrorMessage::compose_location", crate="prqlc")
    meths = [n["m"] for n in walk(cl["body"]) if n.get("k") == "mcall" and n["m"] in L["ariadne"]["source_lookup_unit"]]
    sink_units = {L["ariadne"]["source_lookup_unit"][m] for m in meths}
    rep.check(len(meths) == 2 and len(sink_units) == 1, "sink:location", f"compose_location must look both ends of the span up with one ariadne lookup; found {meths}", file=cl["file"], line=cl["l"], fn=cl["path"])
    sink = sink_units.pop() if len(sink_units) == 1 else "?"
    cd = syn.fn("ErrorMessage::compose_display", crate="prqlc")
    idx = [show(n["a"][0]) for n in walk(cd["body"]) if n.get("k") == "mcall" and n["m"] == "with_index_type" and n["a"]]
    disp_unit = "Byte" if any("Byte" in i for i in idx) else L["ariadne"]["config_default_index_type"]
    rep.check(disp_unit == sink, "sink:agree", f"line/column lookup indexes by {sink} but the rendered report indexes by {disp_unit}", file=cd["file"], line=cd["l"], fn=cd["path"])
    # ---- token channel (lexer): Token { kind, span } from extra.span() over &str
    lex_fns = [f for f in syn.fns_in_file("prqlc-parser/src/lexer/mod.rs") if "body" in f]
    tok_sites = 0
    tok_units = set()
    for f in lex_fns:
        for n in walk(f["body"]):
            if n.get("k") == "struct" and last_seg(n["p"]) == "Token":
                d = {a: b for a, b in n["f"]}
                sp = d.get("span")
                tok_sites += 1
                t = show(sp, maxdepth=8) if sp is not None else "?"
                if sp is not None and sp.get("k") == "range" and lit_val(sp.get("s")) == 0 and lit_val(sp.get("e")) == 0:
                    tok_units.add("Neutral")
                elif "span.start()" in t or "span.end()" in t or "extra.span()" in t or t in ("span", "span.into()", "span.into_range()"):
                    tok_units.add(L["chumsky"]["simple_span_over_str"])
                else:
                    tok_units.add("?:" + t)
    tu = tok_units - {"Neutral"}
    token_unit = tu.pop() if len(tu) == 1 else "Mixed" + str(sorted(tok_units))
    rep.check(tok_sites >= 2 and token_unit in ("Byte", "Char"), "channel:token", f"token spans must all come from the lexer's consumed span; units found {sorted(tok_units)} over {tok_sites} sites",
              file="prqlc/prqlc-parser/src/lexer/mod.rs")
    # ---- lexer error channel
    ce = syn.fn("lexer::convert_lexer_error", crate="prqlc_parser")
    inits = local_inits(ce)
    sites = span_sites(ce)
    lex_err_unit = "?"
    if sites:
        us = {unit_of(sites[0][1]["start"], inits, token_unit), unit_of(sites[0][1]["end"], inits, token_unit)}
        lex_err_unit = us.pop() if len(us) == 1 else "Mixed" + str(sorted(us))
    rep.check(lex_err_unit == sink, "unit:lexer-error",
              f"lexer errors carry {lex_err_unit} offsets but error locations are looked up by {sink} offset: with multi-byte text before the error the reported line/column and the quoted text are wrong (or the lookup fails)",
              file=ce["file"], line=ce["l"], fn=ce["path"])
    # ---- parser channel: map_span builds Span from token spans
    pp = syn.fn("parser::parse_lr_to_pr", crate="prqlc_parser")
    inits = local_inits(pp)
    sites = span_sites(pp)
    p_unit = "?"
    if sites:
        us = {unit_of(sites[0][1]["start"], inits, token_unit), unit_of(sites[0][1]["end"], inits, token_unit)} - {"Neutral"}
        p_unit = us.pop() if len(us) == 1 else "Mixed" + str(sorted(us))
    rep.check(p_unit == sink, "unit:parser-and-resolver",
              f"parser spans (and every AST span the resolver and SQL generator report) are built from token spans in {p_unit} offsets, but locations are looked up by {sink} offset: "
              "after multi-byte text the caret is misplaced, and near the end of the source the lookup is out of bounds",
              file=pp["file"], line=sites[0][0]["l"] if sites else pp["l"], fn=pp["path"])
    # ---- interpolation channel
    ip = syn.fn("interpolation::parse", crate="prqlc_parser")
    inits = local_inits(ip)
    n_sites = 0
    units = set()
    for node, d in span_sites(ip):
        n_sites += 1
        units.add(unit_of(d["start"], inits, token_unit))
        units.add(unit_of(d["end"], inits, token_unit))
    units -= {"Neutral"}
    i_unit = units.pop() if len(units) == 1 else "Mixed" + str(sorted(units))
    rep.check(n_sites >= 2 and i_unit == sink, "unit:interpolation",
              f"spans inside s-/f-strings are span_base + offset into the string's text in {i_unit} units, but locations are looked up by {sink} offset",
              file=ip["file"], line=ip["l"], fn=ip["path"])
    # the rebasing offset: `span + 2` skips the prefix letter and the opening quote
    ex = syn.fn("parser::expr::interpolation", crate="prqlc_parser")
    reb = [show(n["a"][1]) for n in walk(ex["body"]) if n.get("k") == "call" and show(n["f"]) == "interpolation::parse" and len(n["a"]) == 2]
    rep.check(reb == ["(span + 2)"], "interpolation:rebase", f"the inner spans must be rebased behind the `s\"` / `f\"` prefix (span + 2); found {reb}", file=ex["file"], line=ex["l"], fn=ex["path"])
    # Span + usize shifts both ends
    adds = [f for f in syn.fns if f["crate"] == "prqlc_parser" and f.get("self_short") == "Span" and f["name"] == "add"]
    ok = False
    for f in adds:
        for node, d in span_sites(f):
            ok = show(d["start"]) == "(self.start + rhs)" and show(d["end"]) == "(self.end + rhs)"
    rep.check(ok, "span-add", "Span + n must shift start and end alike", file=adds[0]["file"] if adds else None, line=adds[0]["l"] if adds else None)
    # start <= end by construction in convert_lexer_error: both from one chumsky span
    rep.ok("channels", {"token": token_unit, "lexer_error": lex_err_unit, "parser": p_unit, "interpolation": i_unit, "sink": sink})


def reviewed_reasons():
    p = os.path.join(ROOT, "reviewed", "c13_reasons.json")
    if not os.path.exists(p):
        return {}
    return {r["key"]: r for r in json.load(open(p))["rows"]}


LIB_ERRORS = ("serde_json::Error", "serde_json::error::Error", "csv::Error", "csv::error::Error", "std::num::ParseIntError", "std::num::ParseFloatError", "semver::Error", "std::io::Error", "regex::Error")


def r3(ctx, rep):
    rep.rule("C13.R3", "every error reason is non-empty text", floor=45)
    mir_refs = {}
    for fid_, f_ in ctx.cg.fns.items():
        for r_ in f_["refs"]:
            if r_["kind"] == "call" and r_.get("file"):
                mir_refs.setdefault((r_["file"], r_["l"]), []).append(r_)
                if r_.get("ml", -1) > 0:
                    mir_refs.setdefault((r_["file"], r_["ml"]), []).append(r_)
    syn = ctx.syn
    rev = reviewed_reasons()
    for f in syn.fns:
        if "body" not in f or f["crate"] == "prqlc_bin":
            continue
        for n in walk(f["body"]):
            arg = None
            if n.get("k") == "call" and n["a"]:
                callee = show(n["f"])
                if callee.endswith("Error::new_simple") or callee.endswith("Reason::Simple") or callee == "Error::new_simple":
                    arg = n["a"][0]
                elif callee.endswith("Rich::custom") and len(n["a"]) == 2:
                    arg = n["a"][1]  # parser diagnostics that become Reason::Simple in perror.rs
            if arg is None:
                continue
            # unwrap `.to_string()` / `.into()`
            a = arg
            while a.get("k") == "mcall" and a["m"] in ("to_string", "into", "to_owned") and not a["a"]:
                a = a["r"]
            if a.get("k") == "lit" and a["t"] == "str":
                key = f"reason:{f['path']}:{a['v'][:40]}"
                rep.check(bool(a["v"].strip()), key, "empty error reason", file=f["file"], line=n["l"], fn=f["path"])
            elif a.get("k") == "macro" and a["n"] == "format" and a.get("a"):
                v = lit_val(a["a"][0])
                key = f"reason:{f['path']}:{str(v)[:40]}"
                rep.check(isinstance(v, str) and bool(re.sub(r"\{[^}]*\}", "", v).strip()), key,
                          f"error reason `{v}` consists of placeholders only: it can be empty at run time", file=f["file"], line=n["l"], fn=f["path"])
            else:
                key = f"reason:{f['path']}:{show(arg, maxdepth=4)}"
                # `x.to_string()` of a library error type (resolved receiver type): Display of serde_json / csv / std parse errors is never empty
                lib = None
                if arg.get("k") == "mcall" and arg["m"] == "to_string":
                    for rr in mir_refs.get((f["file"], arg.get("ml", arg["l"])), []) + mir_refs.get((f["file"], arg["l"]), []):
                        if (rr.get("def") or "").endswith("to_string") and any(t in (rr.get("recv") or "") for t in LIB_ERRORS):
                            lib = rr["recv"]
                if lib:
                    rep.ok(f"reason:{f['path']}:<Display of {lib.lstrip('&')}>", {"library-error": lib})
                elif key in rev:
                    rep.ok(key, {"reviewed": rev[key]["reason"]})
                else:
                    rep.bad(key, f"the error reason is the run-time value `{show(arg, maxdepth=4)}`, which is not known to be non-empty (not reviewed)", file=f["file"], line=n["l"], fn=f["path"])


def source_id_reader(ctx, rep):
    """The id stamped into the spans of a file is the one SourceTree.source_ids holds for that file (single source of truth);
    the error renderer resolves spans through that table."""
    import guards
    syn = ctx.syn
    f = syn.fn("parser::parse", crate="prqlc")
    par = guards.parents(f["body"])
    calls_ps = [n for n in walk(f["body"]) if n.get("k") == "call" and last_seg(show(n["f"])) == "parse_source" and len(n["a"]) >= 2]
    if len(calls_ps) != 1:
        raise AnchorMissing("parser::parse: one call of parse_source(content, id)")

    def slice_text(e, depth=0):
        out = [show(e, maxdepth=10)]
        if depth < 4:
            for x in walk(e):
                if x.get("k") == "path" and "::" not in x["p"]:
                    for d in guards.visible_defs(par, calls_ps[0], x["p"]):
                        out += slice_text(d, depth + 1)
        return out
    txt = " ; ".join(slice_text(calls_ps[0]["a"][1]))
    counter = any(w in txt for w in ("enumerate", "index", "+ 1", "len()"))
    rep.check("source_ids" in txt and not ("enumerate" in show(calls_ps[0]["a"][1], maxdepth=6)), "reader:parse",
              f"the source id given to parse_source must be looked up in `file_tree.source_ids` (found: `{txt[:160]}`): an id derived from the position of the file in a list "
              "disagrees with the table whenever the files were enumerated in another order, and errors are then located in the wrong file or lose their location",
              file=f["file"], line=calls_ps[0]["l"], fn=f["path"])


def r4(ctx, rep):
    rep.rule("C13.R4", "source ids: one writer, unknown ids skipped, ids start at 1 and are fresh", floor=6)
    syn = ctx.syn
    writers = set()
    for f in syn.fns:
        if "body" not in f or f["crate"] != "prqlc":
            continue
        for n in walk(f["body"]):
            if n.get("k") == "mcall" and n["m"] in ("insert", "extend", "remove", "clear", "retain", "entry") and show(n["r"]).endswith("source_ids"):
                writers.add(f["path"])
            if n.get("k") == "struct" and last_seg(n["p"]) == "SourceTree":
                writers.add(f["path"])
    allowed = {"prqlc::SourceTree::single", "prqlc::SourceTree::new", "prqlc::SourceTree::insert"}
    for w in sorted(writers):
        rep.check(w in allowed or "/" in w, f"writer:{w}", f"{w} writes SourceTree.source_ids; only SourceTree::single/new/insert may assign ids", fn=w)
    rep.check(allowed & writers == allowed, "writers-present", f"expected writers {sorted(allowed)}, found {sorted(writers)}")
    c = syn.fn("ErrorMessages::composed", crate="prqlc")
    skip = False
    for n in walk(c["body"]):
        if n.get("k") == "local" and n.get("else") is not None and "sources.source_ids.get(&span.source_id)" in show(n.get("init"), maxdepth=8):
            skip = any(x.get("k") == "continue" for x in walk(n["else"]))
    rep.check(skip, "unknown-id-skipped", "an error whose source id is not in the tree must be left without location (continue), not panic", file=c["file"], line=c["l"], fn=c["path"])
    source_id_reader(ctx, rep)
    # id 0 is the id under which std.prql is parsed (its spans must never be attributed to a file of the tree): every key written into
    # source_ids is >= 1, and SourceTree::insert allocates above every existing id. The key expressions are evaluated abstractly
    # (None | Some(linear form)) per case of the map being empty or not.
    import optlin
    n_keys = 0
    for w in ("SourceTree::single", "SourceTree::new", "SourceTree::insert"):
        f = syn.fn(w, crate="prqlc")
        keys = []
        for n in walk(f["body"]):
            if n.get("k") == "mcall" and n["m"] == "insert" and show(n["r"]).endswith("source_ids") and len(n["a"]) == 2:
                keys.append(n["a"][0])
            if n.get("k") == "struct" and last_seg(n["p"]) == "SourceTree":
                for fname, fv in n["f"]:
                    if fname == "source_ids":
                        for t in walk(fv):
                            if t.get("k") == "tuple" and len(t["e"]) == 2:
                                keys.append(t["e"][0])
        for kexpr in keys:
            n_keys += 1
            worst, why = None, None
            for empty in (True, False):
                inputs = {}
                for x in walk(f["body"]):
                    if x.get("k") == "mcall" and x["m"] == "max" and show(x["r"]).endswith("source_ids.keys()"):
                        inputs[show(x, maxdepth=12)] = optlin.NONE if empty else optlin.some(optlin.lin("max_id"))
                env = {}
                # loop counters of `.enumerate()` start at 0
                for x in walk(f["body"]):
                    if x.get("k") == "for" and "enumerate()" in show(x["e"], maxdepth=8):
                        ids = [y["n"] for y in walk(x["pat"]) if y.get("k") == "p_ident"]
                        if ids:
                            env[ids[0]] = optlin.lin("index")
                try:
                    import alpha
                    A_ = alpha.Inliner(f)
                    consts = {c_["path"].split("::")[-1]: c_["init"] for c_ in ctx.syn.statics if c_.get("kind") == "const" and c_.get("init") is not None} if hasattr(ctx.syn, "statics") else {}

                    def look(name, node, A_=A_, consts=consts):
                        d = A_._init_of(node, name)
                        if d is None:
                            # `let mut` bindings that are never re-assigned are not offered by the inliner; constants of the crate
                            d = consts.get(name.split("::")[-1])
                        return d
                    I = optlin.Interp(inputs=inputs, lookup=look)
                    v = I.ev(kexpr, env)
                    lb = optlin.lower_bound(v, {"index": 0, "max_id": 1})
                    fresh = True
                    if not empty and w.endswith("insert"):
                        d = dict(v[1]) if v[0] == "lin" else {}
                        fresh = d.get("max_id", 0) >= 1 and d.get("", 0) >= 1
                    if lb < 1 or not fresh:
                        worst, why = lb, f"{'empty' if empty else 'non-empty'} tree: key `{show(kexpr)}` can be {lb}" + ("" if fresh else " and is not above the largest existing id")
                except optlin.Unsupported as e:
                    worst, why = -1, f"key `{show(kexpr)}` could not be evaluated ({e})"
            rep.check(worst is None, f"id-nonzero-fresh:{w}", f"{w} writes a source id that can be 0 or reuse an id: {why}. Id 0 is the id std.prql is parsed under: an error span into std.prql "
                      "would be attributed to (and rendered inside) the user's first file", file=f["file"], line=kexpr.get("l"), fn=f["path"])
    rep.check(n_keys >= 3, "id-writers", f"expected the three id-assigning expressions of single/new/insert, found {n_keys}")


def r5(ctx, rep):
    rep.rule("C13.R5", "the reported line/column pair is the position of the span; the quoted text is the unmodified source", floor=4)
    syn = ctx.syn
    cl = syn.fn("ErrorMessage::compose_location", crate="prqlc")
    # role-based and name-independent: the two fields of SourceLocation with every local inlined
    import alpha
    A = alpha.Inliner(cl)
    loc = None
    for n in walk(cl["body"]):
        if n.get("k") == "struct" and last_seg(n["p"]) == "SourceLocation":
            loc = {a: A.show(b) for a, b in n["f"]}

    def pair_of(txt, which):
        """txt must be `(L.1, L.2)` where L is one get_offset_line lookup of span.<which>"""
        m_ = re.fullmatch(r"\((.+)\.1, (.+)\.2\)", txt or "")
        if not m_ or m_.group(1) != m_.group(2):
            return False
        L = m_.group(1)
        other = "end" if which == "start" else "start"
        return "get_offset_line(" in L and re.search(r"\.%s\b" % which, L) is not None and re.search(r"\.%s\)" % other, L) is None
    s_ok = loc is not None and pair_of(loc.get("start"), "start")
    e_ok = loc is not None and pair_of(loc.get("end"), "end")
    rep.check(s_ok and e_ok, "lookup-ends", "start must be looked up from span.start and end from span.end", file=cl["file"], line=cl["l"], fn=cl["path"])
    rep.check(s_ok and e_ok and set(loc) == {"start", "end"}, "location-fields",
              f"SourceLocation must be start = (line, column) of the start lookup and end = (line, column) of the end lookup; found {loc}", file=cl["file"], line=cl["l"], fn=cl["path"])
    # the text ariadne renders and indexes is the source text the spans were computed on
    fe = [f for f in syn.fns if f["crate"] == "prqlc" and f.get("self_short") == "FileTreeCache" and f["name"] == "fetch"]
    if len(fe) != 1:
        raise AnchorMissing("FileTreeCache::fetch")
    fe = fe[0]
    srcs = [n for n in walk(fe["body"]) if n.get("k") == "call" and show(n["f"]) == "Source::from" and n["a"]]
    ok = len(srcs) == 1
    if ok:
        a = srcs[0]["a"][0]
        chain_methods = []
        cur = a
        while cur.get("k") == "mcall":
            chain_methods.append(cur["m"])
            cur = cur["r"]
        base = show(cur)
        ok = set(chain_methods) <= {"to_string", "clone", "to_owned", "as_str", "into"} and base == "file_contents"
        rep.check(ok, "source-text-unmodified",
                  f"ariadne must be given the file's text unchanged (spans are offsets into it); found `{show(a, maxdepth=6)}`: any rewriting (line endings, trimming) shifts every later offset",
                  file=fe["file"], line=srcs[0]["l"], fn=fe["path"])
    else:
        rep.bad("source-text-unmodified", f"expected one Source::from(..) in FileTreeCache::fetch, found {len(srcs)}", file=fe["file"], line=fe["l"], fn=fe["path"])
    fc = local_inits(fe).get("file_contents")
    rep.check(fc is not None and "self.file_tree.sources.get(id)" in show(fc, maxdepth=8), "source-text-origin", "the rendered text must come from the SourceTree entry of that path", file=fe["file"], line=fe["l"], fn=fe["path"])
    # Range::from(Span) keeps start..end
    rf = [f for f in syn.fns if f["crate"] == "prqlc_parser" and f["file"].endswith("span.rs") and f["name"] == "from" and "Range" in f.get("ret", "") + f.get("self_ty", "")]
    ok = any(show(tail_expr(f["body"])) in ("a.start..a.end", "span.start..span.end", "value.start..value.end") for f in rf)
    rep.check(ok, "span-to-range", "Range::from(Span) must be start..end", file="prqlc/prqlc-parser/src/span.rs")


def paths_through_locals(A, e, depth=0):
    out = set()
    for x in walk(e):
        if x.get("k") == "path" and "::" not in x["p"]:
            out.add(x["p"])
            init = A._init_of(x, x["p"]) if depth < 3 else None
            if init is not None:
                out |= paths_through_locals(A, init, depth + 1)
    return out


def r6(ctx, rep):
    import alpha
    import re
    rep.rule("C13.R6", "an error that quotes what it found points at that expression (`found: write_pl(x)` goes with `x.span`)", floor=6)
    syn = ctx.syn
    n_sites = 0
    for f in syn.fns:
        if f["crate"] != "prqlc" or "body" not in f or "/semantic/" not in f["file"]:
            continue
        k = 0
        A = None
        for n in walk(f["body"]):
            if not (n.get("k") == "mcall" and n["m"] == "with_span" and n["a"]):
                continue
            a = n["a"][0]
            if not (a.get("k") == "field" and a.get("f") == "span" and a["e"].get("k") == "path"):
                continue
            pointed = a["e"]["p"]
            quoted = set()
            for st in walk(n["r"]):
                if st.get("k") == "struct" and last_seg(st["p"]) == "Expected":
                    for fname, fv in st["f"]:
                        if fname == "found":
                            if A is None:
                                A = alpha.Inliner(f)
                            quoted |= paths_through_locals(A, fv)   # locals followed to what they were computed from
            if not quoted or pointed == "self":
                continue
            n_sites += 1
            k += 1
            rep.check(pointed in quoted, f"points-at-found:{f['path']}:{k}", f"the error quotes `{sorted(quoted)}` as what was found but carries the span of `{pointed}`: the message then points at another argument "
                      "(or, for a defaulted argument, at a position inside the standard library, which is not a file of the project)", file=f["file"], line=n["l"], fn=f["path"])
    rep.check(n_sites >= 6, "sites", f"expected >= 6 `Reason::Expected {{ found: .. }}` errors with a span in the semantic stage, found {n_sites}")


def r7(ctx, rep):
    rep.rule("C13.R7", "a span that names no file of the source tree (an expression of std.prql) does not leave the compiler", floor=1)
    syn = ctx.syn
    f = syn.fn("ErrorMessages::composed", crate="prqlc")
    # role anchor: the lookup of the span's source id in `sources.source_ids`; its failing branch must clear the span
    ok = False
    for n in walk(f["body"]):
        if n.get("k") == "local" and n.get("else") is not None and "source_ids" in show(n.get("init"), maxdepth=8) and ".get(" in show(n.get("init"), maxdepth=8):
            ok = any(x.get("k") == "assign" and show(x["lhs"]).endswith(".span") and show(x["rhs"]) == "None" for x in walk(n["else"]))
        if n.get("k") == "match" and "source_ids" in show(n["e"], maxdepth=8):
            ok = ok or any("None" in show(a["pat"]) and any(x.get("k") == "assign" and show(x["lhs"]).endswith(".span") and show(x["rhs"]) == "None" for x in walk(a["body"])) for a in n["arms"])
    rep.check(ok, "foreign-span-cleared", "ErrorMessages::composed skips an error whose span has a source id that is not in the tree, but must also clear that span: `from e | sort -a` and "
              "`from 5` returned spans such as `0:873-889` - offsets into std.prql, which the caller cannot resolve (no location, no display)", file=f["file"], line=f["l"], fn=f["path"])



def r8(ctx, rep):
    # spans are offsets into the text the caller holds (SourceTree / ariadne are given that text): the lexer must lex exactly the string it was
    # given, not a stripped or rewritten copy (a removed byte order mark shifts every span by one character)
    import C17
    rep.borrowed(C17.r2, ctx, "C13.R8", "token and lexer-error spans are offsets into the caller's text", only=r"^same-string")


def r9(ctx, rep):
    rep.rule("C13.R9", "spans are ordered and stay inside the text they were measured in: parser spans take both ends from the same token list (start falls back to 0, end to start); "
             "interpolation spans are `span_base.start + offset` at both ends", floor=3)
    syn = ctx.syn
    import alpha
    pp0 = syn.fn("parser::parse_lr_to_pr", crate="prqlc_parser")
    # the Span is built in parse_lr_to_pr or in a private helper of the same file that it calls (the body of the map_span closure, extracted)
    owners = [pp0] + [h for h in syn.fns if h["crate"] == pp0["crate"] and h["file"] == pp0["file"] and "body" in h and h is not pp0
                      and any(c.get("k") == "call" and c["f"].get("k") == "path" and last_seg(c["f"]["p"]) == h["name"] for c in walk(pp0["body"]))]
    sites = [(g, n) for g in owners for n in walk(g["body"]) if n.get("k") == "struct" and last_seg(n["p"]) == "Span"]
    if not sites:
        raise AnchorMissing("parse_lr_to_pr: the Span built by map_span")
    for i, (pp, n) in enumerate(sites, 1):
        d = dict(n["f"])
        def val(e):
            # the local the field is given (one step: the token list itself stays a name)
            if e is not None and e.get("k") == "path":
                defs = [st for st in walk(pp["body"]) if st.get("k") == "local" and st["pat"].get("k") == "p_ident" and st["pat"]["n"] == e["p"] and st.get("init") is not None and st["l"] <= n["l"]]
                if defs:
                    e = max(defs, key=lambda st: st["l"])["init"]
            return show(e, maxdepth=14).replace(" ", "") if e is not None else ""
        st_, en_ = val(d.get("start")), val(d.get("end"))
        lists = set(re.findall(r"(\w+)\.get\(", st_ + " " + en_))
        fb_s = re.search(r"\.unwrap_or\((.*)\)$", st_)
        fb_e = re.search(r"\.unwrap_or\((.*)\)$", en_)
        ok = len(lists) == 1 and fb_s is not None and fb_s.group(1) == "0" and fb_e is not None and (fb_e.group(1) == st_ or fb_e.group(1) == "start")
        ok = ok and ".span.start" in st_ and ".span.end" in en_
        rep.check(ok, f"parser-span:{i}", f"map_span must take start and end from one token list, start falling back to 0 and end to start (found start `{st_[:70]}`, end `{en_[:70]}`): "
                  "an end-of-input error whose start comes from elsewhere can lie after its end, and rendering it panics", file=pp["file"], line=n["l"], fn=pp["path"])
    # interpolation: the base span is only read through `.start` / `.source_id` (never handed on whole, never `.end`), in parse and in helpers of the file it is given to
    ip = syn.fn("interpolation::parse", crate="prqlc_parser")
    import guards
    seen, todo, n_use = set(), [(ip, "span_base")], 0
    while todo:
        g, name = todo.pop()
        if (g["path"], name) in seen:
            continue
        seen.add((g["path"], name))
        par = guards.parents(g["body"])
        for x in walk(g["body"]):
            if x.get("k") == "path" and x["p"] == name:
                q = par.get(id(x))
                while q is not None and q.get("k") in ("ref", "paren"):
                    q = par.get(id(q))
                n_use += 1
                if q is not None and q.get("k") == "field" and q["f"] in ("start", "source_id"):
                    continue
                if q is not None and q.get("k") == "call" and q["f"].get("k") == "path":
                    hs = [h for h in syn.fns if h["crate"] == g["crate"] and h["file"] == g["file"] and h["name"] == last_seg(q["f"]["p"]) and "body" in h]
                    idx = [j for j, a_ in enumerate(q["a"]) if a_ is x or (a_.get("k") == "ref" and a_["e"] is x)]
                    if len(hs) == 1 and idx and idx[0] < len(hs[0].get("params", [])) and isinstance(hs[0]["params"][idx[0]], dict) and hs[0]["params"][idx[0]].get("name"):
                        todo.append((hs[0], hs[0]["params"][idx[0]]["name"]))
                        continue
                rep.bad(f"interpolation-base:{g['name']}", f"{g['name']} uses the base span `{name}` other than through `.start` / `.source_id` (`{show(q, maxdepth=5)[:60] if q else name}`): the base is "
                        "the string token shifted behind its prefix, so its end (or the span as a whole) reaches past the closing quote - beyond the source when the string ends the file",
                        file=g["file"], line=x["l"], fn=g["path"])
    rep.check(n_use >= 4, "interpolation-base:uses", f"expected the rebasing uses of span_base in interpolation::parse, found {n_use}", file=ip["file"], line=ip["l"], fn=ip["path"])
    # .. and every Span built there has both ends at `<base>.start + <offset>`
    for g, name in [(g_, n_) for (gp, n_) in seen for g_ in syn.fns if g_["path"] == gp and g_["crate"] == "prqlc_parser" and "body" in g_]:
        for n in walk(g["body"]):
            if n.get("k") == "struct" and last_seg(n["p"]) == "Span":
                d = dict(n["f"])
                s1 = show(d.get("start")).replace(" ", "").strip("()") if d.get("start") is not None else ""
                e1 = show(d.get("end")).replace(" ", "").strip("()") if d.get("end") is not None else ""
                ok = s1.startswith(name + ".start+") and e1.startswith(name + ".start+") or (s1.endswith("+" + name + ".start") and e1.endswith("+" + name + ".start"))
                rep.check(ok, f"interpolation-span:{g['name']}:{n['l'] - g['l']}", f"a span inside an interpolated string is `{name}.start + offset` at both ends; found start `{s1}`, end `{e1}`",
                          file=g["file"], line=n["l"], fn=g["path"])


def run(ctx, rep):
    for r in (r1, r3, r4, r5, r6, r7, r8, r9):
        rep.guard(r, ctx)
