"""C10 - ill-scoped programs are rejected, never compiled to something else.

Decides (guard discipline at the sites that decide scope):
  R1 every extraction of ONE element from a name-lookup result is guarded by `len == 1`; two or more matches
     return the ambiguity error
  R2 too many positional arguments and unknown named arguments are errors
  R3 a column is inferred only into a relation whose type has a wildcard
  R4 argument types are validated on the call path; a non-relation where a relation is required is an error
  R5 the lowering never passes an unresolved name through to SQL (today it does: known finding)
Not decided: that every ill-scoped program reaches one of these sites.
"""
from synq import (walk, show, show_stmts, strs, last_seg, pat_alts, pat_head, tail_expr, matches_of, mcalls, calls,
                  macros, lit_val, AnchorMissing, walk_no_closure)
import os
import re
import guards
import flow

META = (
    "guard discipline at scope-deciding sites",
    ["A1"],
    "dominance of cardinality / arity / wildcard tests over the extraction, insertion and application sites they guard, "
    "on the syntax trees of names.rs, functions.rs, inference.rs, types.rs and lowering.rs",
    True,
)


def r1(ctx, rep):
    rep.rule("C10.R1", "a name that matches several declarations is an error, never an arbitrary pick", floor=7)
    syn = ctx.syn
    n_lookup = 0
    for f in syn.fns_in_file("semantic/resolver/names.rs"):
        if "body" not in f:
            continue
        par = guards.parents(f["body"])
        # locals holding a lookup result
        lookups = set()
        for n in walk(f["body"]):
            if n.get("k") in ("local", "assign"):
                init = n.get("init") if n.get("k") == "local" else n.get("rhs")
                name = show(n["pat"]) if n.get("k") == "local" else show(n["lhs"])
                if init is not None and ".lookup(" in show(init, maxdepth=6):
                    lookups.add(name.replace("mut ", ""))
        for var in sorted(lookups):
            n_lookup += 1
            # every single-element extraction of var
            for n in walk(f["body"]):
                if n.get("k") == "mcall" and n["m"] in ("next", "first", "last", "nth") and show(n["r"]) in (f"{var}.into_iter()", f"{var}.iter()"):
                    g = guards.len_is_one_guard(n, par, var)
                    rep.check(bool(g), f"extract:{f['name']}:{var}",
                              f"`{show(n)}` takes one element of the lookup result `{var}` without a dominating `{var}.len() == 1` test: with two candidates an arbitrary one is resolved",
                              detail=g, file=f["file"], line=n["l"], fn=f["path"])
            # the >= 2 edge returns the ambiguity error
            for m in matches_of(f["body"]):
                if show(m["e"]) == f"{var}.len()":
                    wild = [arm for arm in m["arms"] if pat_head(arm["pat"]) == "_"]
                    ok = bool(wild) and "ambiguous_error(" in show(wild[0]["body"], maxdepth=8) and "Err(" in show(wild[0]["body"], maxdepth=8)
                    rep.check(ok, f"ambiguous:{f['name']}:{var}:{m['l'] - f['l'] if False else len([1])}",
                              f"`match {var}.len()`: two or more matches must return Err(ambiguous_error(..))", file=f["file"], line=m["l"], fn=f["path"])
            for i in walk(f["body"]):
                if i.get("k") == "if" and show(i["c"]) == f"({var}.len() != 1)":
                    ok = any(r.get("k") == "return" and show(r.get("e")).startswith("Err(") for r in walk(i["t"]))
                    rep.check(ok, f"not-one:{f['name']}:{var}", f"`if {var}.len() != 1` must return an error", file=f["file"], line=i["l"], fn=f["path"])
    rep.check(n_lookup >= 3, "lookup-sites", f"expected >= 3 functions holding lookup results in names.rs, found {n_lookup}")
    # Module::lookup returns ALL matches (it must not stop at the first)
    lk = syn.fn("Module::lookup", crate="prqlc")
    rep.check("HashSet<Ident>" in lk["ret"], "lookup:returns-set", f"Module::lookup must return the set of all matching declarations (returns {lk['ret']})", file=lk["file"], line=lk["l"], fn=lk["path"])
    ae = syn.fn("names::ambiguous_error", crate="prqlc")
    rep.check("'Ambiguous name'" in show_stmts(ae["body"], maxdepth=8), "ambiguous-error", "ambiguous_error must build the `Ambiguous name` error", file=ae["file"], line=ae["l"], fn=ae["path"])


def r2(ctx, rep):
    rep.rule("C10.R2", "surplus positional and unknown named arguments are errors", floor=3)
    syn = ctx.syn
    f = syn.fn("Resolver::fold_function", crate="prqlc")
    ok = False
    for i in f["body"]["s"]:
        if i.get("k") == "if" and show(i["c"]) == "(closure.args.len() > closure.params.len())":
            # (the message may be built by a helper; what matters is that this branch returns an error)
            ok = any(r.get("k") == "return" and show(r.get("e"), maxdepth=4).startswith("Err(") for r in walk(i["t"]))
    rep.check(ok, "too-many", "fold_function must reject a call with more positional arguments than parameters", file=f["file"], line=f["l"], fn=f["path"])
    # the test must come before the closure is applied
    idx = [j for j, s in enumerate(f["body"]["s"]) if s.get("k") == "if" and show(s["c"]) == "(closure.args.len() > closure.params.len())"]
    idx2 = [j for j, s in enumerate(f["body"]["s"]) if "resolve_function_args" in show_stmts({"k": "block", "s": [s]}, maxdepth=8)]
    rep.check(bool(idx) and bool(idx2) and idx[0] < idx2[0], "too-many:first", "the arity test must precede argument resolution", file=f["file"], line=f["l"], fn=f["path"])
    g = syn.fn("Resolver::apply_args_to_closure", crate="prqlc")
    ok = False
    for i in walk(g["body"]):
        if i.get("k") == "if" and i["c"].get("k") == "let" and "named_args" in show(i["c"]["e"]):
            import guards as _gy
            ok = _gy.yields_err(g["body"], i, i["t"]) and any("unknown named argument" in s for s in strs(i["t"]))
    rep.check(ok, "unknown-named", "a named argument that matches no named parameter must be an error", file=g["file"], line=g["l"], fn=g["path"])
    # named args are consumed by `remove`, so what is left is exactly the unknown ones
    rem = [n for n in walk(g["body"]) if n.get("k") == "mcall" and n["m"] == "remove" and show(n["r"]) == "named_args"]
    rep.check(len(rem) == 1 and show(rem[0]["a"][0]) == "param_name", "named-consumed", "each named parameter must take (remove) its argument so that leftovers are detectable", file=g["file"], line=g["l"], fn=g["path"])


def r3(ctx, rep):
    rep.rule("C10.R3", "columns are inferred only into relations with a wildcard", floor=3)
    syn = ctx.syn
    f = syn.fn("Resolver::infer_table_column", crate="prqlc")
    stmts = f["body"]["s"]

    def is_push(n):
        return n.get("k") == "mcall" and n["m"] == "push" and n["a"] and show(n["a"][0], maxdepth=4).startswith("TyTupleField::Single(")
    push_idx = [j for j, s in enumerate(stmts) if any(is_push(n) for n in walk_no_closure(s))]
    Ai = __import__("alpha").Inliner(f)

    def wildcard_test(c):
        """`!<relation type has a wildcard field>` with the local inlined"""
        while c.get("k") == "paren":
            c = c["e"]
        if not (c.get("k") == "un" and c["op"] == "!"):
            return False
        e = c["e"]
        for _ in range(3):
            if e.get("k") == "path" and "::" not in e["p"]:
                i = Ai._init_of(e, e["p"])
                if i is None:
                    break
                e = i
        return any(n.get("k") == "p_ts" and n["p"] == "TyTupleField::Wildcard" for n in walk(e)) and ".any(" in show(e, maxdepth=10)
    guard_idx = [j for j, s in enumerate(stmts) if s.get("k") == "if" and wildcard_test(s["c"])
                 and any(r.get("k") == "return" and show(r.get("e")).startswith("Err(") for r in walk(s["t"]))]
    rep.check(bool(push_idx) and bool(guard_idx) and guard_idx[0] < push_idx[0], "wildcard-guard",
              "the new column may be pushed only after `if !has_wildcard { return Err(..) }`: a frame that is fully known (after select / aggregate / group) must reject unknown names",
              file=f["file"], line=f["l"], fn=f["path"])
    ok = bool(guard_idx)
    rep.check(ok, "has_wildcard", "has_wildcard must test the relation type for a wildcard field", file=f["file"], line=f["l"], fn=f["path"])
    # ambiguous inference source is an error
    m = None
    for mm in matches_of(f["body"]):
        if show(mm["e"]) == "wildcard_inputs.len()":
            m = mm
    ok = False
    if m:
        rows = {str(pat_head(a["pat"])): a for a in m["arms"]}
        ok = "('lit', '0')" in rows and "_" in rows and all(
            any(r.get("k") == "return" and show(r.get("e")).startswith("Err(") for r in walk(rows[k]["body"])) for k in ("('lit', '0')", "_"))
    rep.check(ok, "inference-source", "a column that could come from zero or from several wildcard inputs must be an error", file=f["file"], line=f["l"], fn=f["path"])
    # `select !{a}` leaves `All { input_id, except: {a} }` in the frame: the scope built from the frame must know the exclusions, otherwise `a` is inferred back into the relation
    fr = syn.fn("Module::insert_frame", crate="prqlc")
    arms = [arm for m in matches_of(fr["body"]) for arm in m["arms"] if "LineageColumn::All" in show(arm["pat"])
            and any("NS_INFER" in show(x, maxdepth=4) for x in walk(arm["body"]) if x.get("k") == "mcall" and x["m"] == "insert")]
    rep.check(len(arms) == 1, "infer-decl-site", f"expected the arm of insert_frame that declares NS_INFER for a `LineageColumn::All`, found {len(arms)}", file=fr["file"], line=fr["l"], fn=fr["path"])
    for arm in arms:
        binds = [a for a, b in arm["pat"].get("f", [])] if arm["pat"].get("k") == "p_struct" else []
        uses = "except" in binds and any(x.get("k") == "path" and x["p"] == "except" for x in walk(arm["body"]))
        rep.check(uses, "infer-ignores-except", "insert_frame declares the inference slot of `t.*` without looking at the `except` set of the frame column: after `select !{a}` the name `a` is inferred "
                  "into `t` again (`from t | select !{a} | select a` compiles to `SELECT a FROM t`)", file=fr["file"], line=arm["l"], fn=fr["path"])


def r4(ctx, rep):
    rep.rule("C10.R4", "types are validated on the call path; a scalar where a relation is required is an error", floor=4)
    syn = ctx.syn
    f = syn.fn("Resolver::fold_and_type_check", crate="prqlc")
    ok = any(n.get("k") == "try" and "self.validate_expr_type(&mut arg, param.ty.as_ref(), &who)" in show(n["e"], maxdepth=8) for n in walk(f["body"]))
    rep.check(ok, "validate-args", "every resolved argument must be checked against its parameter type (validate_expr_type ... ?)", file=f["file"], line=f["l"], fn=f["path"])
    callers = [g for g in syn.fns if g["crate"] == "prqlc" and "body" in g and any(n.get("k") == "mcall" and n["m"] == "fold_and_type_check" for n in walk(g["body"]))]
    rep.check(any(g["name"] == "resolve_function_args" for g in callers), "validate-on-path", f"fold_and_type_check must be called from resolve_function_args (callers: {[g['name'] for g in callers]})")
    v = syn.fn("Resolver::validate_type", crate="prqlc")
    txt = show_stmts(v["body"], maxdepth=10)
    rep.check("is_super_type_of(expected, found)" in txt.replace("&", "") and "Err(" in show_stmts(v["body"], maxdepth=12), "validate-type", "validate_type must return Err when the found type is not a sub-type of the expected one", file=v["file"], line=v["l"], fn=v["path"])
    # the inference of a table type for an untyped expression (meant for s-strings) must not take a call of an internal scalar function:
    # every internal function of std.prql without a declared return type is scalar (add, neg, math.*, sum, ...)
    ve = syn.fn("Resolver::validate_expr_type", crate="prqlc")
    infer = [n for n in walk(ve["body"]) if n.get("k") == "if" and "is_relation()" in show(n["c"], maxdepth=8) and any(x.get("k") == "mcall" and x["m"] == "declare_table_for_literal" for x in walk(n["t"]))]
    ok = False
    for n in infer:
        for x in walk(n["t"]):
            if x.get("k") == "mcall" and x["m"] == "declare_table_for_literal":
                break
            c = None
            if x.get("k") == "if":
                cc = x["c"]
                c, br = (show(cc["pat"]) if cc.get("k") == "macro" and cc["n"] == "matches" else show(cc["pat"]) if cc.get("k") == "let" else show(cc, maxdepth=8)), x["t"]
            elif x.get("k") == "match" and show(x["e"]).endswith("found.kind"):
                for arm in x["arms"]:
                    if "RqOperator" in show(arm["pat"]):
                        c, br = show(arm["pat"]), arm["body"]
            if c and "RqOperator" in c and "!" not in c.split("RqOperator")[0][-12:] and any(r.get("k") == "return" and show(r.get("e"), maxdepth=3).startswith("Err(") for r in walk(br)):
                ok = True
    untyped_scalar = [m_.group(1) for m_ in re.finditer(r"^\s*let (\w+) = [^\n]*-> internal ", open(os.path.join(ctx.repo, "prqlc/prqlc/src/semantic/std.prql")).read(), re.M)]
    rep.check(bool(infer) and ok, "untyped-operator-not-a-table", f"validate_expr_type infers a table type for any untyped expression where a relation is expected; {len(untyped_scalar)} internal functions of std.prql "
              f"declare no return type ({', '.join(untyped_scalar[:6])}, ...) and all are scalar: without a rejection of `RqOperator` before the inference `from (math.abs 5)` compiles to `FROM ABS(5)`",
              file=ve["file"], line=ve["l"], fn=ve["path"])
    t = syn.fn("Lowerer::lower_table_ref", crate="prqlc")
    ok = False
    for m in matches_of(t["body"]):
        if show(m["e"]) == "expr.kind":
            wild = [arm for arm in m["arms"] if pat_head(arm["pat"]) == "_"]
            ok = bool(wild) and any(r.get("k") == "return" and show(r.get("e"), maxdepth=3).startswith("Err(") for r in walk(wild[0]["body"])) and \
                any("a pipeline that resolves to a table" in s for s in strs(wild[0]["body"]))
    rep.check(ok, "relation-required", "lower_table_ref must reject anything that is not a table expression", file=t["file"], line=t["l"], fn=t["path"])


def r5(ctx, rep):
    rep.rule("C10.R5", "an identifier that did not resolve to a column is not emitted as SQL text", floor=1)
    syn = ctx.syn
    f = syn.fn("Lowerer::lower_expr", crate="prqlc")
    found = None
    for m in matches_of(f["body"]):
        for arm in m["arms"]:
            if "Ident" in show(arm["pat"]):
                for n in walk(arm["body"]):
                    if n.get("k") == "call" and show(n["f"]).endswith("ExprKind::SString") and "ident.name" in show(n, maxdepth=8):
                        found = n
    if found is not None:
        # the pass-through is a recorded finding for identifiers WITHOUT a target; it must not widen to identifiers that did resolve
        # (a resolved target missing from the lowerer's mapping is a name of another scope: it has to stay an error)
        from alpha import Inliner
        inl = Inliner(f)
        how = None

        def holds(node):
            return any(x is found for x in walk(node))
        for n in walk(f["body"]):
            if n.get("k") == "if" and n.get("e") is not None and holds(n["e"]) and not (n["e"].get("k") == "if" and holds(n["e"])
                                                                                         and n["e"].get("e") is not None and holds(n["e"]["e"])):
                if n["e"].get("k") == "if":
                    continue
                c = n["c"]
                how = ("if", inl.show(c["e"], strip=True) if c.get("k") == "let" else inl.show(c, strip=True), pat_head(c["pat"]) if c.get("k") == "let" else None)
            if n.get("k") == "match":
                for arm in n["arms"]:
                    if holds(arm["body"]) and not any(m2 is not n and m2.get("k") in ("match", "if") and holds(m2) for m2 in walk(arm["body"])):
                        how = ("match", inl.show(n["e"], strip=True), pat_head(arm["pat"]))
        ok = how is not None and how[1] == "expr.target_id" and ((how[0] == "if" and how[2] == "Some") or (how[0] == "match" and how[2] in ("None", "_")))
        rep.check(ok, "pass-through-only-without-target", f"the bare-name fallback of lower_expr is the alternative of `{how}`; it may be reached only when `expr.target_id` is None. With a further "
                  "condition on the target (e.g. `node_mapping.contains_key`) a name that resolved to something outside this query — a tuple field alias leaked by a function argument — is emitted as SQL "
                  "text instead of being rejected", file=f["file"], line=found["l"], fn=f["path"])
        rep.bad("ident-pass-through", "lower_expr's fallback turns an identifier without target_id into an s-string of its bare name (\"let's hope that the database engine can resolve it\"): "
                "`derive x = std.math` / `derive x = default_db.t2` compile and pass `math` / `t2` to SQL instead of being rejected", file=f["file"], line=found["l"], fn=f["path"])
    else:
        rep.ok("ident-pass-through")


MUTATORS = {"retain", "remove", "drain", "clear", "take", "extract_if", "pop"}


def r6(ctx, rep):
    rep.rule("C10.R6", "the candidate set of a lookup is not narrowed before the 0 / 1 / many decision", floor=3)
    syn = ctx.syn
    reviewed_narrowing = {
        "prqlc::semantic::resolver::names::Resolver::resolve_ident_wildcard:res": "an exact match of the searched `<path>._self` ident replaces the fuzzy candidates (`if res.contains(&ident_self)`): same declaration, not a preference between relations",
        "prqlc::semantic::resolver::names::Resolver::resolve_ident_fallback:decls": "the only reassignment is the retry `decls = lookup(&infer_ident)` after the parent module was inferred, under `if decls.is_empty()` (nothing is discarded)",
    }
    n = 0
    for f in syn.fns_in_file("semantic/resolver/names.rs"):
        if "body" not in f:
            continue
        lookups = {}
        for x in walk(f["body"]):
            if x.get("k") == "local" and x.get("init") is not None and ".lookup(" in show(x["init"], maxdepth=6):
                lookups[show(x["pat"]).replace("mut ", "")] = x
        for var, decl in lookups.items():
            n += 1
            key = f"{f['path']}:{var}"
            muts = []
            for x in walk(f["body"]):
                if x.get("k") == "mcall" and x["m"] in MUTATORS and show(x["r"]) == var:
                    muts.append((x["l"], f".{x['m']}()"))
                if x.get("k") == "assign" and show(x["lhs"]) == var:
                    muts.append((x["l"], f"= {show(x['rhs'], maxdepth=5)}"))
            if not muts:
                rep.ok("narrow:" + key)
                continue
            allowed = False
            if key in reviewed_narrowing:
                # the reviewed shapes: exactly one reassignment and no element-removing call
                allowed = all(m.startswith("= ") for _, m in muts) and len(muts) == 1
            rep.check(allowed, "narrow:" + key,
                      f"the lookup result `{var}` is modified before the cardinality decision ({muts}): candidates are discarded, so a name that matches declarations of two relations "
                      "resolves to the preferred one instead of being reported as ambiguous", detail=reviewed_narrowing.get(key), file=f["file"], line=muts[0][0], fn=f["path"])
    rep.check(n >= 3, "lookup-sites", f"expected >= 3 lookup results in names.rs, found {n}")


def r7(ctx, rep):
    rep.rule("C10.R7", "unknown named arguments are checked on every path; parameter scopes are popped on every exit", floor=3)
    syn = ctx.syn
    g = syn.fn("Resolver::apply_args_to_closure", crate="prqlc")
    stmts = g["body"]["s"]
    idx = None
    for j, st in enumerate(stmts):
        if st.get("k") == "if" and st["c"].get("k") == "let" and "named_args" in show(st["c"]["e"]) and __import__("guards").yields_err(g["body"], st, st["t"]):
            idx = j
    early = []
    if idx is not None:
        for st in stmts[:idx]:
            for x in walk_no_closure(st):
                if x.get("k") == "return" and not show(x.get("e"), maxdepth=3).startswith("Err("):
                    early.append(x["l"])
    rep.check(idx is not None and not early, "named-check-on-every-path",
              f"apply_args_to_closure returns successfully at line(s) {early} before the unknown-named-argument test: on that path a misspelt or inapplicable named argument is silently dropped",
              file=g["file"], line=early[0] if early else g["l"], fn=g["path"])
    # fold_function / materialize_function: NS_PARAM frames are popped on every non-error exit after the push
    for name, allowed_exit in (("Resolver::fold_function", "Ok(*expr_of_func(func, span))"), ("Resolver::materialize_function", None)):
        f = syn.fn(name, crate="prqlc")

        def push_at(g_):
            return [j for j, st in enumerate(g_["body"]["s"]) if any(x.get("k") == "mcall" and x["m"] == "stack_push" and "NS_PARAM" in show(x, maxdepth=6) for x in walk_no_closure(st))]
        if not push_at(f):
            # the frame is pushed and popped in a private method of the same file that this one hands its work to (a wrapper around the body)
            for h in syn.fns:
                if h["crate"] == f["crate"] and h["file"] == f["file"] and "body" in h and h is not f and h["body"].get("k") == "block" and push_at(h) and \
                        any(c.get("k") == "mcall" and c["m"] == h["name"] and show(c["r"]) == "self" for c in walk(f["body"])):
                    f = h
                    break
        stmts = f["body"]["s"]
        pi = push_at(f)
        if not pi:
            rep.bad(f"scope:{f['name']}", "no stack_push(NS_PARAM, ..) found", file=f["file"], line=f["l"], fn=f["path"])
            continue
        rest = {"k": "block", "l": stmts[pi[0]]["l"], "s": stmts[pi[0] + 1:]}

        def popped(x):
            return x.get("k") == "mcall" and x["m"] == "stack_pop" and "NS_PARAM" in show(x, maxdepth=6)
        out, sat, div = flow.exits(rest, popped, False)
        bad = []
        for line, ok in out:
            if ok:
                continue
            # which return is it?
            txt = None
            for x in walk(f["body"]):
                if x.get("k") == "return" and x["l"] == line:
                    txt = show(x.get("e"), maxdepth=6)
            if allowed_exit is not None and txt == allowed_exit:
                continue  # reviewed: the partial-application exit (no input found that observes the leftover frame)
            bad.append((line, txt))
        if not div and not sat:
            bad.append((f["el"], "end of function"))
        rep.check(not bad, f"scope:{f['name']}", f"after stack_push(NS_PARAM, ..) the exit(s) {bad} leave the function without stack_pop(NS_PARAM): the callee's parameter names stay resolvable in "
                  "the caller's scope, so a later bare name that is not in the frame resolves to a parameter instead of being an error", file=f["file"], line=bad[0][0] if bad else f["l"], fn=f["path"])


DROPPING = {"filter", "filter_map", "take", "skip", "take_while", "skip_while", "step_by", "dedup", "unique", "flat_map", "retain", "truncate", "pop", "drain", "remove"}
DISCARDING = {"ok", "err", "is_ok", "is_err", "unwrap_or", "unwrap_or_default", "unwrap_or_else", "map_or", "map_or_else", "or", "or_else", "is_ok_and", "is_err_and"}
ERR_TYPES = ("prqlc_parser::error::Error", "prqlc_parser::error::Errors", "error_message::ErrorMessages", "error_message::ErrorMessage")
# error-discarding adapters on the compiler's own error type: reviewed sites, one reason each
# keyed by (file, adapter) with a count, so that moving the code into a helper of the same file changes nothing
DISCARD_REVIEWED = {
    ("prqlc/prqlc/src/semantic/resolver/names.rs", "is_ok"): (1, "resolve_ident: loop over enclosing module paths; the last attempt's Result (Ok or Err) is what the function goes on with, no error is lost"),
}


def r8(ctx, rep):
    rep.rule("C10.R8", "desugaring keeps every argument; lookups see direct and redirected candidates on every path; type shortcuts constrain both sides; compiler errors are not discarded", floor=8)
    syn, cg = ctx.syn, ctx.cg
    # (a) ast_expand: the argument lists of a call reach the resolver unfiltered
    f = syn.fn("ast_expand::expand_expr", crate="prqlc")
    n_lists = 0
    # (the PL call is built in expand_expr or in a private helper of the same file that it calls)
    builders = [f] + [h for h in syn.fns_in_file("semantic/ast_expand.rs") if "body" in h and h is not f and h["crate"] == "prqlc" and
                      any(c_.get("k") == "call" and last_seg(show(c_["f"])) == h["name"] for c_ in walk(f["body"]))]
    for bf in builders:
        for n in walk(bf["body"]):
            if n.get("k") == "struct" and last_seg(n["p"]) == "FuncCall" and not n["p"].startswith("pr::"):
                for fname, fv in n["f"]:
                    if fname in ("args", "named_args"):
                        n_lists += 1
                        dropping = sorted({c["m"] for c in walk(fv) if c.get("k") == "mcall" and c["m"] in DROPPING})
                        rep.check(not dropping, f"expand:FuncCall.{fname}", f"{bf['name']} builds FuncCall.{fname} through {dropping}: an argument removed here is never seen by the resolver's "
                                  "unknown-named-argument / too-many-arguments checks", file=bf["file"], line=n["l"], fn=bf["path"])
    rep.check(n_lists == 2, "expand:FuncCall", f"expected FuncCall.args and FuncCall.named_args to be rebuilt in expand_expr, found {n_lists}", file=f["file"], line=f["l"], fn=f["path"])
    # (b) Module::lookup: every return is after the loop over the redirects (direct and redirected candidates are united)
    lk = syn.fn("Module::lookup", crate="prqlc")
    body = lk["body"]["s"]
    loop_i = [i for i, st in enumerate(body) if st.get("k") == "for" and "redirects" in show(st.get("iter", st.get("e", {})), maxdepth=6)]
    if not loop_i:
        loop_i = [i for i, st in enumerate(body) if st.get("k") == "for"]
    early = []
    for i, st in enumerate(body[:loop_i[0]] if loop_i else body):
        if st.get("k") == "item_fn":
            continue
        for r in walk(st):
            if r.get("k") == "return":
                early.append(r["l"])
            if r.get("k") in ("item_fn", "closure"):
                pass
    # returns inside the nested helper fn `lookup_in` are its own
    helper_lines = set()
    for st in body:
        if st.get("k") == "item_fn":
            helper_lines |= {r["l"] for r in walk(st) if r.get("k") == "return"}
    early = [l for l in early if l not in helper_lines]
    rep.check(bool(loop_i) and not early, "lookup:union", f"Module::lookup returns at line(s) {early} before the redirects (`this`, `that`, `_param`, `std`) were followed: a name declared directly then hides the "
              "same name behind a redirect instead of being reported as ambiguous", file=lk["file"], line=(early or [lk["l"]])[0], fn=lk["path"])
    rep.check(show(tail_expr(lk["body"])) == "res" and any("res.extend(" in show(x, maxdepth=6) for x in walk(body[loop_i[0]])) if loop_i else False, "lookup:accumulates",
              "Module::lookup must accumulate the candidates of every redirect into the result", file=lk["file"], line=lk["l"], fn=lk["path"])
    # (c) is_super_type_of*: a shortcut that accepts must look at BOTH types
    n_short = 0
    for name in ("is_super_type_of", "is_super_type_of_opt"):
        g = syn.fn("resolver::types::" + name, crate="prqlc")
        params = [p.split(":")[0].strip() for p in (show(x.get("pat", x)) if isinstance(x, dict) else str(x) for x in g.get("params", []))]
        for n in walk(g["body"]):
            if n.get("k") == "if" and any(r.get("k") == "return" and show(r.get("e")) == "true" for r in walk(n["t"])):
                n_short += 1
                c = show(n["c"], maxdepth=8)
                missing = [p for p in params if not re.search(r"\b" + re.escape(p) + r"\b", c)]
                # ... and positively: `!subset.kind.is_function()` admits every other kind, and is_super_type_of is applied recursively to return and parameter types
                conj = [x.strip() for x in re.split(r"&&", c)]
                negs = [x for x in conj if x.startswith("!")]
                rep.check(not negs and "||" not in c, f"types:shortcut-positive:{name}:{n_short}", f"`if {c} {{ return true }}` in {name} accepts by a negated or alternative kind test ({negs or c}): the sub-type "
                          "relation is used recursively (function return and parameter types), so an open-ended accept lets a function returning a scalar pass where a transform is required",
                          file=g["file"], line=n["l"], fn=g["path"])
                rep.check(not missing, f"types:shortcut:{name}:{n_short}", f"`if {c} {{ return true }}` in {name} accepts without looking at {missing}: any value is then accepted where that type is expected "
                          "(a relation where a scalar is required)", file=g["file"], line=n["l"], fn=g["path"])
    rep.check(n_short >= 1, "types:shortcuts", f"expected the relation shortcut of is_super_type_of, found {n_short} accepting shortcuts")
    # (d) error-discarding adapters on the compiler's error type (driver: resolved receiver types)
    n_sites = 0
    seen_rev = {}
    for fid, fn_ in cg.fns.items():
        if fn_["crate"] not in ("prqlc",) or "/debug/" in fn_["file"] or "/cli/" in fn_["file"]:
            continue
        for r in fn_["refs"]:
            if r["kind"] != "call" or not (r.get("id") or "").startswith("core::result::"):
                continue
            m = r["id"].split("::")[-1]
            if m not in DISCARDING:
                continue
            recv = r.get("recv") or ""
            if not any(e in recv for e in ERR_TYPES):
                continue
            n_sites += 1
            owner = cg.owner_fn(fid)["path"]
            key = f"discard:{owner}:{m}"
            fam = "is_ok" if m == "is_err" else m        # the two polarities of the same test: neither consumes the Result
            seen_rev[(r["file"], fam)] = seen_rev.get((r["file"], fam), 0) + 1
            rv = DISCARD_REVIEWED.get((r["file"], fam))
            if rv and seen_rev[(r["file"], fam)] <= rv[0]:
                rep.ok(f"discard:{r['file'].split('/')[-1]}:{m}", {"reviewed": rv[1]})
            else:
                rep.bad(key, f"`.{m}()` on `{recv[:110]}` in {owner} throws the compiler's error away: a program that should be rejected (unknown column, ambiguous name) continues on a fallback path",
                        file=r["file"], line=r["l"], fn=owner)
    rep.check(n_sites >= 1, "discard:sites", f"expected the reviewed `.is_ok()` of resolve_ident, found {n_sites} discarding adapters on the compiler's error type")


def r9(ctx, rep):
    import guards
    rep.rule("C10.R9", "every scope change of the resolver (shadow / stack_push of a namespace) is undone on every non-error path of the same function", floor=6)
    syn = ctx.syn
    pairs = {"shadow": "unshadow", "stack_push": "stack_pop"}
    n_open = 0
    for f in syn.fns:
        if f["crate"] != "prqlc" or "/semantic/" not in f["file"] or "body" not in f or f["file"].endswith("module.rs"):
            continue
        par = None
        calls_ = [n for n in walk(f["body"]) if n.get("k") == "mcall" and n["m"] in list(pairs) + list(pairs.values()) and n["a"]]
        if not any(c["m"] in pairs for c in calls_):
            continue
        par = guards.parents(f["body"])

        def conds_of(n):
            out, cur = [], n
            while id(cur) in par:
                p_ = par[id(cur)]
                if p_.get("k") == "if" and (p_.get("t") is cur or guards._contains(p_.get("t"), cur)):
                    out.append(show(p_["c"], maxdepth=8))
                if p_.get("k") == "match":
                    for a in p_["arms"]:
                        if a is cur or a.get("body") is cur or guards._contains(a["body"], cur):
                            out.append("arm " + show(a["pat"], maxdepth=6))
                cur = p_
            return out
        rets = [n for n in walk(f["body"]) if n.get("k") == "return" and not show(n.get("e"), maxdepth=3).startswith("Err(")]
        for o in calls_:
            if o["m"] not in pairs:
                continue
            n_open += 1
            ns = show(o["a"][0])
            closers = [c for c in calls_ if c["m"] == pairs[o["m"]] and show(c["a"][0]) == ns and (c["l"], c.get("c", 0)) > (o["l"], o.get("c", 0)) and conds_of(c) == conds_of(o)]
            key = f"scope:{f['path']}:{o['m']}({ns})"
            if not closers:
                rep.bad(key, f"`{o['m']}({ns})` in {f['name']} has no matching `{pairs[o['m']]}({ns})` later under the same conditions: the namespace stays changed for everything resolved afterwards "
                        "(names of an inner scope resolve where they should be unknown)", file=f["file"], line=o["l"], fn=f["path"])
                continue
            c = closers[0]
            between = [r.get("l") for r in rets if o["l"] < r["l"] < c["l"]]
            reviewed = {("fold_function", "stack_push")}   # C10.R7 reviews the partial-application exit of fold_function
            if between and (f["name"], o["m"]) not in reviewed:
                rep.bad(key, f"between `{o['m']}({ns})` (line {o['l']}) and `{pairs[o['m']]}({ns})` (line {c['l']}) the function returns successfully at line(s) {between} without undoing the scope change",
                        file=f["file"], line=between[0], fn=f["path"])
            else:
                rep.ok(key)
    rep.check(n_open >= 6, "openers", f"expected >= 6 scope-changing calls in the resolver, found {n_open}")


REJECTIONS = {
    "unknown-name": "Unknown name",
    "ambiguous-name": "Ambiguous name",
    "too-many-arguments": "Too many arguments",
    "unknown-named-argument": "unknown named argument",
    "relation-required": "a table or query",
}


def r10(ctx, rep):
    rep.rule("C10.R10", "each documented rejection is still constructed somewhere the resolver reaches from `semantic::resolve`", floor=5)
    syn, cg = ctx.syn, ctx.cg
    roots = [fid for fid in cg.fns if fid.endswith("semantic::resolve") or fid.endswith("semantic::resolve_and_lower")]
    seen = cg.reachable(roots)
    reach_at = {}
    for fid in seen:
        o = cg.owner_fn(fid)
        reach_at.setdefault(o["file"], []).append((o.get("sl", o.get("l", 0)), o.get("el", o.get("l", 0)), last_seg(o["path"])))

    def reachable_syn(f):
        # syn and driver name impl methods differently: join on file, name and line range
        return any(nm == f["name"] and sl - 3 <= f["l"] <= el for sl, el, nm in reach_at.get(f["file"], []))
    for key, text in REJECTIONS.items():
        sites = []
        for f in syn.fns:
            if f["crate"] != "prqlc" or "/semantic/" not in f["file"] or "body" not in f:
                continue
            if any(text in v for v in strs(f["body"])):
                sites.append(f)
        reach = [f for f in sites if reachable_syn(f)]
        rep.check(bool(reach), f"rejection:{key}", f"no function reachable from semantic::resolve builds the error `{text}..` any more ({len(sites)} site(s) in the tree, none reachable): "
                  "the programs it rejected are now accepted or fail with another message", file=sites[0]["file"] if sites else None, line=sites[0]["l"] if sites else None)


def r11(ctx, rep):
    rep.rule("C10.R11", "name resolution retries with shorter paths only as far as the module path it prepended itself: the qualifier the user wrote is never stripped", floor=1)
    syn = ctx.syn
    f = syn.fn("Resolver::resolve_ident", crate="prqlc")
    # role anchor: the function of the resolver that prepends a path and strips it again (resolve_ident itself or a helper it calls)
    cands = [g for g in syn.fns if g["crate"] == "prqlc" and g["file"] == f["file"] and "body" in g
             and any(n.get("k") == "mcall" and n["m"] == "prepend" for n in walk(g["body"])) and any(n.get("k") == "mcall" and n["m"] == "pop_front" for n in walk(g["body"]))]
    if len(cands) == 1:
        f = cands[0]
    pre = [show(n["a"][0], maxdepth=6) for n in walk(f["body"]) if n.get("k") == "mcall" and n["m"] == "prepend" and n["a"]]
    pre = [re.sub(r"\.clone\(\)$", "", x) for x in pre]
    loops = [n for n in walk(f["body"]) if n.get("k") == "for" and any(x.get("k") == "mcall" and x["m"] == "pop_front" for x in walk(n["body"]))]
    bounds = [show(n.get("e", n.get("iter")), maxdepth=8) for n in loops]
    want = [f"0..{x}.len()" for x in pre] + [f"(0..{x}.len())" for x in pre]
    ok_bound = len(pre) == 1 and len(loops) == 1 and bounds[0].replace(" ", "") in [w.replace(" ", "") for w in want]
    if not loops and len(pre) == 1:
        # the same bound as a countdown: `let mut n = <prepended>.len(); while n > 0 && .. { ..pop_front..; n -= 1; }`
        wl = [n for n in walk(f["body"]) if n.get("k") == "while" and any(x.get("k") == "mcall" and x["m"] == "pop_front" for x in walk(n["body"]))]
        if len(wl) == 1:
            import guards
            w = wl[0]
            for cj in guards.conjuncts(w["c"]) if hasattr(guards, "conjuncts") else [w["c"]]:
                t = show(cj).replace(" ", "").replace("(", "").replace(")", "")
                m = re.fullmatch(r"(\w+)(>0|!=0)|0<(\w+)", t)
                if not m:
                    continue
                ctr = m.group(1) or m.group(3)
                inits = [st for st in walk(f["body"]) if st.get("k") == "local" and st["pat"].get("k") == "p_ident" and st["pat"]["n"] == ctr and st.get("init") is not None]
                writes = [x for x in walk(f["body"]) if (x.get("k") == "assign" and show(x["lhs"]) == ctr) or (x.get("k") == "bin" and x["op"].endswith("=") and x["op"] not in ("==", "!=", "<=", ">=") and show(x["lhs"]) == ctr)]
                top_dec = [st for st in w["body"]["s"] if st.get("k") == "bin" and st["op"] == "-=" and show(st["lhs"]) == ctr and show(st["rhs"]) == "1"]
                if len(inits) == 1 and show(inits[0]["init"]).replace(" ", "") == f"{pre[0]}.len()" and len(writes) == 1 and len(top_dec) == 1 \
                        and not any(x.get("k") == "continue" for x in walk(w["body"])):
                    ok_bound, loops, bounds = True, wl, [f"{ctr} = {pre[0]}.len(); while {t}"]
    # innermost first: the first attempt is the name qualified with the whole current module path, the plain name comes last (a plain lookup
    # is not pure: under a wildcard frame an unknown name is inferred as a column, so trying it first captures the module's own declarations)
    import alpha
    Af = alpha.Inliner(f)
    branch = None
    for n in walk(f["body"]):
        if n.get("k") == "mcall" and n["m"] == "prepend":
            branch = n
    attempts = []
    if branch is not None:
        import guards as _g
        par_ = _g.parents(f["body"])
        cur = branch
        while id(cur) in par_ and not (par_[id(cur)].get("k") in ("if", "match") or ("k" not in par_[id(cur)] and "pat" in par_[id(cur)])):
            cur = par_[id(cur)]            # (the branch that prepends: of an `if`, or an arm of a `match`)
        scope = cur
        attempts = [n for n in walk(scope) if (n.get("k") == "mcall" and n["m"] == "resolve_ident_core") or (n.get("k") == "call" and last_seg(show(n["f"])) == "resolve_ident_core")]
        attempts.sort(key=lambda n: (n["l"], n.get("c", 0)))
    first = Af.show(attempts[0]["a"][0], strip=True).replace(" ", "") if attempts and attempts[0]["a"] else ""
    if attempts and re.fullmatch(r"\w+", first):
        # a mutable local (it is shortened by the retries): its initialiser, when nothing assigns to it before the first attempt
        defs = [st for st in walk(f["body"]) if st.get("k") == "local" and st["pat"].get("k") == "p_ident" and st["pat"]["n"] == first and st.get("init") is not None and st["l"] <= attempts[0]["l"]]
        if defs:
            d = max(defs, key=lambda st: st["l"])
            assigned = any(x.get("k") == "assign" and show(x["lhs"]) == first and d["l"] < x["l"] < attempts[0]["l"] for x in walk(f["body"]))
            if not assigned:
                first = Af.show(d["init"], strip=True).replace(" ", "")
    rep.check(bool(attempts) and ".prepend(" in first and not any(x.get("k") in ("while", "for", "loop") and _g._contains(x, attempts[0]) for x in walk(f["body"])), "most-qualified-first",
              f"the first lookup of resolve_ident (no default namespace) must be the name prefixed with the whole current module path (found `{first[:80]}`), before any retry loop: "
              "looked up bare first, a name that a module declares itself is inferred as a column of a wildcard frame or captured by a same-named top-level declaration",
              file=f["file"], line=attempts[0]["l"] if attempts else f["l"], fn=f["path"])
    rep.check(ok_bound, "strip-only-prepended",
              f"resolve_ident prepends `{pre}` and strips one leading segment per retry in a loop over `{bounds}`: the bound must be the length of what was prepended. With the length of the whole "
              "path the user's own qualifier is stripped too: `select {t.b}` after `select {a} | join u (==a)` resolves to `u.b`", file=f["file"], line=f["l"], fn=f["path"])


def r12(ctx, rep):
    rep.rule("C10.R12", "the parser keeps every argument of a call: a name is returned bare only when it has no argument at all", floor=1)
    import alpha
    import boolfn
    import guards
    import itertools
    syn = ctx.syn
    f = syn.fn("parser::expr::func_call", crate="prqlc_parser")
    # role anchor: the closure that builds `ExprKind::FuncCall(FuncCall { name, args, named_args })` from the parsed (name, args) pair
    cl = None
    for n in walk(f["body"]):
        if n.get("k") == "closure" and any(x.get("k") == "struct" and last_seg(x["p"]) == "FuncCall" for x in walk(n["body"])):
            cl = n
    if cl is None:
        raise AnchorMissing("func_call: the closure that builds FuncCall")
    par = guards.parents(cl["body"])
    A = alpha.Inliner(f)
    st = [x for x in walk(cl["body"]) if x.get("k") == "struct" and last_seg(x["p"]) == "FuncCall"][0]
    d = dict(st["f"])
    pos_name, named_name = show(d.get("args")), show(d.get("named_args"))
    # the parsed argument list: the closure parameter that is iterated to fill the two collections
    all_name = None
    for x in walk(cl["body"]):
        if x.get("k") == "for" and x["e"].get("k") == "path":
            all_name = x["e"]["p"]
    bare = [x for x in walk(cl["body"]) if x.get("k") == "return" and x.get("e") is not None and show(x["e"]).endswith(".kind")]
    bad = []
    for r_ in bare:
        conds, cur = [], r_
        while id(cur) in par:
            q = par[id(cur)]
            if q.get("k") == "if" and q["c"].get("k") != "let":
                conds.append((q["c"], q.get("t") is cur or guards._contains(q.get("t"), cur)))
            cur = q
        # consistent worlds: all empty <=> positional empty and named empty
        for P, N in itertools.product((True, False), repeat=2):
            Aall = P and N

            def atom(t, P=P, N=N, Aall=Aall):
                t = t.replace(" ", "")
                if all_name and t == f"{all_name}.is_empty()":
                    return Aall
                if t == f"{pos_name}.is_empty()":
                    return P
                if t == f"{named_name}.is_empty()":
                    return N
                return None
            try:
                taken = all(boolfn.ev(c_, atom, A) == pos for c_, pos in conds)
            except boolfn.Unknown as e:
                bad.append(f"line {r_['l']}: condition not understood ({e})")
                break
            if taken and not Aall:
                bad.append(f"line {r_['l']}: the bare name is returned although {'named' if not N else 'positional'} arguments were written")
                break
    rep.check(bool(bare) and not bad, "bare-name-only-without-arguments", f"func_call returns the callee alone (not a call) at {len(bare)} place(s): {bad or 'ok'}. Arguments dropped here never reach the resolver, so "
              "`top bogus:1` is accepted (the unknown named argument is not reported) and `top n:3` silently uses the default", file=f["file"], line=cl["l"], fn=f["path"])


def pl_carrying(syn):
    """names of PL / parser types that (transitively) contain an expression: what a folder has to visit"""
    adts = [a for a in syn.adts if (a["crate"] == "prqlc" and "/ir/pl/" in a["file"]) or (a["crate"] == "prqlc_parser" and ("/parser/pr/" in a["file"] or a["file"].endswith("generic.rs")))]
    carrying = {"Expr", "T"}          # (T: the generic slot of pr::Range / SwitchCase / InterpolateItem, instantiated with Expr)
    changed = True
    while changed:
        changed = False
        for a in adts:
            if a["name"] in carrying:
                continue
            tys = [f_["ty"] for f_ in a.get("fields", [])] if a["kind"] == "struct" else [f_["ty"] for v in a.get("variants", []) for f_ in v["fields"]] if a["kind"] == "enum" else [a.get("ty", "")]
            if any(set(re.findall(r"[A-Za-z_][A-Za-z0-9_]*", t or "")) & carrying for t in tys):
                carrying.add(a["name"])
                changed = True
    by = {}
    for a in adts:
        # (pl re-exports the parser's generic types as aliases `type InterpolateItem = generic::InterpolateItem<Expr>`: the definition wins)
        if a["name"] not in by or (by[a["name"]]["kind"] == "alias" and a["kind"] != "alias") or (a["crate"] == "prqlc" and a["kind"] != "alias" and by[a["name"]]["crate"] != "prqlc"):
            by[a["name"]] = a
    return carrying, by


# expression-carrying fields the default folder copies on purpose, one reason each
R13_REVIEWED = {
    "Func.params": "parameter defaults and types are folded by the resolver when the function is applied (apply_args_to_closure / fold_function), in the scope of the call",
    "Func.named_params": "as Func.params",
    "Func.env": "values a closure has captured are already resolved; they are substituted, not looked up",
    "FuncParam.ty": "types are folded by fold_type where the resolver needs them; a parameter type holds no column reference",
}


def r13(ctx, rep):
    rep.rule("C10.R13", "the default PL folder visits every sub-expression: a name in a part that is skipped is never resolved, so an unknown or out-of-scope name there is accepted", floor=30)
    syn = ctx.syn
    fns = [f for f in syn.fns if f["crate"] == "prqlc" and f["file"].endswith("ir/pl/fold.rs") and f["name"].startswith("fold_") and "body" in f and not f.get("trait_default") and not f.get("self_short")]
    n_fields = fold_audit(ctx, rep, fns)
    rep.check(n_fields >= 25, "sites", f"expected the default folders of ir/pl/fold.rs (fold_expr_kind, fold_func_call, fold_transform_kind ..), found {n_fields} expression-carrying fields / variants in {len(fns)} functions")


def fold_audit(ctx, rep, fns, consequence="names inside it are never resolved", parts=("drops", "structs", "arms")):
    """every expression-carrying part of what `fns` rebuild goes through the folder; -> number of parts examined"""
    syn = ctx.syn
    carrying, adts = pl_carrying(syn)

    def folded(expr):
        for n in walk(expr):
            if n.get("k") == "mcall" and n["m"].startswith("fold") and show(n["r"]) in ("fold", "self", "folder"):
                return True
            if n.get("k") == "call" and last_seg(show(n["f"])).startswith("fold_"):
                return True
        return False

    def variants_named(name):
        out = []
        for a in adts.values():
            if a["kind"] == "enum":
                for v in a["variants"]:
                    if v["name"] == name:
                        out.append((a, v))
        return out

    def carries(tys):
        return bool(set(re.findall(r"[A-Za-z_][A-Za-z0-9_]*", " ".join(t or "" for t in tys))) & carrying)

    def irrefutable(p):
        k = p.get("k")
        if k in ("p_wild", "p_rest"):
            return True
        if k == "p_ident":
            return not p["n"][0].isupper() and (p.get("sub") is None or irrefutable(p["sub"]))
        if k in ("p_tuple",):
            return all(irrefutable(x) for x in p["e"])
        if k == "p_struct" and last_seg(p["p"]) in adts and adts[last_seg(p["p"])]["kind"] == "struct":
            return all(irrefutable(x[1]) for x in p["f"] if len(x) > 1 and isinstance(x[1], dict))
        if k == "p_ts" and last_seg(p["p"]) in adts and adts[last_seg(p["p"])]["kind"] == "struct":
            return all(irrefutable(x) for x in p["e"])
        return False

    n_fields = 0
    folded_expr = folded
    for f in fns:
        # an intermediate binding stands for its initialiser: `let args = fold.fold_exprs(call.args)?; .. args`
        inits = {}
        for n in walk(f["body"]):
            if n.get("k") == "local" and n.get("init") is not None and n["pat"].get("k") == "p_ident":
                inits.setdefault(n["pat"]["n"], []).append(n["init"])
        # a name that a match arm, an `if let` or a closure binds as well is not followed: inside that arm it is the matched value, not the local
        for n in walk(f["body"]):
            pats = [a_["pat"] for a_ in n["arms"]] if n.get("k") == "match" else ([n["pat"]] if n.get("k") == "let" else (n.get("params", []) if n.get("k") == "closure" else []))
            for p_ in pats:
                for x in walk(p_):
                    if x.get("k") == "p_ident":
                        inits.pop(x["n"], None)

        def folded(expr, depth=0, _inits=inits):
            if folded_expr(expr):
                return True
            if depth < 3 and expr.get("k") == "path" and expr["p"] in _inits:
                return all(folded(i_, depth + 1) for i_ in _inits[expr["p"]])
            return False
        # (a) nothing is dropped from a collection on its way through the folder
        for n in walk(f["body"]):
            if "drops" in parts and n.get("k") == "mcall" and n["m"] in DROPPING:
                rep.bad(f"drops:{f['name']}:{n['m']}", f"{f['name']} passes a collection through `.{n['m']}(..)`: the elements it removes are never folded (resolved), so an unknown name inside them is accepted "
                        "and the element silently disappears", file=f["file"], line=n["l"], fn=f["path"])
        # (b) rebuilt structs: every expression-carrying field goes through the folder
        for n in walk(f["body"]):
            if n.get("k") != "struct" or "structs" not in parts:
                continue
            name = last_seg(n["p"])
            fields = owner = None
            a = adts.get(name)
            if a and a["kind"] == "struct":
                fields, owner = {x["name"]: x["ty"] for x in a["fields"]}, name
            else:
                for a_, v in variants_named(name):
                    if v["shape"] == "struct":
                        fields, owner = {x["name"]: x["ty"] for x in v["fields"]}, a_["name"] + "::" + name
            if fields is None:
                continue
            rest = n.get("rest")
            for fname, fval in n["f"]:
                ty = fields.get(fname)
                if ty is None or not carries([ty]):
                    continue
                n_fields += 1
                rep.check(folded(fval), f"field:{f['name']}:{owner}.{fname}", f"{f['name']} rebuilds {owner}.{fname} ({ty}) as `{show(fval, maxdepth=5)}` without passing it through the folder: " + consequence, file=f["file"], line=n["l"], fn=f["path"])
            if isinstance(rest, dict):
                given = {x[0] for x in n["f"]}
                skipped = [k_ for k_, t_ in fields.items() if k_ not in given and carries([t_]) and f"{owner}.{k_}" not in R13_REVIEWED]
                rep.check(not skipped, f"rest:{f['name']}:{owner}", f"{f['name']} copies {skipped} of {owner} with `..{show(rest)}`: expression-carrying fields that are not folded", file=f["file"], line=n["l"], fn=f["path"])
        # (c) matches over the folded value: an arm of a variant with an expression payload folds it and takes the variant whole (no refutable
        #     sub-pattern that sends some of its values to an arm that returns them as they are)
        for m in (matches_of(f["body"]) if "arms" in parts else []):
            # only a match that *rebuilds* the value it looks at is part of the fold: some arm yields a variant of the matched type
            # (or hands the value on). A match that merely decides something by the variant (`match kind { Join | Append => vec![], _ => .. }`)
            # has nothing to fold.
            pat_variants = {last_seg(x.get("p") or "") for a0 in m["arms"] for y in pat_alts(a0["pat"]) for x in walk(y) if x.get("k") in ("p_ts", "p_struct", "p_path")}
            owners_ = [a0 for a0 in adts.values() if a0["kind"] == "enum" and pat_variants & {v0["name"] for v0 in a0["variants"]}]
            own_variants = {v0["name"] for a0 in owners_ for v0 in a0["variants"]}
            scrut = show(m["e"]).lstrip("&*")
            rebuilds = False
            for a0 in m["arms"]:
                for x in walk(a0["body"]):
                    if (x.get("k") in ("call", "struct") and last_seg(show(x["f"]) if x.get("k") == "call" else x["p"]) in own_variants) or \
                       (x.get("k") == "path" and (last_seg(x["p"]) in own_variants or x["p"] == scrut)) or \
                       (x.get("k") == "mcall" and x["m"].startswith("fold")) or (x.get("k") == "call" and last_seg(show(x["f"])).startswith("fold_")):
                        rebuilds = True
                whole_bind = [y["n"] for y in pat_alts(a0["pat"]) if y.get("k") == "p_ident" and not y["n"][0].isupper()]
                if whole_bind and any(x.get("k") == "path" and x["p"] in whole_bind for x in walk(a0["body"])):
                    rebuilds = True
            if not rebuilds:
                continue
            covered = set()
            for arm in m["arms"]:
                for alt in pat_alts(arm["pat"]):
                    inner = alt
                    while inner.get("k") == "p_ident" and inner.get("sub") is not None:
                        inner = inner["sub"]
                    if inner.get("k") not in ("p_ts", "p_struct", "p_path") and not (inner.get("k") == "p_ident" and inner["n"][0].isupper()):
                        continue
                    vname = last_seg(inner.get("p") or inner.get("n"))
                    vs = variants_named(vname)
                    segs = (inner.get("p") or inner.get("n") or "").split("::")
                    if len(segs) >= 2 and any(a0["name"] == segs[-2] for a0, _ in vs):
                        vs = [(a0, v0) for a0, v0 in vs if a0["name"] == segs[-2]]
                    if not vs:
                        continue
                    a_, v = vs[0]
                    if not carries([x["ty"] for x in v["fields"]]):
                        continue
                    subs = inner.get("e") or [x[1] for x in inner.get("f", []) if len(x) > 1 and isinstance(x[1], dict)]
                    whole = all(irrefutable(x) for x in subs) and arm.get("guard") is None
                    key = f"arm:{f['name']}:{a_['name']}::{vname}"
                    if whole and vname not in covered:
                        covered.add(vname)
                        n_fields += 1
                        rep.check(folded(arm["body"]), key, f"{f['name']} rebuilds {a_['name']}::{vname} as `{show(arm['body'], maxdepth=5)}` without passing its payload through the folder",
                                  file=f["file"], line=arm["l"], fn=f["path"])
                    elif vname not in covered:
                        # a partial arm: the values it does not take must reach an arm that folds them
                        later = [b for b in m["arms"] if b is not arm and b["l"] >= arm["l"] and any(last_seg((x.get("p") or x.get("n") or "")) == vname or x.get("k") in ("p_wild",) or
                                                                                                     (x.get("k") == "p_ident" and not x["n"][0].isupper() and x.get("sub") is None)
                                                                                                     for y in pat_alts(b["pat"]) for x in [y if y.get("k") != "p_ident" or y.get("sub") is None else y["sub"]])]
                        ok = folded(arm["body"]) and all(folded(b["body"]) for b in later) and bool(later)
                        rep.check(ok, key + ":partial", f"{f['name']} takes only some values of {a_['name']}::{vname} (`{show(arm['pat'], maxdepth=6)}`"
                                  f"{' if ' + show(arm['guard']) if arm.get('guard') is not None else ''}); the others must reach an arm that folds them too, found "
                                  f"{[show(b['body'], maxdepth=4)[:40] for b in later]}", file=f["file"], line=arm["l"], fn=f["path"])
    return n_fields


def r14(ctx, rep):
    rep.rule("C10.R14", "a column reference that is inlined into a frame (the key side of `group`) is known by the name of the column it refers to, never by an alias: "
             "the partition frame excludes exactly the key columns", floor=2)
    syn = ctx.syn
    import alpha
    f = syn.fn("Lineage::apply_assign", crate="prqlc")
    A = alpha.Inliner(f)
    br = [n for n in walk(f["body"]) if n.get("k") == "if" and n["c"].get("k") != "let" and re.search(r"\binline_refs\b", show(n["c"]))]
    if not br:
        raise AnchorMissing("apply_assign: the branch for inlined references (`if inline_refs && ..`)")
    n_lit = 0
    for b in br:
        for n in walk(b["t"]):
            if n.get("k") == "struct" and last_seg(n["p"]) == "Single" and "LineageColumn" in n["p"]:
                d = dict(n["f"])
                if "name" not in d:
                    continue
                n_lit += 1
                nm = A.show(d["name"], strip=True).replace(" ", "")
                tn = A.show(d["target_name"], strip=True).replace(" ", "") if "target_name" in d else ""
                src = re.search(r"expr\.kind\.as_ident\(\)", nm) is not None and "alias" not in nm
                rep.check(src, f"inline-ref:name:{n_lit}", f"the inlined reference is recorded under `{nm[:90]}`: it must be the identifier of `expr.kind` (the column referred to), not the alias - "
                          "`group {g = a} (aggregate {max a})` otherwise leaves `a` visible inside the group", file=f["file"], line=n["l"], fn=f["path"])
                if tn and tn != "None":
                    rep.check("alias" not in tn and "expr.kind.as_ident()" in tn, f"inline-ref:target-name:{n_lit}", f"target_name of an inlined reference must be the referred column's name; found `{tn[:90]}`",
                              file=f["file"], line=n["l"], fn=f["path"])
    rep.check(n_lit >= 1, "inline-ref:sites", f"expected LineageColumn::Single literals in the inline_refs branch of apply_assign, found {n_lit}", file=f["file"], line=f["l"], fn=f["path"])


def run(ctx, rep):
    for r in (r1, r2, r3, r4, r5, r6, r7, r8, r9, r10, r11, r12, r13, r14):
        rep.guard(r, ctx)
