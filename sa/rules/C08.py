"""C08 - literal values reach the database unchanged and cannot alter the statement.

Decides:
  R1 user text (string literals) reaches the SQL string sink only through a sanitiser (none today: known finding)
  R2 only translate_literal and its date/time helpers construct SQL string values; numbers from data only in the
     reviewed constructors
  R3 the lexer has no silent numeric default that an input can reach
  R4 float literals: SQL printer keeps the fraction; non-finite values cannot be produced (today they can: known)
  R5 date/time literal text can only contain the characters the lexer's date grammar admits
Not decided: the value a database assigns to emitted text.
"""
import json
import math
import os
import re

from synq import (walk, show, show_stmts, strs, last_seg, pat_alts, pat_head, tail_expr, matches_of, mcalls, calls,
                  macros, lit_val, AnchorMissing)
import tables

ROOT = os.path.dirname(os.path.dirname(os.path.dirname(os.path.abspath(__file__))))

META = (
    "taint, who-may-construct and lexer table rules for literals",
    ["A1", "A2 oracles/libs.json: sqlparser 0.60 prints SingleQuotedString through a heuristic escaper (not a sanitiser)"],
    "source->sink rule on the syntax tree of translate_literal, who-may-construct over the ADT construction sites "
    "reported by the rustc driver, digit-count arithmetic on the lexer's number parsers",
    True,
)


def libs():
    with open(os.path.join(ROOT, "oracles", "libs.json")) as f:
        return json.load(f)


def r1(ctx, rep):
    rep.rule("C08.R1", "string literal text reaches the SQL string sink only through a sanitiser", floor=2)
    L = libs()
    syn = ctx.syn
    f = syn.fn("gen_expr::translate_literal", crate="prqlc")
    m = tables.first_match(f, "l")
    found = False
    for arm in m["arms"]:
        heads = [last_seg(str(pat_head(a))) for a in pat_alts(arm["pat"])]
        if "String" in heads or "RawString" in heads:
            found = True
            binder = None
            for a in pat_alts(arm["pat"]):
                if a.get("k") == "p_ts" and a["e"]:
                    binder = show(a["e"][0])
            sinks = [n for n in walk(arm["body"]) if n.get("k") == "call" and show(n["f"]).endswith("Value::SingleQuotedString")]
            for s in sinks:
                arg = s["a"][0]
                direct = show(arg) == binder
                sanitised = any(n.get("k") in ("call", "mcall") and re.search(r"escape|sanit|quote_literal|replace", (n.get("m") or show(n.get("f", {})))) for n in walk(arg))
                if L["sqlparser"]["single_quoted_string_escaping"] == "heuristic" and direct and not sanitised:
                    rep.bad("string-sink-unsanitised",
                            f"the text of a PRQL string literal (`{binder}`) is handed unchanged to sqlparser's Value::SingleQuotedString, whose Display doubles a quote only when it is not "
                            "preceded by a backslash and not followed by another quote: `\"x\\\\' OR 1=1 --\"` is emitted as 'x\\' OR 1=1 --' (the literal ends early in every "
                            "dialect without backslash escapes), `\"a''b\"` is emitted as 'a''b' (value a'b)", file=f["file"], line=s["l"], fn=f["path"])
                else:
                    rep.ok("string-sink", {"arg": show(arg)})
    rep.check(found, "string-arm", "translate_literal must have an arm for String / RawString literals", file=f["file"], line=f["l"], fn=f["path"])
    # f-string fragments and relation literal cells go through translate_literal
    low = syn.fn("lowering::str_lit", crate="prqlc") if syn.find_fns("lowering::str_lit", crate="prqlc") else None
    if low is not None:
        rep.check("Literal::String(string)" in show_stmts(low["body"], maxdepth=8), "fstring-fragments", "f-string fragments must be lowered to Literal::String (and so to translate_literal)", file=low["file"], line=low["l"], fn=low["path"])
    rl = syn.fn("gen_query::translate_relation_literal", crate="prqlc")
    rep.check("translate_literal(" in show_stmts(rl["body"], maxdepth=30) or any(n.get("k") == "call" and last_seg(show(n["f"])) == "translate_literal" for n in walk(rl["body"])),
              "relation-literal-cells", "cells of a relation literal must be emitted through translate_literal", file=rl["file"], line=rl["l"], fn=rl["path"])


def r2(ctx, rep):
    rep.rule("C08.R2", "who may construct SQL literal values", floor=10)
    cg = ctx.cg
    allowed = {
        "SingleQuotedString": {"sql::gen_expr::translate_literal", "sql::gen_expr::translate_datetime_literal_with_typed_string",
                               "sql::gen_expr::translate_datetime_literal_with_sqlite_function"},
        "Number": {"sql::gen_expr::translate_literal", "sql::gen_expr::expr_of_i64", "sql::gen_expr::translate_windowed",
                   "sql::gen_expr::try_into_window_frame::parse_bound"},
        "DoubleQuotedString": set(), "EscapedStringLiteral": set(), "NationalStringLiteral": set(), "HexStringLiteral": set(),
        "DollarQuotedString": set(), "SingleQuotedByteStringLiteral": set(), "DoubleQuotedByteStringLiteral": set(),
        "TripleSingleQuotedString": set(), "TripleDoubleQuotedString": set(), "UnicodeStringLiteral": set(),
    }
    seen = 0
    for fid, f in cg.fns.items():
        if f["crate"] != "prqlc":
            continue
        owner = cg.owner_fn(fid)["path"]
        for a in f["aggs"]:
            if a["adt"] == "sqlparser::ast::Value":
                seen += 1
                v = a["variant"]
                key = f"value:{v}:{owner}"
                if v in allowed:
                    # a private helper called only from an allowed constructor is part of it
                    callers = {c.split("::", 1)[1] if c.startswith("prqlc::") else c for c in cg.callers_of(cg.owner_fn(fid)["id"])}
                    helper = bool(callers) and callers <= allowed[v]
                    rep.check(owner in allowed[v] or helper, key, f"{owner} constructs sqlparser Value::{v}: literal text must be produced only by translate_literal and its helpers, "
                              f"so that one place decides escaping (allowed: {sorted(allowed[v])})", file=a["file"], line=a["l"], fn=owner)
                else:
                    rep.ok(key, nontrivial=False)
    rep.check(seen >= 15, "sites", f"expected >= 15 construction sites of sqlparser::ast::Value in prqlc, the driver reported {seen}")
    # raw SQL text built with format! from a Literal payload outside translate_literal? (s-strings are the documented hatch)
    syn = ctx.syn
    wf = syn.fn("gen_expr::translate_windowed", crate="prqlc")
    nums = [lit_val(n["a"][0]["r"]) if n["a"] and n["a"][0].get("k") == "mcall" else None for n in walk(wf["body"]) if n.get("k") == "call" and show(n["f"]).endswith("Value::Number")]
    rep.check(nums == ["1"], "windowed-number-constant", f"the Number built in translate_windowed must be the constant `1` (ORDER BY 1 fallback); found {nums}", file=wf["file"], line=wf["l"], fn=wf["path"])


def float_literal_conditions(nf):
    """(identifiers, text) of every condition the construction of Literal::Float in lexer::number is control-dependent on:
    enclosing `if` conditions, match scrutinees and arm guards; locals are expanded once through their initialisers."""
    import guards
    par = guards.parents(nf["body"])
    sites = [n for n in walk(nf["body"]) if n.get("k") == "call" and show(n["f"]).endswith("Literal::Float")]
    sites += [n for n in walk(nf["body"]) if n.get("k") == "path" and n["p"].endswith("Literal::Float") and par.get(id(n), {}).get("k") != "call"]
    if len(sites) != 1:
        return None
    locs = {show(n["pat"]).replace("mut ", ""): n["init"] for n in walk(nf["body"]) if n.get("k") == "local" and n.get("init") is not None}
    conds = []
    cur = sites[0]
    while id(cur) in par:
        p = par[id(cur)]
        if p.get("k") == "if" and p["c"] is not cur:
            conds.append(p["c"])
        if p.get("k") == "match":
            conds.append(p["e"])
            for a in p["arms"]:
                if (a is cur or a.get("body") is cur) and a.get("guard") is not None:
                    conds.append(a["guard"])
        cur = p
    idents, text = set(), []
    for c in conds:
        text.append(show(c, maxdepth=10))
        for x in walk(c):
            if x.get("k") == "path" and "::" not in x["p"]:
                idents.add(x["p"])
                if x["p"] in locs:
                    idents |= {y["p"] for y in walk(locs[x["p"]]) if y.get("k") == "path" and "::" not in y["p"]}
                    text.append(show(locs[x["p"]], maxdepth=10))
            if x.get("k") == "mcall":
                idents.add("." + x["m"] + "()")
    return idents, " ; ".join(text)


def r3(ctx, rep):
    rep.rule("C08.R3", "the lexer has no reachable silent numeric default", floor=5)
    syn = ctx.syn
    # based numbers: max_digits * log2(base) <= 63 makes the i64 fallback unreachable
    for name in ("binary_number", "hexadecimal_number", "octal_number"):
        f = syn.fn("lexer::" + name, crate="prqlc_parser")
        c = [n for n in walk(f["body"]) if n.get("k") == "call" and last_seg(show(n["f"])) == "parse_number_with_base"]
        if len(c) != 1:
            rep.bad(f"based:{name}", "expected one call of parse_number_with_base", file=f["file"], line=f["l"], fn=f["path"])
            continue
        prefix, base, maxd = lit_val(c[0]["a"][0]), lit_val(c[0]["a"][1]), lit_val(c[0]["a"][2])
        bits = maxd * math.log2(base) if isinstance(base, int) and isinstance(maxd, int) and base > 1 else 999
        rep.check(bits <= 63, f"based:{name}", f"`{prefix}` literals take up to {maxd} digits of base {base} = {bits:.0f} bits: above 63 bits i64::from_str_radix fails and the literal silently becomes 0",
                  detail={"bits": bits}, file=f["file"], line=f["l"], fn=f["path"])
    pb = syn.fn("lexer::parse_number_with_base", crate="prqlc_parser")
    rep.check(".at_most(max_digits)" in show_stmts(pb["body"], maxdepth=14), "based:at_most", "the digit count must be bounded by max_digits", file=pb["file"], line=pb["l"], fn=pb["path"])
    # decimal numbers: i64 first, then f64; a Float literal is built only for finite values of text with a fraction or exponent
    nf = syn.fn("lexer::number", crate="prqlc_parser")
    parses = sorted([n for n in walk(nf["body"]) if n.get("k") == "mcall" and n["m"] == "parse" and show(n["r"]) == "num_str"], key=lambda n: (n["l"], n.get("c", 0)))
    tys = [n.get("tf") or "" for n in parses]
    rep.check(len(tys) == 2 and "i64" in tys[0] and "f64" in tys[1], "decimal:order", f"decimal literals must be tried as i64 first, then f64; found parse::<{tys}>", file=nf["file"], line=nf["l"], fn=nf["path"])
    conds = float_literal_conditions(nf)
    rep.check(conds is not None, "decimal:float-site", "expected one construction of Literal::Float in lexer::number", file=nf["file"], line=nf["l"], fn=nf["path"])
    if conds is not None:
        idents, text = conds
        rep.check(bool(idents & {"frac_part", "exp_part"}), "decimal:int-overflow-to-float", "the f64 branch of the decimal parser is taken for ANY text that fails i64 parsing, including all-digit literals beyond i64::MAX: "
                  "`9223372036854775808` silently becomes the float 9.223372036854776e18 instead of an error (Literal::Float must depend on the fraction / exponent being present)",
                  file=nf["file"], line=nf["l"], fn=nf["path"])
    # value_and_unit: fallback 1 on overflow is reachable (digits are unbounded)
    vu = syn.fn("lexer::value_and_unit", crate="prqlc_parser")
    fb = [n for n in walk(vu["body"]) if n.get("k") == "mcall" and n["m"] in ("unwrap_or", "unwrap_or_default") and "parse" in show(n["r"], maxdepth=8)]
    for n in fb:
        rep.bad("value_and_unit:fallback", f"`{show(n, maxdepth=6)}`: the integer part has no digit limit, so a value beyond i64 (e.g. `99999999999999999999days`) does not fail but silently becomes {show(n['a'][0]) if n['a'] else 'the default'}",
                file=vu["file"], line=n["l"], fn=vu["path"])
    if not fb:
        rep.ok("value_and_unit:fallback")


def r4(ctx, rep):
    rep.rule("C08.R4", "floats stay floats, finite and non-zero when written non-zero", floor=3)
    syn = ctx.syn
    f = syn.fn("gen_expr::translate_literal", crate="prqlc")
    m = tables.first_match(f, "l")
    fmt = None
    for arm in m["arms"]:
        if "Float" in show(arm["pat"]):
            for mm in macros(arm["body"], "format"):
                fmt = lit_val(mm["a"][0])
    rep.check(fmt is not None and ":?" in fmt, "sql-float-format", f"Literal::Float must be printed with `{{:?}}` (keeps `.0`, so SQL sees a float, not an integer); found `{fmt}`", file=f["file"], line=f["l"], fn=f["path"])
    nf = syn.fn("lexer::number", crate="prqlc_parser")
    conds = float_literal_conditions(nf)
    guarded = conds is not None and bool(conds[0] & {".is_finite()", ".is_infinite()", ".is_nan()"})
    rep.check(guarded, "finite-guard", "`num_str.parse::<f64>()` returns Ok(inf) for out-of-range decimals (1e999) and the lexer wraps it in Literal::Float without an is_finite test: "
              "the SQL text is `inf` and the formatter prints `inf`", file=nf["file"], line=nf["l"], fn=nf["path"])


    # .. and non-zero: a literal below the smallest subnormal parses to Ok(0.0); Literal::Float must also depend on a comparison of the parsed value
    # with zero (paired with a test of the written mantissa, so that `0.0` itself stays legal)
    zero_test = conds is not None and re.search(r"[!=]= ?-?0(\.0)?\b|\b0(\.0)? ?[!=]=|is_normal\(\)|classify\(\)", conds[1]) is not None
    rep.check(zero_test, "underflow-guard", "`num_str.parse::<f64>()` returns Ok(0.0) for a literal too small for f64 (`1e-400`), and the lexer wraps it in Literal::Float: the literal denotes a non-zero "
              "value and the SQL says 0.0 (while `1e309` is an error); Literal::Float must depend on the parsed value being non-zero unless the written mantissa is zero", file=nf["file"], line=nf["l"], fn=nf["path"])


def r14(ctx, rep):
    rep.rule("C08.R14", "a raw string ends at the quote character it started with", floor=1)
    syn = ctx.syn
    f = syn.fn("lexer::raw_string", crate="prqlc_parser")
    # the two delimiter parsers admit both quote characters; the closure that builds the literal must compare the two characters it was given and
    # fail when they differ (or the closing parser must be built from the opening character)
    quotes = [n for n in walk(f["body"]) if n.get("k") == "call" and last_seg(show(n["f"])) == "choice" and sorted(lit_val(x["a"][0]) for x in walk(n) if x.get("k") == "call" and last_seg(show(x["f"])) == "just" and x["a"] and isinstance(lit_val(x["a"][0]), str)) == ['"', "'"]]
    tied = False
    for n in walk(f["body"]):
        if n.get("k") == "closure" and any(x.get("k") == "path" and last_seg(x["p"]) == "RawString" for x in walk(n["body"])):
            chars = [x["n"] for p_ in n["params"] for x in walk(p_) if x.get("k") == "p_ident"]
            for c_ in walk(n["body"]):
                if c_.get("k") == "bin" and c_["op"] in ("!=", "==") and show(c_["lhs"]).lstrip("*&") in chars and show(c_["rhs"]).lstrip("*&") in chars and show(c_["lhs"]) != show(c_["rhs"]):
                    tied = any(x.get("k") == "path" and last_seg(x["p"]) == "Err" for x in walk(n["body"]))
    one_sided = len(quotes) <= 1      # e.g. the closing delimiter derived from the opening one (`just(open)`), or a parser per quote character
    rep.check(tied or one_sided, "raw-string:closing-is-opening", "lexer::raw_string accepts either quote character as the opening and as the closing delimiter without tying them: "
              "`r'p\" + r\"q'` lexes as the raw strings `p` and `q` (and `r\"abc'` is a complete literal)", file=f["file"], line=f["l"], fn=f["path"])


def r5(ctx, rep):
    rep.rule("C08.R5", "date/time literal text is limited by the lexer to harmless characters", floor=3)
    syn = ctx.syn
    bad_words = ("any", "none_of", "filter")
    n = 0
    for name in ("date_inner", "time_inner", "date_token"):
        fs = syn.find_fns("lexer::" + name, crate="prqlc_parser")
        if len(fs) != 1:
            rep.bad(f"date:{name}", f"lexer::{name} not found")
            continue
        f = fs[0]
        n += 1
        lits = []
        wild = []
        import C14
        filtered_any = set()
        for c in walk(f["body"]):
            if c.get("k") == "mcall" and c["m"] == "filter" and c["r"].get("k") == "call" and last_seg(show(c["r"]["f"])) == "any" \
                    and c["a"] and c["a"][0].get("k") == "closure":
                pred = C14.pred_of(c["a"][0]["body"])
                if pred is not None and not any(pred(ch) for ch in "'\\\"`;-/* "):
                    filtered_any.add(id(c["r"]))
        for c in walk(f["body"]):
            if c.get("k") == "call":
                cn = last_seg(show(c["f"]))
                if cn in ("just", "one_of") and c["a"]:
                    v = lit_val(c["a"][0])
                    if isinstance(v, str):
                        lits.append(v)
                if cn in ("any", "none_of") and id(c) not in filtered_any:
                    wild.append(cn)
        danger = [v for v in lits if any(ch in v for ch in "'\\\"")]
        rep.check(not danger and not wild, f"date:{name}", f"the date/time grammar must not admit quotes, backslashes or arbitrary characters (literals {danger}, wildcards {wild}): the text is emitted inside '...'",
                  file=f["file"], line=f["l"], fn=f["path"])


# Value::Number sites whose text may come from a signed variable without a local sign split: reviewed, one reason each
SIGNED_NUMBER_REVIEWED = {
    "prqlc::sql::gen_expr::expr_of_i64": ("LIMIT operand only (a delimited position); range_of_ranges clamps the limit to >= 0 and the resolver rejects non-positive take ranges",
                                          {"prqlc::sql::gen_query::translate_select_pipeline"}),
}


def r6(ctx, rep):
    import guards
    rep.rule("C08.R6", "a number that can be negative is never emitted as an atom: every Value::Number text is a constant, sign-split, or proven positive by its match arm", floor=4)
    syn = ctx.syn
    n_sites = 0
    for f in syn.fns:
        if f["crate"] != "prqlc" or "/src/sql/" not in f["file"] or "body" not in f:
            continue
        par = None
        k = 0
        for n in walk(f["body"]):
            if not (n.get("k") == "call" and last_seg(show(n["f"])) == "Number" and "Value" in show(n["f"]) and n["a"]):
                continue
            n_sites += 1
            k += 1
            key = f"number-sign:{f['path']}:{k}"
            a0 = n["a"][0]
            base = a0
            while base.get("k") == "mcall" and base["m"] in ("to_string", "to_owned", "into", "clone"):
                base = base["r"]
            if isinstance(lit_val(base), str) and not lit_val(base).startswith("-"):
                rep.ok(key, nontrivial=False)
                continue
            if par is None:
                par = guards.parents(f["body"])
            # enclosing match arms
            why = None
            cur = n
            while id(cur) in par and why is None:
                p = par[id(cur)]
                if p.get("k") == "match":
                    arm = next((a for a in p["arms"] if a is cur or a["body"] is cur), None)
                    if arm is not None:
                        scrut = show(p["e"])
                        heads = [(show(a["pat"]), a) for a in p["arms"]]
                        pt = show(arm["pat"])
                        # (a) sign split: match X.strip_prefix('-') { Some(abs) => ..abs.., None => ..X.. }
                        if ".strip_prefix('-')" in scrut:
                            x = scrut.split(".strip_prefix")[0]
                            if pt.startswith("Some(") and show(base) == pt[5:-1]:
                                why = "the text after a stripped `-`"
                            elif pt == "None" and show(base) == x:
                                why = "the text when no leading `-` was found"
                        # (b) positive arm: match v { 0 => .., 1.. => v, _ => -v }
                        elif arm["pat"].get("k") == "p_range" and show(base) == scrut:
                            lo = lit_val(arm["pat"].get("s")) if arm["pat"].get("s") is not None else None
                            if isinstance(lo, int) and lo >= 0 and arm["pat"].get("e") is None:
                                why = f"`{scrut}` is in `{pt}`"
                        elif pt == "_" and show(base).replace(" ", "") in (f"(-{scrut})", f"-{scrut}"):
                            others = [h for h, a in heads if a is not arm]
                            if "0" in others and any(h.replace(" ", "") in ("1..", "1..=i64::MAX") for h in others):
                                why = f"`{scrut}` is negative in the remaining arm, so `-{scrut}` is positive"
                cur = p
            if why:
                rep.ok(key, detail=why)
                continue
            rv = SIGNED_NUMBER_REVIEWED.get(f["path"])
            if rv:
                callers = ctx.cg.callers_of(f["path"])
                if not callers or not callers <= rv[1]:
                    rep.bad(key, f"{f['path']} is reviewed as sign-safe only for callers {sorted(rv[1])}; it is now also called from {sorted(callers - rv[1])}", file=f["file"], line=n["l"], fn=f["path"])
                else:
                    rep.ok(key, detail="reviewed: " + rv[0])
                continue
            rep.bad(key, f"`{show(n, maxdepth=6)}`: the number text can start with `-` and is emitted as an atom (binding strength of a literal), so a prefix minus in front of it yields `--5`, "
                    "which SQL reads as a comment; split the sign off (see translate_number) or prove the value positive by the enclosing match arm",
                    file=f["file"], line=n["l"], fn=f["path"])
    rep.check(n_sites >= 5, "sites", f"expected >= 5 Value::Number construction sites under sql/, found {n_sites}")


ESCAPES = {"\\": "\\", "/": "/", "b": "\x08", "f": "\x0c", "n": "\n", "r": "\r", "t": "\t"}   # documented single-character escapes (book: Strings)
INT_BITS = {"i64": 63, "u64": 64, "i32": 31, "u32": 32, "i16": 15, "u16": 16, "i8": 7, "u8": 8, "i128": 127, "u128": 128, "isize": 63, "usize": 64}


def flat_names(p):
    """identifier names bound by a (nested) tuple pattern, in source order"""
    if p is None:
        return []
    if p.get("k") == "p_ident":
        return [p["n"]]
    if p.get("k") in ("p_tuple", "p_ts"):
        out = []
        for e in p["e"]:
            out += flat_names(e)
        return out
    return []


def fmt_pieces(m):
    """(ordered names printed by a format! macro, literal text between placeholders) or None if not analysable"""
    if not m["a"] or not isinstance(lit_val(m["a"][0]), str):
        return None
    f = lit_val(m["a"][0])
    pos = [show(a) for a in m["a"][1:]]
    names, text, i, k = [], "", 0, 0
    while i < len(f):
        if f[i] == "{":
            j = f.index("}", i)
            inner = f[i + 1:j].split(":")[0]
            if inner == "":
                if k >= len(pos):
                    return None
                names.append(pos[k])
                k += 1
            else:
                names.append(inner)
            i = j + 1
        else:
            text += f[i]
            i += 1
    return names, text


def r7(ctx, rep):
    rep.rule("C08.R7", "escape table, based-number width, date/time re-assembly order, CSV reader defaults", floor=14)
    syn = ctx.syn
    # (a) single-character escapes against the documented table
    f = syn.fn("lexer::parse_escape_sequence", crate="prqlc_parser")
    got = {}
    for m in matches_of(f["body"]):
        if show(m["e"]) != "next_ch":
            continue
        for arm in m["arms"]:
            if arm["pat"].get("k") == "lit" and arm["pat"].get("t") == "char" and arm.get("guard") is None and arm["body"].get("k") == "lit":
                got[arm["pat"]["v"]] = arm["body"]["v"]
    for esc, want in ESCAPES.items():
        rep.check(got.get(esc) == want, f"escape:{esc!r}", f"`\\{esc}` must denote {want!r} (U+{ord(want):04X}); the lexer's table gives {got.get(esc)!r}", file=f["file"], line=f["l"], fn=f["path"])
    for esc in sorted(set(got) - set(ESCAPES)):
        rep.bad(f"escape:{esc!r}", f"`\\{esc}` -> {got[esc]!r} is not a documented escape", file=f["file"], line=f["l"], fn=f["path"])
    # (b) based numbers are parsed at the width of Literal::Integer and never narrowed
    pb = syn.fn("lexer::parse_number_with_base", crate="prqlc_parser")
    radix = [n for n in walk(pb["body"]) if n.get("k") == "call" and last_seg(show(n["f"])) == "from_str_radix"]
    rep.check(len(radix) == 1, "radix:site", f"expected one from_str_radix call in parse_number_with_base, found {len(radix)}", file=pb["file"], line=pb["l"], fn=pb["path"])
    for c in radix:
        ty = show(c["f"]).split("::")[0]
        bits = INT_BITS.get(ty)
        need = 0
        for name in ("binary_number", "hexadecimal_number", "octal_number"):
            g = syn.fn("lexer::" + name, crate="prqlc_parser")
            for cc in walk(g["body"]):
                if cc.get("k") == "call" and last_seg(show(cc["f"])) == "parse_number_with_base":
                    base, maxd = lit_val(cc["a"][1]), lit_val(cc["a"][2])
                    if isinstance(base, int) and isinstance(maxd, int) and base > 1:
                        need = max(need, maxd * math.log2(base))
        rep.check(bits is not None and need <= bits and ty == "i64", "radix:width",
                  f"based literals admit up to {need:.0f} bits but are parsed with `{ty}::from_str_radix` ({bits} bits): a longer literal fails to parse and the fallback silently yields 0 "
                  "(Literal::Integer holds an i64, so i64 is the parse type)", file=pb["file"], line=c["l"], fn=pb["path"])
    # (c) date/time pieces are re-assembled in the order they were captured, with nothing added
    n_fmt = 0
    for name in ("time_inner", "date_token"):
        g = syn.fn("lexer::" + name, crate="prqlc_parser")
        for cl in walk(g["body"]):
            if cl.get("k") != "closure":
                continue
            fm = [m for m in walk(cl["body"]) if m.get("k") == "macro" and m["n"] == "format"]
            inner_closures = [c for c in walk(cl["body"]) if c.get("k") == "closure" and c is not cl]
            if not fm or inner_closures:
                continue
            bound = [n for p in cl["params"] for n in flat_names(p) if not n.startswith("_")]
            for m in fm:
                n_fmt += 1
                fp = fmt_pieces(m)
                key = f"reassemble:{name}:{'+'.join(bound)}"
                if fp is None:
                    rep.bad(key, f"`{show(m, maxdepth=4)}` cannot be analysed", file=g["file"], line=m["l"], fn=g["path"])
                    continue
                names, text = fp
                rep.check(names == bound and text == "", key,
                          f"the pieces captured as ({', '.join(bound)}) are printed as ({', '.join(names)}) with literal text {text!r}: the literal's text must be the concatenation of its pieces in source order",
                          file=g["file"], line=m["l"], fn=g["path"])
    rep.check(n_fmt >= 5, "reassemble:sites", f"expected >= 5 format! re-assembly closures in the date/time lexer, found {n_fmt}")
    # (d) relation literals: the CSV reader is used with its defaults (no comment char, trimming, custom quoting ...)
    n_csv = 0
    allowed = {"new", "from_reader", "default"}
    for fid, fn_ in ctx.cg.fns.items():
        if fn_["crate"] != "prqlc":
            continue
        for r in fn_["refs"]:
            if r["kind"] != "call" or r.get("crate") != "csv":
                continue
            d = r.get("def") or ""
            if "ReaderBuilder" in d:
                meth = last_seg(d.split("<")[0]) if "::" in d else d
                meth = d.split("::")[-1]
                n_csv += 1
                rep.check(meth in allowed, f"csv:ReaderBuilder::{meth}", f"from_text CSV is read with `ReaderBuilder::{meth}(..)`: only the default reader configuration keeps every cell as written "
                          "(a comment character drops rows, trimming and quoting options change cell text)", file=r["file"], line=r["l"], fn=ctx.cg.owner_fn(fid)["path"])
            elif "Reader" in d and d.split("::")[-1] == "from_reader":
                n_csv += 1
                rep.ok("csv:Reader::from_reader")
    rep.check(n_csv >= 1, "csv:sites", f"expected the from_text CSV reader construction in prqlc, found {n_csv} call(s) into the csv crate's reader constructors")


def r8(ctx, rep):
    rep.rule("C08.R8", "the fields of a relation literal's rows are placed by name, not by position", floor=2)
    syn = ctx.syn
    fs = [f for f in syn.fns if f["crate"] == "prqlc" and f["file"].endswith("semantic/lowering.rs") and f["name"] == "lower_table_ref" and "body" in f]
    if len(fs) != 1:
        raise AnchorMissing("Lowerer::lower_table_ref")
    f = fs[0]
    arm = None
    for m in matches_of(f["body"]):
        for a in m["arms"]:
            if show(a["pat"], maxdepth=6).startswith("pl::ExprKind::Array"):
                arm = a
    if arm is None:
        raise AnchorMissing("lower_table_ref: arm pl::ExprKind::Array")
    builds = any(n.get("k") == "struct" and last_seg(n["p"]) == "RelationLiteral" for n in walk(arm["body"]))
    by_name = [n for n in walk(arm["body"]) if n.get("k") == "bin" and n["op"] == "==" and (".alias" in show(n["lhs"], maxdepth=6) or ".alias" in show(n["rhs"], maxdepth=6))]
    # direction of the placement: the element that goes to the next output position (in column order) is the one FOUND by the alias search;
    # the search result is the index to read from, never the slot to write to
    def _top(e):
        while isinstance(e, dict) and e.get("k") in ("try", "paren"):
            e = e["e"]
        return e or {}
    found = [n for n in walk(arm["body"]) if n.get("k") in ("local", "let") and _top(n.get("init") or n.get("e")).get("k") == "mcall" and _top(n.get("init") or n.get("e"))["m"] == "position"
             and any(x.get("k") == "bin" and x["op"] == "==" and ".alias" in show(x, maxdepth=8) for x in walk(n.get("init") or n.get("e") or {}))]
    pos_names = sorted({x["n"] for n in found for x in walk(n["pat"]) if x.get("k") == "p_ident" and x["n"][0].islower()})
    wrong = []
    if pos_names:
        P = pos_names[0]
        uses_P = lambda e: any(x.get("k") == "path" and x["p"] == P for x in walk(e))
        for n in walk(arm["body"]):
            if n.get("k") == "assign" and n["lhs"].get("k") == "index":
                if uses_P(n["lhs"]["i"]):
                    wrong.append(f"`{show(n)}` writes to the slot found by the search")
                elif not uses_P(n["rhs"]) and "fields" in show(n["rhs"], maxdepth=6):
                    wrong.append(f"`{show(n)}` does not read the field found by the search")
            if n.get("k") == "mcall" and n["m"] == "push" and n["a"] and "fields" in show(n["a"][0], maxdepth=8) and any(x.get("k") in ("index",) or (x.get("k") == "mcall" and x["m"] in ("remove", "swap_remove", "get")) for x in walk(n["a"][0])):
                if not uses_P(n["a"][0]):
                    wrong.append(f"`{show(n)}` does not take the field found by the search")
    rep.check(bool(pos_names) and not wrong, "rows-by-field-name:direction", f"for each column (in column order) the field whose alias equals the column name is searched for and must be the one placed next: {wrong or 'no alias search (`position`) found'}; "
              "the inverse permutation is right for identity and swaps but wrong for a cyclic shift of three or more fields", file=f["file"], line=arm["l"], fn=f["path"])
    rep.check(builds and bool(by_name), "rows-by-field-name", "the rows of `from [{a=1, b=2}, {b=3, a=4}]` are tuples with named fields; lowering must place each field under the column of its name "
              "(compare `field.alias` with the column names) - read positionally, the second row becomes a=3, b=4", file=f["file"], line=arm["l"], fn=f["path"])


TEXT_EDITS = {"lines", "trim", "trim_end", "trim_start", "trim_matches", "trim_end_matches", "trim_start_matches", "replace", "replacen", "split", "splitn", "rsplit", "split_whitespace",
              "split_terminator", "join", "concat", "to_lowercase", "to_uppercase", "to_ascii_lowercase", "to_ascii_uppercase", "chars", "char_indices", "bytes", "retain", "truncate",
              "strip_prefix", "strip_suffix", "remove", "pop", "drain", "replace_range", "insert", "insert_str", "rev", "filter", "map"}


def r9(ctx, rep):
    rep.rule("C08.R9", "between the generated statement and the returned text only the formatter and the signature comment touch the text", floor=2)
    syn = ctx.syn
    c = syn.fn("sql::compile", crate="prqlc", file_suffix="sql/mod.rs")
    edits = []
    for n in walk(c["body"]):
        if n.get("k") == "mcall" and n["m"] in TEXT_EDITS:
            recv = show(n["r"], maxdepth=5)
            # `dialect.map(|d| ..)` builds the comment's target word; everything else operating on text is an edit of the statement
            if n["m"] == "map" and recv == "dialect":
                continue
            edits.append(f".{n['m']}() on {recv}")
    rep.check(not edits, "statement-text-untouched", f"sql::compile applies {edits} to the statement text: string literals are part of that text, so a line- or character-level edit "
              "(trimming line ends, replacing characters) changes literal values that span lines or end in blanks", file=c["file"], line=c["l"], fn=c["path"])
    fm = [n for n in walk(c["body"]) if n.get("k") == "call" and show(n["f"]) == "sqlformat::format"]
    rep.check(len(fm) == 1 and show(fm[0]["a"][1]).endswith("QueryParams::default()") and show(fm[0]["a"][2]).endswith("FormatOptions::default()"), "formatter-defaults",
              "the formatter is called once with default parameters and options", file=c["file"], line=c["l"], fn=c["path"])


STR_EDITS = {"trim", "trim_end", "trim_start", "trim_matches", "trim_end_matches", "trim_start_matches", "replace", "replacen", "to_lowercase", "to_uppercase", "to_ascii_lowercase",
             "to_ascii_uppercase", "make_ascii_lowercase", "make_ascii_uppercase", "strip_prefix", "strip_suffix", "truncate", "lines", "split", "splitn", "rsplit", "split_whitespace",
             "split_terminator", "retain", "pop", "remove", "drain", "replace_range", "escape_default", "escape_debug", "escape_unicode"}


def r10(ctx, rep):
    # the template of unary minus glues `-` to its operand: a negative literal child must be parenthesised, or the text reads `--5`, an SQL comment
    import C02
    rep.borrowed(C02.r4, ctx, "C08.R10", "a negative literal under unary minus is parenthesised (`-(-5)`, never `--5`)", only=r"^neg:hole")


def r11(ctx, rep):
    rep.rule("C08.R11", "text that becomes a string literal is taken as it is: no trimming, case mapping, replacing or splitting on the way into Literal::String", floor=5)
    from alpha import Inliner
    syn = ctx.syn
    reviewed = {"translate_prql_date_format": "date_to_text: the PRQL format string is deliberately translated to the dialect's format language"}
    n_sites = 0
    for f in syn.fns:
        if f["crate"] not in ("prqlc", "prqlc_parser") or "body" not in f or "/tests/" in f["file"] or f["file"].endswith("test.rs"):
            continue
        inl = None
        for n in walk(f["body"]):
            arg = None
            if n.get("k") == "call" and last_seg(show(n["f"])) in ("String", "RawString") and "Literal" in show(n["f"]) and n["a"]:
                arg, how = n["a"][0], "argument"
            elif n.get("k") == "mcall" and n["m"] == "map" and len(n["a"]) == 1 and n["a"][0].get("k") == "path" and re.search(r"Literal::(Raw)?String$", n["a"][0]["p"]):
                arg, how = n["r"], "mapped value"
            if arg is None:
                continue
            n_sites += 1
            inl = inl or Inliner(f, maxdepth=14, max_inline=4)
            # the value with its local definitions followed
            nodes = list(walk(arg))
            for x in list(nodes):
                if x.get("k") == "path" and "::" not in x["p"]:
                    d = inl._init_of(x, x["p"])
                    if d is not None:
                        nodes += list(walk(d))
            edits = sorted({x["m"] for x in nodes if x.get("k") == "mcall" and x["m"] in STR_EDITS})
            calls_ = {last_seg(show(x["f"])) for x in nodes if x.get("k") == "call"} | {x["m"] for x in nodes if x.get("k") == "mcall"}
            if calls_ & set(reviewed):
                rep.ok(f"literal-text:{f['name']}:reviewed", {"reviewed": [reviewed[c_] for c_ in calls_ & set(reviewed)]})
                continue
            rep.check(not edits, f"literal-text:{f['name']}", f"the {how} of `{show(n['f']) if n.get('k') == 'call' else 'map(' + n['a'][0]['p'] + ')'}` in {f['path']} passes through {edits}: "
                      "the string the database receives is then not the one the user wrote (a CSV cell `Ann ` with a trailing blank becomes 'Ann')", file=f["file"], line=n["l"], fn=f["path"])
    rep.check(n_sites >= 5, "sites", f"expected >= 5 constructions of Literal::String / RawString, found {n_sites}")


def r12(ctx, rep):
    rep.rule("C08.R12", "quotes consumed while probing for the closing delimiter of a multi-quoted string are all given back", floor=2)
    syn = ctx.syn
    f = syn.fn("lexer::multi_quoted_string", crate="prqlc_parser")
    # role anchors: the probing loop `while <n> < <open> { .. input.next(); <n> += 1 .. }` and the statements of the enclosing loop body
    n_probe = 0
    for lp in walk(f["body"]):
        if lp.get("k") != "loop" or lp["body"].get("k") != "block":
            continue
        stmts = lp["body"]["s"]
        probe = [i for i, st in enumerate(stmts) if st.get("k") == "while" and any(x.get("k") == "mcall" and x["m"] == "next" for x in walk(st))
                 and any(x.get("k") == "bin" and x["op"] == "+=" for x in walk(st))]
        if not probe:
            continue
        n_probe += 1
        i = probe[0]
        cnt = re.match(r"\(?(\w+) < ", show(stmts[i]["c"]))
        cnt = cnt.group(1) if cnt else "close_count"
        saves = [st["pat"]["n"] for st in stmts[:i] if st.get("k") == "local" and st["pat"].get("k") == "p_ident" and show(st.get("init")) == "input.save()"]
        after = stmts[i + 1:]
        rewinds = [x for st in after for x in walk(st) if x.get("k") == "mcall" and x["m"] == "rewind" and x["a"] and show(x["a"][0]) in saves]
        # or: every quote that was read is pushed as content (a loop / repeat bounded by the counter)
        gives_back = [x for st in after for x in walk(st) if (x.get("k") == "for" and cnt in show(x.get("e", x.get("iter", {})), maxdepth=6) and any(y.get("k") == "mcall" and y["m"] == "push" for y in walk(x)))
                      or (x.get("k") == "mcall" and x["m"] == "extend" and re.search(r"take\(" + cnt + r"\b|repeat_n\([^,]+, " + cnt + r"\b", show(x, maxdepth=10)))]
        rep.check(bool(rewinds) or bool(gives_back), "probe-restored", f"the loop of multi_quoted_string reads up to `open_count` quote characters to look for the closing delimiter; when fewer are found they are content: "
                  f"the input must be rewound to the checkpoint saved before the probe (found saves {saves}) or all `{cnt}` quotes pushed; otherwise `\"\"\"say \"\"hi\"\" now\"\"\"` loses quotes",
                  file=f["file"], line=stmts[i]["l"], fn=f["path"])
    rep.check(n_probe >= 1, "probe-site", f"expected the delimiter-probing loop of multi_quoted_string, found {n_probe}", file=f["file"], line=f["l"], fn=f["path"])


def r13(ctx, rep):
    # two literals of different kinds (a raw string and a string, an integer and a float) are not folded with Rust's `==`: the database compares their VALUES
    import C02
    rep.borrowed(C02.r7, ctx, "C08.R13", "comparisons of literals are folded only between literals of the same kind", only=r"same-kind")


def r15(ctx, rep):
    """`"a\\b"` and `r"a\b"` are two spellings of one string value. Whatever `translate_literal` does with the payload on its way into the
    statement, it does the same for both literal kinds."""
    rep.rule("C08.R15", "translate_literal treats Literal::String and Literal::RawString alike (one value, two spellings)", floor=1)
    syn = ctx.syn
    f = syn.fn("gen_expr::translate_literal", crate="prqlc")
    leafs = {}
    for m in matches_of(f["body"]):
        for a in m["arms"]:
            for alt in pat_alts(a["pat"]):
                h = pat_head(alt)
                if isinstance(h, str) and last_seg(h) in ("String", "RawString") and "Literal" in h:
                    names = [x["n"] for x in walk(alt) if x.get("k") == "p_ident"]
                    body = a["body"]
                    t = show_stmts(body, maxdepth=14) if body.get("k") == "block" else show(body, maxdepth=14)
                    if names:
                        t = re.sub(r"\b" + re.escape(names[0]) + r"\b", "<payload>", t)
                    leafs[last_seg(h)] = (t, a["l"], a.get("guard") is not None)
    ok = set(leafs) == {"String", "RawString"} and leafs["String"][0] == leafs["RawString"][0] and not leafs["String"][2] and not leafs["RawString"][2]
    rep.check(ok, "string-kinds-agree", "translate_literal gives a string and a raw string of the same value different treatments: "
              f"String -> `{leafs.get('String', ('missing',))[0][:120]}`, RawString -> `{leafs.get('RawString', ('missing',))[0][:120]}`",
              file=f["file"], line=f["l"], fn=f["path"])


def r16(ctx, rep):
    """Whether a backslash starts an escape depends on the kind of string (the `escaping` flag: not in r-strings) - never on how many quote
    characters delimit it: `"a\tb"` and `\"\"\"a\tb\"\"\"` are the same value."""
    from guards import conjuncts, parents
    rep.rule("C08.R16", "in multi_quoted_string the escape branch is taken on `escaping` and the backslash alone, not on the delimiter length", floor=1)
    syn = ctx.syn
    f = syn.fn("lexer::multi_quoted_string", crate="prqlc_parser")
    par = parents(f["body"])
    n_sites = 0
    params = [x["n"] for p_ in f["params"] for x in walk(p_) if x.get("k") == "p_ident"]
    for c in walk(f["body"]):
        if not (c.get("k") == "call" and last_seg(show(c["f"])) == "parse_escape_sequence"):
            continue
        n_sites += 1
        # the conditions this call is under, up to the `match input.next()` that yields the character
        cur, conds = c, []
        while id(cur) in par:
            p_ = par[id(cur)]
            if p_.get("k") == "if" and p_.get("t") is not None and any(x is cur for x in walk(p_["t"])) and p_["c"].get("k") != "let":
                conds += conjuncts(p_["c"])
            if p_.get("k") == "if" and p_.get("e") is not None and any(x is cur for x in walk(p_["e"])):
                conds.append({"k": "else-of", "c": p_["c"]})
            cur = p_
        bad = []
        for cj in conds:
            t = show(cj["c"] if cj.get("k") == "else-of" else cj, maxdepth=8)
            mentioned = {x["p"] for x in walk(cj) if x.get("k") == "path"}
            counts = {m_ for m_ in mentioned if re.search(r"count|len|open|close|delim", m_)}
            if cj.get("k") == "else-of" or counts or (mentioned & set(params)) - {"escaping"}:
                if cj.get("k") == "else-of" and not (mentioned & (set(params) - {"escaping"})) and not counts:
                    continue
                bad.append(t)
        rep.check(not bad, f"escape-condition:{n_sites}", f"multi_quoted_string decodes an escape sequence only under {bad}: a condition on the delimiter (its length, the quote count) makes the same text "
                  "between one pair and three pairs of quotes two different values", file=f["file"], line=c["l"], fn=f["path"])
    rep.check(n_sites >= 1, "escape-site", f"expected the call of parse_escape_sequence in multi_quoted_string, found {n_sites}", file=f["file"], line=f["l"], fn=f["path"])


def run(ctx, rep):
    for r in (r1, r2, r3, r4, r5, r6, r7, r8, r9, r10, r11, r12, r13, r14, r15, r16):
        rep.guard(r, ctx)
