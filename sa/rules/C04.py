"""C04 - window functions see exactly the documented segment and keep row count.

Decides (tables and flow shapes):
  R1 window kind table (expanding / rolling / rows / range / none) and its precedence
  R2 frame bound sign table and units
  R3 default-frame elision equals SQL's default frame (and its sibling in create_filter_by_row_number)
  R4 every frame-sensitive SQL function carries window_frame=true in base and every dialect override
  R5 window data (partition, sort, frame) reaches the OVER clause; coalesce suppressed in windows
  R6 take-in-group becomes ROW_NUMBER() with the right comparison operators
Not decided: values of window functions; that a windowed column used in filter is split into a sub-query.
"""
import json
import os

import re
from synq import (walk, show, show_stmts, strs, last_seg, pat_alts, pat_head, tail_expr, matches_of, mcalls, calls,
                  macros, lit_val, AnchorMissing)
import tables
import linear
import sqltmpl
from C02 import dialect_names, ora

META = (
    "window tables and flow shapes decided from source",
    ["A1", "A3 oracles/sql_window.json"],
    "extracted if-chain / match tables of the window transform, frame-bound translation and default-frame elision "
    "compared with the SQL standard's defaults; sibling agreement of window_frame annotations over all SQL templates",
    True,
)


def if_chain(node):
    """if c1 {b1} else if c2 {b2} else {b3} -> [(cond_text, block), ..., (None, else_block)]"""
    out = []
    cur = node
    while cur is not None and cur.get("k") == "if":
        out.append((show(cur["c"], maxdepth=8), cur["t"]))
        cur = cur.get("e")
    if cur is not None:
        out.append((None, cur))
    return out


def r1(ctx, rep):
    rep.rule("C04.R1", "window transform: expanding / rolling / rows / range / none -> (kind, start, end)", floor=6)
    O = ora("sql_window.json")["prql_window"]
    syn = ctx.syn
    f = syn.fn("resolve_special_func", crate="prqlc")
    loc = None
    for n in walk(f["body"]):
        # (by role, not by name: the 3-tuple bound from an if-chain whose branches build (WindowKind::.., start, end))
        if n.get("k") == "local" and n.get("init", {}).get("k") == "if" and n["pat"].get("k") == "p_tuple" and len(n["pat"]["e"]) == 3 \
                and any(x.get("k") == "path" and x["p"].startswith("WindowKind::") for x in walk(n["init"])):
            loc = n
    if loc is None:
        raise AnchorMissing("resolve_special_func: `let (kind, start, end) = if ..` of the window transform")
    # the decision is read as a truth table over (expanding, rolling > 0, rows given, range given): the first parameter given, in that order,
    # decides - however the chain is written (else-if, nested, branches the other way round)
    import boolfn
    import alpha
    import itertools
    A = alpha.Inliner(f)
    names = ["expanding", "rolling", "rows", "range", "none"]
    msgs = {"expanding": "expanding must be rows:..0 (unbounded preceding to the current row)",
            "rolling": "rolling:n must be rows:(1-n)..0 (the current row and the n-1 rows before it)",
            "rows": "rows:a..b must be passed through as (Rows, a, b)",
            "range": "range:a..b must be passed through as (Range, a, b)",
            "none": "no window parameter means the whole partition: (Rows, None, None)"}

    def bound(b):
        s_ = show(b)
        if s_ == "None":
            return None
        if b.get("k") == "call" and show(b["f"]) == "Some":
            try:
                return linear.norm(linear.linear(b["a"][0]))
            except linear.NotLinear:
                return ("?", s_)
        return ("expr", s_)
    failed, unreadable = {}, None
    for E, R, RW, RG in itertools.product((True, False), repeat=4):
        def atom(t, E=E, R=R, RW=RW, RG=RG):
            t = t.replace(" ", "").replace("(", "").replace(")", "")
            if t == "expanding":
                return E
            if t in ("rolling>0", "0<rolling", "rolling>=1", "rolling!=0"):
                return R
            if t in ("rolling<=0", "rolling==0", "rolling<1"):
                return not R
            if t == "range_is_empty&rows":
                return not RW
            if t == "range_is_empty&range":
                return not RG
            return None
        want = "expanding" if E else "rolling" if R else "rows" if RW else "range" if RG else "none"
        try:
            t = boolfn.leaf(loc["init"], atom, A)
        except boolfn.Unknown as e:
            unreadable = str(e)
            break
        if t is None or t.get("k") != "tuple" or len(t["e"]) != 3:
            failed.setdefault(want, (t.get("l") if t else loc["l"], f"the decision does not end in a (kind, start, end) tuple: {show(t)[:60]}"))
            continue
        kind, start, end = t["e"]
        kind_s = last_seg(show(kind))
        bs, be = bound(start), bound(end)
        if want == "expanding":
            ok = kind_s == "Rows" and bs is None and be == ()
        elif want == "rolling":
            ok = kind_s == "Rows" and bs == (("", 1), ("rolling", -1)) and be == ()
        elif want == "rows":
            ok = kind_s == "Rows" and bs == ("expr", "rows.0") and be == ("expr", "rows.1")
        elif want == "range":
            ok = kind_s == "Range" and bs == ("expr", "range.0") and be == ("expr", "range.1")
        else:
            ok = kind_s == "Rows" and bs is None and be is None
        if not ok:
            given = [n_ for n_, v in zip(names, (E, R, RW, RG)) if v] or ["none"]
            failed.setdefault(want, (t["l"], f"with {' + '.join(given)} given: found ({kind_s}, {show(start)}, {show(end)})"))
    rep.check(unreadable is None, "precedence", f"the window parameters must be decided by tests of expanding, rolling > 0, range_is_empty(&rows), range_is_empty(&range); not readable: {unreadable}",
              file=f["file"], line=loc["l"], fn=f["path"])
    for name in names:
        bad = failed.get(name)
        rep.check(bad is None, f"row:{name}", f"{msgs[name]} - and the parameters are tried in the order expanding, rolling, rows, range; {bad[1] if bad else ''}",
                  file=f["file"], line=bad[0] if bad else loc["l"], fn=f["path"])


def r2(ctx, rep):
    rep.rule("C04.R2", "frame bounds: 0 = CURRENT ROW, n>0 = n FOLLOWING, n<0 = -n PRECEDING, open = UNBOUNDED; ROWS/RANGE kept", floor=6)
    syn = ctx.syn
    f = syn.fn("gen_expr::try_into_window_frame", crate="prqlc")
    # by role: the match (in a nested fn, a closure or inline) whose arms build WindowFrameBound variants from an integer
    m = None
    for mm in matches_of(f["body"]):
        arms_txt = " ".join(show(a["body"], maxdepth=6) for a in mm["arms"])
        if "WindowFrameBound::CurrentRow" in arms_txt and "WindowFrameBound::Following" in arms_txt and "WindowFrameBound::Preceding" in arms_txt:
            m = mm
    if m is None:
        raise AnchorMissing("try_into_window_frame: the match that turns an integer bound into CURRENT ROW / FOLLOWING / PRECEDING")
    bound_fn = None
    par_ = __import__("guards").parents(f["body"])
    cur = m
    while id(cur) in par_:
        cur = par_[id(cur)]
        if cur.get("k") == "item_fn":
            bound_fn = cur["name"]
            break
        if cur.get("k") == "closure":
            p2 = par_.get(id(cur))
            if p2 is not None and p2.get("k") == "local":
                bound_fn = show(p2["pat"])
            break
    bound_fn = bound_fn or "parse_bound"
    rows = {}
    for arm in m["arms"]:
        for alt in pat_alts(arm["pat"]):
            h = pat_head(alt)
            ctor = None
            arg = None
            for c in walk(arm["body"]):
                if c.get("k") == "path" and c["p"].startswith("WindowFrameBound::") and ctor is None:
                    ctor = last_seg(c["p"])
                if c.get("k") == "mcall" and c["m"] == "to_string" and arg is None:
                    arg = show(c["r"])
            rows[str(h)] = (ctor, arg)
    rep.check(rows.get("('lit', '0')") == ("CurrentRow", None), "bound:0", f"bound 0 must be CURRENT ROW; found {rows.get(chr(40)+repr('lit')+', '+repr('0')+chr(41))}", file=f["file"], line=m["l"], fn=f["path"])
    pos = [v for k, v in rows.items() if k.startswith("('range', 1, None")]
    scrut = show(m["e"])
    rep.check(pos == [("Following", scrut)], "bound:positive", f"positive bounds (1..) must be `n FOLLOWING` with n = the bound; found {pos}", file=f["file"], line=m["l"], fn=f["path"])
    rep.check(rows.get("_") in (("Preceding", "-" + scrut), ("Preceding", f"(-{scrut})")), "bound:negative", f"negative bounds must be `-n PRECEDING`; found {rows.get('_')}", file=f["file"], line=m["l"], fn=f["path"])
    # units and open ends
    um = None
    for mm in matches_of(f["body"]):
        if show(mm["e"]) == "frame.kind":
            um = mm
    units = {}
    if um:
        for head, g, body, line, _ in tables.match_rows(um):
            units[last_seg(head) if isinstance(head, str) else str(head)] = last_seg(show(body))
    rep.check(units == {"Rows": "Rows", "Range": "Range"}, "units", f"ROWS/RANGE must be kept; found {units}", file=f["file"], line=f["l"], fn=f["path"])
    st = None
    for n in walk(f["body"]):
        if n.get("k") == "struct" and last_seg(n["p"]) == "WindowFrame":
            st = {a: b for a, b in n["f"]}
    if st is None:
        raise AnchorMissing("try_into_window_frame: WindowFrame literal")
    sb = st["start_bound"]
    ok_s = sb.get("k") == "if" and "frame.range.start" in show(sb["c"]) and f"{bound_fn}(start)" in show_stmts(sb["t"]) and show(tail_expr(sb["e"])) == "WindowFrameBound::Preceding(None)"
    rep.check(ok_s, "open-start", "a missing start bound must be UNBOUNDED PRECEDING", file=f["file"], line=sb.get("l"), fn=f["path"])
    eb = st["end_bound"]
    inner = eb["a"][0] if eb.get("k") == "call" and eb["a"] else eb
    ok_e = inner.get("k") == "if" and "frame.range.end" in show(inner["c"]) and f"{bound_fn}(end)" in show_stmts(inner["t"]) and show(tail_expr(inner["e"])) == "WindowFrameBound::Following(None)"
    rep.check(ok_e, "open-end", "a missing end bound must be UNBOUNDED FOLLOWING", file=f["file"], line=eb.get("l"), fn=f["path"])


def frame_pair(node):
    """(cond, [(kind, start, end) then], [(kind,start,end) else]) of an `if <sort empty> {..} else {..}` that builds frames"""
    def triple(blk):
        kind = start = end = None
        for n in walk(blk):
            if n.get("k") == "path" and n["p"].startswith("WindowKind::") and kind is None:
                kind = last_seg(n["p"])
        txt = show_stmts(blk, maxdepth=14)
        if "Range::unbounded()" in txt:
            start, end = None, None
        else:
            for n in walk(blk):
                if n.get("k") == "struct" and last_seg(n["p"]) == "Range":
                    d = {a: b for a, b in n["f"]}
                    start = show(d.get("start"), maxdepth=10)
                    end = show(d.get("end"), maxdepth=10)
        return kind, start, end
    # polarity: `if !<sort empty> {sorted} else {unsorted}` is the same pair the other way round
    c = node["c"]
    neg = False
    while c.get("k") in ("un", "paren"):
        if c.get("k") == "un" and c["op"] == "!":
            neg = not neg
        c = c["e"]
    a, b = triple(node["t"]), triple(node["e"])
    return show(c), (b if neg else a), (a if neg else b)


def r3(ctx, rep):
    rep.rule("C04.R3", "the frame that is elided is exactly SQL's default frame", floor=4)
    O = ora("sql_window.json")["sql_default_frame"]
    syn = ctx.syn
    f = syn.fn("gen_expr::translate_windowed", crate="prqlc")
    node = None
    for n in walk(f["body"]):
        if n.get("k") == "if" and show(n["c"]).replace("(", "").replace(")", "").lstrip("!") == "window.sort.is_empty":
            node = n
    if node is None:
        raise AnchorMissing("translate_windowed: `if window.sort.is_empty()` building the default frame")
    c, t, e = frame_pair(node)
    rep.check(t == ("Rows", None, None), "default:unsorted", f"without ORDER BY SQL's default frame is the whole partition (ROWS unbounded); found {t}", file=f["file"], line=node["l"], fn=f["path"])
    ok = e[0] == "Range" and e[1] == "None" and e[2] is not None and "Literal::Integer(0)" in e[2]
    rep.check(ok, "default:sorted", f"with ORDER BY SQL's default frame is RANGE UNBOUNDED PRECEDING .. CURRENT ROW; found {e}", file=f["file"], line=node["l"], fn=f["path"])
    # elision only when equal to the default and the function takes a frame
    wf = None
    for n in walk(f["body"]):
        if n.get("k") == "struct" and last_seg(n["p"]) == "WindowSpec":
            wf = {a: b for a, b in n["f"]}.get("window_frame")
    # (locals inlined: `supports_frame` and `default_frame` may be named anything or not at all)
    import alpha
    A = alpha.Inliner(f)
    for _ in range(3):       # the field value itself may have been given a name first
        if wf is not None and wf.get("k") == "path" and "::" not in wf["p"]:
            i_ = A._init_of(wf, wf["p"])
            if i_ is None:
                break
            wf = i_
    # truth table of the condition over (template has a frame, frame equals the default): any spelling of `has && !equal`
    import boolfn
    ok = False
    sf_ok = False
    if wf is not None and wf.get("k") == "if":
        rows = []
        try:
            for has in (True, False):
                for equal in (True, False):
                    def atom(t, has=has, equal=equal):
                        if t == "expr":
                            return "ExprOrSource::Source" if has else "ExprOrSource::Expr"
                        if t == "window.frame":
                            return "F::A"
                        if t == "default_frame":
                            return "F::A" if equal else "F::B"
                        return None
                    rows.append(boolfn.ev(wf["c"], atom, A) == (has and not equal))
            sf_ok = any(x.get("k") == "macro" and x.get("n") == "matches" and "window_frame: true" in show_pat(x["pat"]) for x in walk_inlined(A, wf["c"]))
            ok = all(rows) and sf_ok and "try_into_window_frame(window.frame)" in show_stmts(wf["t"]) and show(tail_expr(wf["e"])) == "None"
        except boolfn.Unknown:
            ok = False
    rep.check(ok, "elision", "the frame may be omitted only when the function has no frame or the frame equals the default", file=f["file"], line=f["l"], fn=f["path"])
    rep.check(sf_ok, "supports_frame", "the first conjunct of the elision test must be the template's window_frame annotation (`matches!(expr, ..window_frame: true..)`)", file=f["file"], line=f["l"], fn=f["path"])
    # sibling: create_filter_by_row_number builds the same pair
    g = syn.fn("preprocess::create_filter_by_row_number", crate="prqlc")
    node = None
    Ag = __import__("alpha").Inliner(g)
    for n in walk(g["body"]):
        # (the test inlined: `sort.is_empty()` under any local name or none)
        if n.get("k") == "if" and Ag.show(n["c"]).replace("(", "").replace(")", "").lstrip("!") == "sort.is_empty":
            node = n
    if node is None:
        # the pair may live in a private helper taking the test as its argument: follow `frame: helper(<test>)` of the Window literal
        for n in walk(g["body"]):
            if n.get("k") == "struct" and last_seg(n["p"]) == "Window":
                fv = {a: b for a, b in n["f"]}.get("frame")
                if fv is not None and fv.get("k") == "call" and len(fv["a"]) == 1 and Ag.show(fv["a"][0]) == "sort.is_empty()":
                    hs = [h for h in syn.fns if h["crate"] == "prqlc" and h["file"] == g["file"] and h["name"] == last_seg(show(fv["f"])) and "body" in h]
                    if len(hs) == 1:
                        prm = [show(x.get("pat", x)).split(":")[0].strip() if isinstance(x, dict) else str(x).split(":")[0].strip() for x in hs[0].get("params", [])]
                        t_ = tail_expr(hs[0]["body"])
                        if t_ is not None and t_.get("k") == "if" and len(prm) == 1 and show(t_["c"]) == prm[0]:
                            node = t_
    if node is None:
        raise AnchorMissing("create_filter_by_row_number: `if sort.is_empty()`")
    c2, t2, e2 = frame_pair(node)
    rep.check(t2 == ("Rows", None, None) and e2[0] == "Range" and e2[1] == "None" and e2[2] is not None and "int_expr(0)" in e2[2], "sibling:row_number",
              f"create_filter_by_row_number must give ROW_NUMBER the default frame (so that it is elided); found {t2} / {e2}", file=g["file"], line=node["l"], fn=g["path"])
    # WindowFrame::default (no `window` given) = whole partition
    d = [x for x in syn.fns if x["crate"] == "prqlc" and x.get("self_short") == "WindowFrame" and x["name"] == "default"]
    ok = len(d) == 1 and "WindowKind::Rows" in show_stmts(d[0]["body"], maxdepth=8) and "Range::unbounded()" in show_stmts(d[0]["body"], maxdepth=8)
    rep.check(ok, "prql-default", "no window = whole partition: WindowFrame::default() must be ROWS unbounded", file=d[0]["file"] if d else None, line=d[0]["l"] if d else None)


def walk_inlined(A, e, depth=0):
    """nodes of e, following locals to their initialisers"""
    for x in walk(e):
        yield x
        if x.get("k") == "path" and "::" not in x["p"] and depth < 4:
            i = A._init_of(x, x["p"])
            if i is not None:
                yield from walk_inlined(A, i, depth + 1)


def show_pat(p):
    """render a struct pattern with its fields (synq.show abbreviates them)"""
    if p.get("k") == "p_ts":
        return p["p"] + "(" + ", ".join(show_pat(e) for e in p["e"]) + ")"
    if p.get("k") == "p_struct":
        return p["p"] + "{" + ", ".join(f"{a}: {show_pat(b)}" for a, b in p["f"]) + "}"
    return show(p)


def r4(ctx, rep):
    rep.rule("C04.R4", "frame-sensitive SQL functions accept a frame (window_frame=true) in base and every override", floor=20)
    O = ora("sql_window.json")
    sens, insens = set(O["frame_sensitive_heads"]), set(O["frame_insensitive_heads"])
    for impl in ctx.std["sql"]:
        if impl["body"]["kind"] != "sstring":
            continue
        try:
            a = sqltmpl.analyse(impl["body"]["items"])
        except sqltmpl.TemplateError:
            continue
        toks = a["tokens"]
        head = None
        if len(toks) >= 2 and toks[0]["k"] == "word" and toks[1]["k"] == "punct" and toks[1]["v"] == "(":
            head = toks[0]["v"]
        if head in sens:
            rep.check(impl["annotations"].get("window_frame") is True, f"frame:{impl['path']}",
                      f"`{impl['path']}` is `{head}(..)`, which SQL evaluates over the window frame, but it is not annotated window_frame=true: "
                      "a `window rows:a..b` is silently dropped and, with a sort, SQL's default frame (up to the current row) is used instead of the whole partition",
                      file=impl["file"], line=impl["line"])
        elif head in insens:
            rep.ok(f"noframe:{impl['path']}", {"head": head}, nontrivial=False)
        # ` OVER (..)` is appended to the whole text: a window-capable implementation must be one function call
        if head in sens or head in insens:
            single_call = (not a["top_ops"]) and toks[-1]["k"] == "punct" and toks[-1]["v"] == ")"
            rep.check(single_call, f"over-target:{impl['path']}",
                      f"`{impl['path']}` = `{impl['body']['raw']}` is used as a window function, but ` OVER (..)` is appended to the whole text: with a top-level operator after the call "
                      f"the emitted SQL is `{impl['body']['raw']} OVER (..)`, which no dialect parses", file=impl["file"], line=impl["line"])


def r5(ctx, rep):
    rep.rule("C04.R5", "partition, sort and frame of the enclosing group/sort/window reach the OVER clause", floor=8)
    syn = ctx.syn
    # Flattener
    fl = [x for x in syn.fns if x["crate"] == "prqlc" and x.get("self_short") == "Flattener" and x["name"] == "fold_expr"]
    if len(fl) != 1:
        raise AnchorMissing("Flattener::fold_expr")
    fl = fl[0]
    tc = None
    for n in walk(fl["body"]):
        if n.get("k") == "struct" and last_seg(n["p"]) == "TransformCall":
            tc = {a: show(b) for a, b in n["f"]}
    rep.check(tc is not None and tc.get("partition") == "self.partition.clone()" and tc.get("frame") == "self.window.clone()" and tc.get("sort") == "sort",
              "flatten:fields", f"every flattened transform must carry the current partition / frame / sort; found {tc}", file=fl["file"], line=fl["l"], fn=fl["path"])
    # Window arm sets and resets the frame
    warm = [arm for m in matches_of(fl["body"]) for arm in m["arms"] if "TransformKind::Window" in show(arm["pat"], maxdepth=6)]
    sets = [show(n["rhs"], maxdepth=6) for arm in warm for n in walk(arm["body"]) if n.get("k") == "assign" and show(n["lhs"]) == "self.window"]
    rep.check(sets == ["WindowFrame{kind: kind, range: range}", "WindowFrame::default()"], "flatten:window-scope",
              f"the window arm must set the frame for its pipeline and reset it afterwards; assignments found: {sets}", file=fl["file"], line=fl["l"], fn=fl["path"])
    # who may write which piece of the Flattener's state, per arm of the transform match
    allowed = {"Sort": {"sort"}, "Group": {"sort", "sort_undone", "partition", "replace_map"}, "Window": {"window", "replace_map"},
               "Append|Join": {"sort", "sort_undone", "partition", "window"}, "Aggregate": {"sort"}, "*": set()}
    # ... the Append|Join arm may touch them only to isolate its argument: moved out before the argument is folded, put back after it
    import C03
    iso = C03.join_append_isolation(fl)
    for fld in ("partition", "window", "sort"):
        saved, emptied, restored = iso.get(fld, (False, False, False))
        if fld == "sort":
            # the ORDER BY of every window function after the join is the Flattener's remembered sort
            rep.check(saved and emptied and restored, "flatten:join-append-isolated:sort", "the order in effect before a join / append is the ORDER BY of the window functions that follow it: `self.sort` must be moved out "
                      "before the argument is folded and put back afterwards (`sort {-x} | join u (==id) | derive {rn = row_number this}` must keep `OVER (ORDER BY x DESC)`)", file=fl["file"], line=fl["l"], fn=fl["path"])
            continue
        rep.check(saved and emptied and restored, f"flatten:join-append-isolated:{fld}", f"the argument of a join / append is a pipeline of its own: `self.{fld}` must be moved out before it is folded and put back "
                  "afterwards, otherwise a `take` / aggregate inside the argument is partitioned by (framed like) the enclosing group / window of the OUTER pipeline "
                  "(`from a | group g (append (from b | sort x | take 3))` gave `ROW_NUMBER() OVER (PARTITION BY g ORDER BY x)` over b)", file=fl["file"], line=fl["l"], fn=fl["path"])
    tm = None
    for m in matches_of(fl["body"]):
        if any("TransformKind::Sort" in show(a["pat"], maxdepth=6) for a in m["arms"]):
            tm = m
    if tm is None:
        raise AnchorMissing("Flattener::fold_expr: match over TransformKind")
    n_arms = 0
    for arm in tm["arms"]:
        pt = show(arm["pat"], maxdepth=8)
        kinds = sorted(set(re.findall(r"TransformKind::(\w+)", pt)))
        name = "|".join(kinds) if kinds else "*"
        n_arms += 1
        written = set()
        for n in walk(arm["body"]):
            t = None
            if n.get("k") == "assign":
                t = show(n["lhs"], maxdepth=4)
            elif n.get("k") == "mcall" and n["m"] in ("clear", "clone_from", "insert", "remove", "push", "extend", "take", "replace"):
                t = show(n["r"], maxdepth=4)
            elif n.get("k") == "call" and last_seg(show(n["f"])) in ("take", "replace", "swap") and n["a"]:
                t = show(n["a"][0], maxdepth=4).replace("&mut ", "")
            if t and t.startswith("self."):
                written.add(t.split(".")[1])
        extra = written - allowed.get(name, set())
        rep.check(not extra, f"flatten:state-writers:{name}", f"the `{name}` arm of the Flattener writes {sorted(extra)} of its state; allowed for this arm: {sorted(allowed.get(name, set()))} "
                  "(e.g. a window block that clears the sort makes later rank/lag/row_number unordered)", file=fl["file"], line=arm["l"], fn=fl["path"])
    rep.check(n_arms >= 5, "flatten:arms", f"expected the Sort, Group, Window, Append|Join and default arms, found {n_arms}", file=fl["file"], line=fl["l"], fn=fl["path"])
    # Lowerer::lower_pipeline builds rq::Window from the transform call
    lp = syn.fn("Lowerer::lower_pipeline", crate="prqlc")
    w = None
    for n in walk(lp["body"]):
        if n.get("k") == "struct" and last_seg(n["p"]) == "Window":
            w = {a: show(b, maxdepth=10) for a, b in n["f"]}
    ok = w is not None and "transform_call.frame.kind" in w.get("frame", "") and "self.lower_range(transform_call.frame.range)" in w.get("frame", "") \
        and "transform_call.partition" in w.get("partition", "") and w.get("sort") == "self.lower_sorts(transform_call.sort)?"
    rep.check(ok, "lower:window", f"rq::Window must be built from the transform call's frame, partition and sort; found {w}", file=lp["file"], line=lp["l"], fn=lp["path"])
    rep.check("self.window = Some(window)" in show_stmts(lp["body"], maxdepth=6), "lower:set", "the lowered window must become the current window", file=lp["file"], line=lp["l"], fn=lp["path"])
    # declare_as_column: window iff needs_window
    dc = syn.fn("Lowerer::declare_as_column", crate="prqlc")
    loc = [n for n in dc["body"]["s"] if n.get("k") == "local" and show(n["pat"]) == "window"]
    ok = bool(loc) and loc[0]["init"].get("k") == "if" and show(loc[0]["init"]["c"]) == "needs_window" \
        and show(tail_expr(loc[0]["init"]["t"])) == "self.window.clone()" and show(tail_expr(loc[0]["init"]["e"])) == "None"
    rep.check(ok, "lower:needs_window", "a Compute gets the current window exactly when the expression needs one", file=dc["file"], line=dc["l"], fn=dc["path"])
    cs = None
    for n in walk(dc["body"]):
        if n.get("k") == "struct" and last_seg(n["p"]) == "Compute":
            cs = {a: show(b) for a, b in n["f"]}
    rep.check(cs is not None and cs.get("window") == "window", "lower:compute", "Compute.window must be that window", file=dc["file"], line=dc["l"], fn=dc["path"])
    # translate_cid: windowed iff compute.window
    tc_ = syn.fn("gen_expr::translate_cid", crate="prqlc")
    ok = False
    from synq import variant_table
    for n in walk(tc_["body"]):
        vt = variant_table(n) if n.get("k") in ("if", "match") else None
        if vt and "Some" in vt[1] and "translate_windowed(" in vt[1]["Some"]:
            # the wrapped value is the first argument; without a window the very same value is the result
            m_ = re.search(r"translate_windowed\((\w+), ", vt[1]["Some"])
            other = vt[1].get("None", vt[2])
            ok = bool(m_) and other == m_.group(1) and len(vt[1]) <= 2
    rep.check(ok, "emit:over", "a column with a window must be wrapped by translate_windowed, others left as they are", file=tc_["file"], line=tc_["l"], fn=tc_["path"])
    asg = [show(n["rhs"]) for n in walk(tc_["body"]) if n.get("k") == "assign" and show(n["lhs"]) == "ctx.query.window_function"]
    rep.check(asg == ["window.is_some()", "prev_wf"], "emit:flag", f"window_function must be set from compute.window and restored; found {asg}", file=tc_["file"], line=tc_["l"], fn=tc_["path"])
    # coalesce suppressed in windows
    to = syn.fn("operators::translate_operator", crate="prqlc")
    ok = False
    import guards as _g
    for blk in _g.branches_when(to["body"], "ctx.query.window_function", False):
        ok = ok or "COALESCE(" in str(strs(blk))
    ok = ok and not any("COALESCE(" in str(strs(blk)) for blk in _g.branches_when(to["body"], "ctx.query.window_function", True))
    rep.check(ok, "coalesce-guard", "the empty-input COALESCE wrapper must be applied only outside window functions", file=to["file"], line=to["l"], fn=to["path"])
    # OVER text carries partition, order and frame
    tw = syn.fn("gen_expr::translate_windowed", crate="prqlc")
    ws = None
    for n in walk(tw["body"]):
        if n.get("k") == "struct" and last_seg(n["p"]) == "WindowSpec":
            Aw = __import__("alpha").Inliner(tw, max_inline=1)
            ws = {a: Aw.show(b) for a, b in n["f"]}
    # partition from window.partition; the order list is the (mutable, possibly defaulted) local built from window.sort
    ok = ws is not None and ws.get("partition_by") == "try_into_exprs(window.partition, ctx, span)?" and ws.get("order_by", "").isidentifier() \
        and any(x.get("k") == "local" and show(x["pat"]).replace("mut ", "") == ws["order_by"] and "window.sort" in show(x.get("init"), maxdepth=10) for x in walk(tw["body"]))
    fm = [lit_val(m["a"][0]) for m in macros(tw["body"], "format") if m.get("a")]
    rep.check(ok and "{expr} OVER ({window})" in fm, "emit:spec", f"OVER (..) must be built from partition, order and frame; found {ws} / {fm}", file=tw["file"], line=tw["l"], fn=tw["path"])


def r6(ctx, rep):
    rep.rule("C04.R6", "take inside a group filters ROW_NUMBER() with = / >= / <= on the take bounds", floor=5)
    O = ora("sql_window.json")["take_in_group"]
    syn = ctx.syn
    g = syn.fn("preprocess::create_filter_by_row_number", crate="prqlc")
    rep.check("ROW_NUMBER()" in strs(g["body"]), "row_number", "the helper column must be ROW_NUMBER()", file=g["file"], line=g["l"], fn=g["path"])
    w = None
    for n in walk(g["body"]):
        if n.get("k") == "struct" and last_seg(n["p"]) == "Window":
            w = {a: show(b, maxdepth=3) for a, b in n["f"]}
    rep.check(w is not None and w.get("partition") == "partition" and w.get("sort") == "sort", "partition-sort", f"ROW_NUMBER must be computed over the group's partition and sort; found {w}", file=g["file"], line=g["l"], fn=g["path"])
    m = None
    for mm in matches_of(g["body"]):
        if show(mm["e"]) == "(range_int.start, range_int.end)":
            m = mm
    if m is None:
        raise AnchorMissing("create_filter_by_row_number: match (range_int.start, range_int.end)")
    arm0, arm1 = m["arms"][0], m["arms"][1]
    ok0 = show(arm0.get("guard")) == "(s == e)" and strs(arm0["body"]) == [O["single"]] and "int_expr(s)" in show(arm0["body"], maxdepth=8)
    rep.check(ok0, "single", f"take n..n must compare with {O['single']}", file=g["file"], line=arm0["l"], fn=g["path"])
    calls_ = [(show(c["a"][0], maxdepth=2), lit_val(c["a"][1]), show(c["a"][2], maxdepth=3)) for c in walk(arm1["body"]) if c.get("k") == "call" and last_seg(show(c["f"])) in ("new_binop", "maybe_binop")]
    ops = {(b, c) for a, b, c in calls_}
    rep.check((O["start"], "int_expr(start)") in ops, "start", f"the start bound must be `row_number >= start`; found {calls_}", file=g["file"], line=arm1["l"], fn=g["path"])
    rep.check((O["end"], "int_expr(end)") in ops, "end", f"the end bound must be `row_number <= end`; found {calls_}", file=g["file"], line=arm1["l"], fn=g["path"])
    rep.check(any(b == O["both"] for a, b, c in calls_), "both", f"both bounds must be combined with {O['both']}", file=g["file"], line=arm1["l"], fn=g["path"])


def r7(ctx, rep):
    rep.rule("C04.R7", "a window range counts as 'not given' only when both bounds exist and start > end; computes are hoisted over take only when plain", floor=6)
    syn = ctx.syn
    f = syn.fn("transforms::range_is_empty", crate="prqlc")
    # evaluated on representative ranges (abstract interpretation over Option<i64>, no program is run), whatever it is spelled like:
    # `match (&range.0, &range.1) { (Some(s), Some(e)) => s > e, _ => false }`, `matches!(range, (Some(s), Some(e)) if s > e)`,
    # `range.0.zip(range.1).map_or(false, |(s, e)| s > e)` ..
    import optlin
    pn = [p_["name"] for p_ in f.get("params", []) if isinstance(p_, dict) and "name" in p_]
    cases = [((None, None), False), ((1, None), False), ((None, 1), False), ((2, 1), True), ((1, 1), False), ((1, 2), False), ((0, -1), True), ((-3, -1), False)]
    wrong = []
    for (a_, b_), want in cases:
        val = ("tuple", tuple(optlin.NONE if x is None else optlin.some(optlin.lin(None, x)) for x in (a_, b_)))
        try:
            got = optlin.Interp().block(f["body"], {pn[0]: val})[0] if pn else None
        except optlin._Return as r_:
            got = r_.value
        except optlin.Unsupported as e_:
            wrong.append(f"not readable ({e_})")
            break
        if got != ("bool", want):
            wrong.append(f"({a_}, {b_}) -> {got[1] if isinstance(got, tuple) and got and got[0] == 'bool' else got}, expected {want}")
    ok_r = bool(pn) and not wrong
    rep.check(ok_r, "range_is_empty",
              f"an open bound is unbounded: only (Some(s), Some(e)) with s > e is the empty (= default, not given) range; found {wrong[:3]}: "
              "otherwise `window rows:1..` is silently replaced by the whole partition", file=f["file"], line=f["l"], fn=f["path"])
    # the defaults in std.prql that mean "not given" are empty ranges under that definition
    w = [d for d in ctx.std["std"] if d["path"] == "window"]
    if w:
        d = {p["name"]: p["default"] for p in w[0]["params"]}
        ok = d.get("rows") == "0..-1" and d.get("range") == "0..-1" and d.get("rolling") == "0" and d.get("expanding") == "false"
        rep.check(ok, "window-defaults", f"the defaults of `window` must be the 'not given' values (rows:0..-1, range:0..-1, rolling:0, expanding:false); found {d}", file=w[0]["file"], line=w[0]["line"])
    else:
        rep.bad("window-defaults", "std.prql does not declare `window`")
    # reorder: a Compute may move in front of a Take only if it is plain (a window function over the taken rows
    # is not the same as over all rows)
    r = syn.fn("preprocess::reorder", crate="prqlc")
    mm = None
    for x in matches_of(r["body"]):
        if show(x["e"]) == "prev":
            mm = x
    if mm is None:
        raise AnchorMissing("reorder: match prev")
    take_arms = [a for a in mm["arms"] if "Take" in show(a["pat"])]
    import C01
    ok = len(take_arms) == 1 and C01.plain_only(take_arms[0].get("guard")) and show(take_arms[0]["body"]) == "true"
    rep.check(ok, "reorder:take", f"a compute may be hoisted above `take` only when it is Complexity::Plain; found guard {show(take_arms[0].get('guard')) if take_arms else None}: "
              "a windowed compute evaluated before LIMIT sees all rows instead of the taken ones", file=r["file"], line=mm["l"], fn=r["path"])
    wild = [a for a in mm["arms"] if pat_head(a["pat"]) == "_"]
    rep.check(bool(wild) and show(wild[0]["body"]) == "false", "reorder:default", "by default a compute must not be moved across the preceding transform", file=r["file"], line=mm["l"], fn=r["path"])
    allowed_true = [show(a["pat"]) for a in mm["arms"] if show(a["body"]) == "true"]
    rep.check(sorted(allowed_true) == sorted(["Super(Sort(_))", "Super(Take(_))"]), "reorder:movable", f"computes may only be moved across Sort (always) and Take (plain only); arms returning true: {allowed_true}", file=r["file"], line=mm["l"], fn=r["path"])
    # the complexity order the comparisons rely on
    cx = syn.adt("Complexity", crate="prqlc")
    order = tables.enum_variants(cx)
    rep.check(order == ["Plain", "NonGroup", "Windowed", "Aggregation"], "complexity-order", f"derive(PartialOrd) order of Complexity must be Plain < NonGroup < Windowed < Aggregation; found {order}", file=cx["file"], line=cx["l"])
    cm = syn.fn("anchor::can_materialize", crate="prqlc")
    import C07
    okc, why = C07.can_materialize_shape(syn)
    rep.check(okc, "can_materialize", f"a compute may be materialised where its complexity does not exceed what the requirements allow ({why})", file=cm["file"], line=cm["l"], fn=cm["path"])


def r8(ctx, rep):
    # a window function evaluated in the SELECT of a DISTINCT / LIMIT / set operation sees other rows than the pipeline says:
    # the rows of the clause-order table that concern Compute followers are necessary for C04 as well
    import C01
    rep.borrowed(C01.r1, ctx, "C04.R8", "a windowed compute is evaluated on the rows its position in the pipeline denotes", only=r"^req:\w+:Compute$")


def r9(ctx, rep):
    rep.rule("C04.R9", "a RANGE frame with offsets is emitted only together with an ORDER BY", floor=2)
    syn = ctx.syn
    f = syn.fn("gen_expr::translate_windowed", crate="prqlc")
    # a rejection (`return Err`) whose condition tests the Range kind, an empty order and the bounds, placed before the WindowSpec is built
    spec_line = min([n["l"] for n in walk(f["body"]) if n.get("k") == "struct" and last_seg(n["p"]) == "WindowSpec"] or [10 ** 9])
    ok = False
    for n in walk(f["body"]):
        if n.get("k") == "if" and n["l"] < spec_line and any(r.get("k") == "return" and "Err" in show(r.get("e"), maxdepth=4) for r in walk(n["t"])):
            c = __import__("alpha").Inliner(f).show(n["c"])      # named booleans are inlined
            ok = ok or ("WindowKind::Range" in c and "is_empty()" in c and ("range.start" in c or "range.end" in c))
    # which bounds count as "no offset": only an absent bound and the literal 0 (CURRENT ROW); every pattern over an integer bound inside the
    # function's offset test must be exactly `0`
    pats = []
    for n in walk(f["body"]):
        for key in ("pat",):
            p_ = n.get(key) if n.get("k") in ("macro", "let") else None
            if isinstance(p_, dict):
                for x in walk(p_):
                    if x.get("k") == "p_ts" and last_seg(x["p"]) == "Integer" and x.get("e") and n["l"] < spec_line:
                        pats.append(x["e"][0])
    loose = [show(x) for x in pats if not (x.get("k") == "lit" and str(x.get("v")) == "0")]
    rep.check(bool(pats) and not loose, "range-needs-sort:zero-only", f"in translate_windowed's test for a bound with an offset, integer bounds are matched by {[show(x) for x in pats]}: only the literal `0` (CURRENT ROW) is "
              f"not an offset; {loose} also lets negative / other bounds through (`range:-2..0` without a sort compiles to `RANGE BETWEEN 2 PRECEDING ..` with no ORDER BY)", file=f["file"], line=f["l"], fn=f["path"])
    rep.check(ok, "range-needs-sort", "translate_windowed must reject a frame of kind Range with a numeric offset when there is no sort key: `window range:-2..0 (..)` without a `sort` compiled to "
              "`RANGE BETWEEN 2 PRECEDING AND CURRENT ROW` with no ORDER BY, which databases reject (and which has no defined meaning)", file=f["file"], line=f["l"], fn=f["path"])


def run(ctx, rep):
    for r in (r1, r2, r3, r4, r5, r6, r7, r8, r9):
        rep.guard(r, ctx)
