"""C02 - operator precedence, associativity, null tests and folding survive to SQL.

Decides (structural, necessary conditions):
  R1 Pratt table of the parser = documented precedence table
  R2 operator -> std function map, and the pow operand order through to SQL
  R3 SQL strength scale: order vs. PostgreSQL/T-SQL, associativity classes,
     annotation scale == Rust scale, operator_from_name rows
  R4 per-template obligations (declared strength, hole strengths, lexical fusion)
  R5 shape of needs_parentheses / translate_operand / wrap_in_parenthesis
  R6 null tests (process_null, dispatcher, Normalizer)
  R7 constant folding agrees with the operator's name
  R8 operator-name closure (produced names have consumers, compared names are produced)
Not decided: database arithmetic (`/`, `//` numeric results).
"""
import json
import os
import re

from synq import (show_stmts, walk, show, strs, last_seg, pat_alts, pat_head, tail_expr, matches_of, mcalls, calls, macros,
                  lit_val, AnchorMissing)
import guards
import tables
import sqltmpl
import stdlib

HERE = os.path.dirname(os.path.abspath(__file__))
ORA = os.path.join(os.path.dirname(os.path.dirname(HERE)), "oracles")

META = (
    "structural necessary conditions of C02 decided from source tables",
    [
        "A1 nightly rustc type-checks the same program as the pinned toolchain",
        "A3 oracle tables oracles/prql_precedence.json, sql_precedence.json, prql_std.json",
        "database arithmetic (/ vs //, rounding) is not decided",
    ],
    "table-vs-oracle and table-vs-sibling comparison over extracted match tables, chumsky combinator chains, "
    "std.prql signatures and every SQL template of std.sql.prql (tokenised, operator context per hole)",
    True,
)


def ora(name):
    with open(os.path.join(ORA, name)) as f:
        return json.load(f)


# ---------------------------------------------------------------------------
def pratt_table(syn):
    """[(level:int, assoc:'left'|'right', operator fn name, [BinOp variants])] from parser::expr::expr"""
    f = syn.fn("parser::expr::expr", crate="prqlc_parser")
    pr = [m for m in mcalls(f["body"], "pratt")]
    if len(pr) != 1:
        raise AnchorMissing(f"expected one `.pratt(..)` call in {f['path']}, found {len(pr)}")
    tup = pr[0]["a"][0]
    rows = []
    elems = tup["e"] if tup.get("k") == "tuple" else [tup]
    for e in elems:
        if e.get("k") != "call":
            continue
        kind = last_seg(show(e["f"]))
        if kind not in ("infix", "prefix", "postfix"):
            continue
        a0 = e["a"][0]
        assoc = last_seg(show(a0["f"])) if a0.get("k") == "call" else None
        level = lit_val(a0["a"][0]) if a0.get("k") == "call" and a0["a"] else None
        opf = e["a"][1]
        opname = last_seg(show(opf["f"])) if opf.get("k") == "call" else show(opf)
        rows.append({"kind": kind, "assoc": assoc, "level": level, "op_fn": opname, "line": e["l"]})
    return f, pr[0], rows


def binops_of_operator_fn(syn, name):
    g = syn.fn("parser::expr::" + name, crate="prqlc_parser")
    out = []
    for n in walk(g["body"]):
        if n.get("k") == "path" and n["p"].startswith("BinOp::"):
            out.append(last_seg(n["p"]))
    return g, out


def r1(ctx, rep):
    rep.rule("C02.R1", "Pratt table of the parser equals the documented precedence table", floor=17 + 7 + 1)
    O = ora("prql_precedence.json")
    syn = ctx.syn
    f, pr, rows = pratt_table(syn)
    binop = syn.adt("BinOp", crate="prqlc_parser")
    variants = tables.enum_variants(binop)
    seen = {}
    levels = []
    for r in rows:
        if r["kind"] != "infix":
            rep.bad(f"row:{r['op_fn']}", f"unexpected {r['kind']} row in the Pratt table", file=f["file"], line=r["line"], fn=f["path"])
            continue
        g, ops = binops_of_operator_fn(syn, r["op_fn"])
        levels.append((r["level"], r["assoc"], ops, r))
        for o in ops:
            seen.setdefault(o, []).append(r["op_fn"])
    # every BinOp variant exactly once
    for v in variants:
        n = len(seen.get(v, []))
        rep.check(n == 1, f"variant:{v}", f"BinOp::{v} is produced by {n} Pratt rows ({seen.get(v)}), expected exactly one",
                  file=f["file"], line=pr["l"], fn=f["path"])
    # order and associativity
    levels.sort(key=lambda x: -x[0] if isinstance(x[0], int) else 0)
    want = O["binary_levels_tightest_first"]
    got_groups = []
    for lvl, assoc, ops, r in levels:
        if got_groups and got_groups[-1]["level"] == lvl:
            got_groups[-1]["ops"] += ops
            got_groups[-1]["assocs"].add(assoc)
        else:
            got_groups.append({"level": lvl, "ops": list(ops), "assocs": {assoc}, "line": r["line"]})
    for i, w in enumerate(want):
        key = "level:" + "/".join(w["ops"])
        if i >= len(got_groups):
            rep.bad(key, "documented precedence level is missing from the Pratt table", file=f["file"], line=pr["l"], fn=f["path"])
            continue
        g = got_groups[i]
        ok = sorted(g["ops"]) == sorted(w["ops"]) and g["assocs"] == {w["assoc"]}
        rep.check(ok, key,
                  f"Pratt level #{i} (binding power {g['level']}) holds {sorted(g['ops'])} {sorted(g['assocs'])}, "
                  f"documented table has {sorted(w['ops'])} {w['assoc']}-associative at this rank",
                  detail={"got": sorted(g["ops"]), "assoc": sorted(g["assocs"]), "level": g["level"]},
                  file=f["file"], line=g["line"], fn=f["path"])
    if len(got_groups) > len(want):
        rep.bad("level:extra", f"Pratt table has {len(got_groups)} distinct levels, documented table {len(want)}",
                file=f["file"], line=pr["l"], fn=f["path"])
    # nesting: term = unary(term); term = range(term); term.pratt(..)
    # (name-independent: follow the receiver of `.pratt(..)` back through its definitions)
    seq = []
    par_ = guards.parents(f["body"])
    cur = pr["r"]
    for _ in range(8):
        while cur is not None and cur.get("k") == "mcall" and cur["m"] in ("boxed", "clone", "labelled"):
            cur = cur["r"]
        if cur is None:
            break
        if cur.get("k") == "call" and last_seg(show(cur["f"])) in ("unary", "range") and cur["a"]:
            seq.insert(0, last_seg(show(cur["f"])))
            cur = cur["a"][0]
            continue
        if cur.get("k") == "path" and "::" not in cur["p"]:
            defs = guards.visible_defs(par_, cur, cur["p"])
            if defs:
                cur = defs[0]
                continue
        break
    rep.check(seq == ["unary", "range"], "nesting",
              f"operand of the Pratt parser must be range(unary(term)) (unary binds tightest, then range); found wrapping order {seq}",
              file=f["file"], line=f["l"], fn=f["path"])


# ---------------------------------------------------------------------------
def expand_tables(syn):
    f = syn.fn("ast_expand::expand_binary", crate="prqlc")
    ms = matches_of(f["body"])
    name_match = None
    for m in ms:
        if show(m["e"]) != "op":
            continue
        if strs(m["arms"][0]["body"]):
            name_match = m
    if name_match is None:
        raise AnchorMissing("expand_binary: expected a match on `op` that names the std function of each operator")
    names = {}
    for head, g, body, line, _ in tables.match_rows(name_match):
        if isinstance(head, str) and head != "_":
            names[last_seg(head)] = (".".join(strs(body)), line)
    # the operand order: the 2-tuple re-binding of the operands decided by `op` - a match, `if matches!(op, ..)`, or a named boolean; evaluated
    # per operator (boolfn.leaf), whatever it is spelled like
    import alpha
    import boolfn
    A = alpha.Inliner(f)
    decision = None
    for st in f["body"]["s"]:
        if st.get("k") == "local" and st["pat"].get("k") == "p_tuple" and len(st["pat"]["e"]) == 2 and st.get("init") is not None and st["init"].get("k") in ("match", "if"):
            decision = st
    if decision is None:
        raise AnchorMissing("expand_binary: expected `let (l, r) = <decision on op>` for the operand order")
    bound = [show(x).replace("mut ", "") for x in decision["pat"]["e"]]
    swaps = {}
    binop = syn.adt("BinOp", crate="prqlc_parser")
    for v in tables.enum_variants(binop):
        try:
            leafn = boolfn.leaf(decision["init"], lambda t, v=v: ("BinOp::" + v) if t.replace(" ", "") in ("op", "&op", "*op") else None, A)
            order = [show(e) for e in leafn["e"]] if leafn.get("k") == "tuple" else None
        except boolfn.Unknown:
            order = None
        swaps[v] = True if order == [bound[1], bound[0]] else False if order == bound else None
    vals = [x for k_, x in swaps.items() if k_ != "Pow"]
    default_swapped = vals[0] if vals and all(x == vals[0] for x in vals) else None
    swaps = {k_: x for k_, x in swaps.items() if x != default_swapped}
    return f, names, swaps, default_swapped


def std_fn(ctx, path):
    p = path[4:] if path.startswith("std.") else path
    for fdef in ctx.std["std"]:
        if fdef["path"] == p:
            return fdef
    return None


def sql_impls(ctx, name):
    """All implementations (base + dialect overrides) of std.<name>."""
    mods = dialect_names(ctx)
    out = []
    for fdef in ctx.std["sql"]:
        p = fdef["path"]
        parts = p.split(".")
        if parts[0] in mods:
            dialect, rest = parts[0], ".".join(parts[1:])
        else:
            dialect, rest = None, p
        if rest == name:
            out.append((dialect, fdef))
    return out


def dialect_names(ctx):
    # top-level modules of std.sql.prql that are not function namespaces present in std.prql
    std_mods = {m["path"][0] for m in ctx.std["std_modules"]}
    return {m["path"][0] for m in ctx.std["sql_modules"] if len(m["path"]) == 1 and m["path"][0] not in std_mods}


def r2(ctx, rep):
    rep.rule("C02.R2", "operator -> std function map; pow operand order through to SQL", floor=23)
    O = ora("prql_std.json")
    syn = ctx.syn
    f, names, swaps, default_swapped = expand_tables(syn)
    binop = syn.adt("BinOp", crate="prqlc_parser")
    for v in tables.enum_variants(binop):
        got = names.get(v, (None, None))[0]
        want = O["binop_to_std"].get(v)
        ok = got == want
        if ok:
            d = std_fn(ctx, got)
            pos = [p for p in (d or {}).get("params", []) if p["default"] is None]
            ok = d is not None and len(pos) == 2 and d["body"]["kind"] == "internal" and d["body"]["name"] == got
            rep.check(ok, f"binop:{v}",
                      f"BinOp::{v} expands to `{got}` but std.prql does not declare it as a 2-parameter function with body `internal {got}`",
                      file=f["file"], line=names[v][1], fn=f["path"])
        else:
            rep.bad(f"binop:{v}", f"BinOp::{v} expands to `{got}`, the operator's std function is `{want}`",
                    file=f["file"], line=names.get(v, (None, f['l']))[1], fn=f["path"])
    # unary
    g = syn.fn("ast_expand::expand_unary", crate="prqlc")
    m = tables.first_match(g, "op")
    for head, gd, body, line, _ in tables.match_rows(m):
        if not isinstance(head, str):
            continue
        v = last_seg(head)
        if v in O["unop_to_std"]:
            got = ".".join(strs(body))
            rep.check(got == O["unop_to_std"][v], f"unop:{v}",
                      f"UnOp::{v} expands to `{got}`, expected `{O['unop_to_std'][v]}`", file=g["file"], line=line, fn=g["path"])
    # pow order: swapped set must be exactly {Pow}; every math.pow template puts the 2nd parameter first
    swapped = {k for k, v in swaps.items() if v} | (set() if not default_swapped else {"<default>"})
    unknown = [k for k, v in swaps.items() if v is None]
    pow_decl = std_fn(ctx, "std.math.pow")
    impls = sql_impls(ctx, "math.pow")
    nb = syn.fn("ir::pl::utils::new_binop", crate="prqlc")
    nb_args = None
    for n in walk(nb["body"]):
        if n.get("k") == "struct" and last_seg(n["p"]) == "FuncCall":
            for fname, fv in n["f"]:
                if fname == "args" and fv.get("k") == "macro" and fv["n"] == "vec":
                    nb_args = [show(a) for a in fv.get("a", [])]
    rep.check(nb_args == ["left", "right"], "new_binop:arg-order",
              f"pl::new_binop must pass [left, right] in this order, found {nb_args}", file=nb["file"], line=nb["l"], fn=nb["path"])
    for dialect, impl in impls:
        if impl["body"]["kind"] != "sstring":
            continue
        holes = [it[1] for it in impl["body"]["items"] if it[0] == "h"]
        params = [stdlib.short(p["name"]) for p in impl["params"]]
        key = f"pow:{dialect or 'base'}"
        if len(holes) != 2 or len(params) != 2 or set(holes) != set(params):
            rep.bad(key, f"math.pow template has holes {holes} for parameters {params}", file=impl["file"], line=impl["line"])
            continue
        template_reversed = holes == [params[1], params[0]]
        pow_swapped = "Pow" in swapped
        # left PRQL operand -> (swap) 2nd call argument -> 2nd parameter -> (reversed) first SQL argument = base
        base_is_left = pow_swapped == template_reversed
        rep.check(base_is_left and swapped == {"Pow"} and not unknown, key,
                  f"`a ** b` must reach SQL as POW(a, b): operand swap happens for {sorted(swapped)} "
                  f"(expected exactly ['Pow']), template puts second parameter first: {template_reversed}",
                  file=impl["file"], line=impl["line"])
    if pow_decl is not None:
        rep.check(len(pow_decl["params"]) == 2, "pow:decl", "std.math.pow must have two parameters", file=pow_decl["file"], line=pow_decl["line"])


# ---------------------------------------------------------------------------
def sql_scale(syn):
    fb = syn.fn("<BinaryOperator as SQLExpression>::binding_strength", crate="prqlc")
    fu = syn.fn("<UnaryOperator as SQLExpression>::binding_strength", crate="prqlc")
    fe = syn.fn("<Expr as SQLExpression>::binding_strength", crate="prqlc")
    fa = syn.fn("<BinaryOperator as SQLExpression>::associativity", crate="prqlc")
    bt, bd, _ = tables.variant_int_table(fb)
    ut, ud, _ = tables.variant_int_table(fu)
    et, ed, _ = tables.variant_int_table(fe)
    at, ad, _ = tables.variant_path_table(fa)
    return {"bin": (bt, bd, fb), "un": (ut, ud, fu), "expr": (et, ed, fe), "assoc": (at, ad, fa)}


def strength_of_class(scale, cls):
    bt, bd, _ = scale["bin"]
    ut, ud, _ = scale["un"]
    et, ed, _ = scale["expr"]
    if cls == "atom":
        return ed
    if cls == "UnaryMinus":
        return ut.get("Minus", ud)
    if cls == "UnaryPlus":
        return ut.get("Plus", ud)
    if cls == "Not":
        return ut.get("Not", ud)
    if cls == "Like":
        return et.get("Like", ed)
    if cls == "IsNull":
        return et.get("IsNull", ed)
    if cls == "other_operator":
        return bd
    return bt.get(cls, bd)


def r3(ctx, rep):
    rep.rule("C02.R3", "SQL strength scale: order vs PostgreSQL/T-SQL, associativity, one scale in Rust and in annotations", floor=46)
    O = ora("sql_precedence.json")
    P = ora("prql_std.json")
    syn = ctx.syn
    sc = sql_scale(syn)
    fb = sc["bin"][2]
    # (a) order
    order = O["order_tightest_first"]
    prev = None
    for grp in order:
        vals = {c: strength_of_class(sc, c) for c in grp}
        key = "order:" + "/".join(grp)
        ints = [v for v in vals.values() if isinstance(v, int)]
        if len(ints) != len(vals) or len(set(ints)) != 1:
            rep.bad(key, f"operators of one SQL precedence class have different strengths: {vals}", file=fb["file"], line=fb["l"], fn=fb["path"])
            prev = min(ints) if ints else prev
            continue
        cur = ints[0]
        rep.check(prev is None or prev > cur, key,
                  f"{vals} must bind weaker than the previous class ({prev}) per the PostgreSQL/T-SQL precedence table",
                  detail=vals, file=fb["file"], line=fb["l"], fn=fb["path"])
        prev = cur
    # associativity classes
    at, ad, fa = sc["assoc"]
    bt = sc["bin"][0]
    safe_both = set(O["may_be_emitted_without_parens_on_the_right_at_equal_strength"])
    all_ops = set(bt) | set(at) | {"StringConcat"}
    for op in sorted(all_ops):
        a = at.get(op, ad)
        if op in safe_both:
            rep.check(a in ("Both", "Left", "Right"), f"assoc:{op}", f"associativity of {op} is {a}", file=fa["file"], line=fa["l"], fn=fa["path"])
        elif op in O.get("non_associative", []):
            rep.check(a == "None", f"assoc:{op}", f"BinaryOperator::{op} is declared {a}-associative; comparisons do not associate in either direction (PostgreSQL rejects `a = b < c`, SQLite reads it as "
                      "`a = (b < c)`), so an operand that is itself a comparison needs parentheses on BOTH sides: `(a == b) < c` was emitted as `a = b < c`", file=fa["file"], line=fa["l"], fn=fa["path"])
        else:
            rep.check(a == "Left", f"assoc:{op}",
                      f"BinaryOperator::{op} is declared {a}-associative; it is not mathematically associative, so "
                      f"`x {op} (y {op} z)` is emitted without parentheses and regroups as `(x {op} y) {op} z`",
                      file=fa["file"], line=fa["l"], fn=fa["path"])
    # (b),(c) operator_from_name
    fo = syn.fn("gen_expr::operator_from_name", crate="prqlc")
    tab, _ = tables.str_to_variant_table(fo)
    for name, want in P["std_to_sql_operator"].items():
        rep.check(tab.get(name) == want, f"from_name:{name}",
                  f"operator_from_name(\"{name}\") is {tab.get(name)}, the SQL operator of that function is {want}",
                  file=fo["file"], line=fo["l"], fn=fo["path"])
    for name in tab:
        if name not in P["std_to_sql_operator"]:
            rep.bad(f"from_name:{name}", f"operator_from_name has a row for `{name}` that the oracle does not know",
                    file=fo["file"], line=fo["l"], fn=fo["path"])
    for name, variant in sorted(tab.items()):
        impls = sql_impls(ctx, name[4:])
        rust = strength_of_class(sc, variant)
        for dialect, impl in impls:
            ann = impl["annotations"].get("binding_strength")
            rep.check(ann == rust, f"scale:{name}:{dialect or 'base'}",
                      f"@binding_strength of {impl['path']} is {ann} but BinaryOperator::{variant}.binding_strength() is {rust}: "
                      "the two encodings are compared with each other in one expression tree and must be one scale",
                      file=impl["file"], line=impl["line"])


# ---------------------------------------------------------------------------
def template_strength(sc, O, op):
    cls = O["template_operator_class"].get(op.upper() if op.isalpha() else op)
    if cls is None:
        return None, None
    return strength_of_class(sc, cls), cls


def std_param_type(ctx, impl_path_rest, pname):
    d = std_fn(ctx, "std." + impl_path_rest)
    if not d:
        return ""
    for p in d["params"]:
        if stdlib.short(p["name"]) == pname:
            return (p["ty"] or "").strip()
    return ""


def r4(ctx, rep):
    rep.rule("C02.R4", "SQL template obligations: declared strength <= weakest top-level operator; hole strengths guard "
             "their neighbouring operators; no lexical fusion after a prefix operator", floor=280)
    O = ora("sql_precedence.json")
    sc = sql_scale(ctx.syn)
    mods = dialect_names(ctx)
    safe_both = set(O["may_be_emitted_without_parens_on_the_right_at_equal_strength"])
    n_templates = 0
    for impl in ctx.std["sql"]:
        if impl["body"]["kind"] != "sstring":
            rep.ok(f"{impl['path']}:no-template", nontrivial=False)
            continue
        n_templates += 1
        parts = impl["path"].split(".")
        rest = ".".join(parts[1:]) if parts[0] in mods else impl["path"]
        try:
            a = sqltmpl.analyse(impl["body"]["items"])
        except sqltmpl.TemplateError as e:
            rep.bad(f"{impl['path']}:tokenise", str(e), file=impl["file"], line=impl["line"])
            continue
        declared = impl["annotations"].get("binding_strength", 100)
        # (i) declared <= weakest top-level operator
        if a["wrapped"] or not a["top_ops"]:
            rep.ok(f"{impl['path']}:declared", {"declared": declared, "top": "atom/parenthesised"})
        else:
            weakest = None
            for t in a["top_ops"]:
                s, cls = template_strength(sc, O, t["v"])
                if t["role"] == "prefix" and t["v"] in ("-", "+"):
                    s = strength_of_class(sc, "UnaryMinus")
                if s is None:
                    rep.bad(f"{impl['path']}:declared", f"unknown top-level SQL operator `{t['v']}` in template", file=impl["file"], line=impl["line"])
                    continue
                if weakest is None or s < weakest[0]:
                    weakest = (s, t["v"])
            if weakest:
                rep.check(declared <= weakest[0], f"{impl['path']}:declared",
                          f"template `{impl['body']['raw']}` has top-level operator `{weakest[1]}` of strength {weakest[0]} "
                          f"outside parentheses but is declared binding_strength={declared}: a parent that needs more than "
                          f"{weakest[0]} will not parenthesise it and SQL regroups the operands",
                          detail={"declared": declared, "weakest": weakest}, file=impl["file"], line=impl["line"])
        # (ii)/(iii) holes
        for h in a["holes"]:
            if h["alone"]:
                rep.ok(f"{impl['path']}:hole:{h['name']}:alone", nontrivial=False)
                continue
            try:
                n = int(h["fmt"]) if h["fmt"] is not None else declared
            except ValueError:
                n = declared
            ty = std_param_type(ctx, rest, h["name"])
            floor_cls = O["weakest_child_by_declared_type"].get(ty, O["weakest_child_by_declared_type"][""])
            weakest_child = strength_of_class(sc, floor_cls)
            need = []
            if h["left_op"]:
                s, cls = template_strength(sc, O, h["left_op"])
                if s is not None:
                    # equal-strength right operands regroup under a left-associative / non-associative operator;
                    # the catch-all class (||, ~, REGEXP) mixes unrelated operators and is not judged here
                    plus = 0 if (cls in safe_both or cls == "other_operator") else 1
                    need.append((s + plus, f"right operand of `{h['left_op']}`"))
            if h["right_op"]:
                s, cls = template_strength(sc, O, h["right_op"])
                if h["right_op"] == "::":
                    s = sc["expr"][1]
                if s is not None:
                    need.append((s, f"left operand of `{h['right_op']}`"))
            if h["prefix_op"]:
                if h["prefix_op"] in ("-", "+"):
                    s = strength_of_class(sc, "UnaryMinus")
                    # lexical fusion: `-` directly followed by a child that may itself start with `-`
                    need.append((s + 1 if h["glued_prefix"] else s,
                                 f"operand glued to prefix `{h['prefix_op']}` (a child starting with the same character "
                                 "fuses into `--`, the SQL comment marker)" if h["glued_prefix"] else f"operand of prefix `{h['prefix_op']}`"))
                else:
                    s, cls = template_strength(sc, O, h["prefix_op"])
                    if s is not None:
                        need.append((s, f"operand of prefix `{h['prefix_op']}`"))
            for req, why in need:
                key = f"{impl['path']}:hole:{h['name']}:{why.split('`')[1] if '`' in why else why}"
                # a typed hole cannot receive anything weaker than weakest_child
                effective_req = req
                ok = n >= effective_req or weakest_child >= effective_req
                rep.check(ok, key,
                          f"hole {{{h['name']}{':' + h['fmt'] if h['fmt'] else ''}}} of `{impl['body']['raw']}` is the {why}: it must "
                          f"require strength >= {req} but requires {n} (declared parameter type `{ty or 'any'}` admits children as weak as {weakest_child})",
                          detail={"requires": n, "needed": req, "type": ty}, file=impl["file"], line=impl["line"])
    rep.note(f"{n_templates} SQL templates analysed over {len(mods)} dialect modules + base")


# ---------------------------------------------------------------------------
def r5(ctx, rep):
    rep.rule("C02.R5", "needs_parentheses / translate_operand / wrap_in_parenthesis decision shape", floor=9)
    syn = ctx.syn
    f = syn.fn("gen_expr::needs_parentheses", crate="prqlc")
    m = None
    for mm in matches_of(f["body"]):
        if "cmp" in show(mm["e"]):
            m = mm
    if m is None:
        raise AnchorMissing("needs_parentheses: no `match ...cmp(..)`")
    scrut = show(m["e"])
    rep.check(scrut.replace(" ", "") in ("expr.binding_strength().cmp(&parent_strength)",), "scrutinee",
              f"needs_parentheses must compare child.binding_strength() with the parent's strength, found `{scrut}`",
              file=f["file"], line=m["l"], fn=f["path"])
    rows = {}
    for head, g, body, line, _ in tables.match_rows(m):
        rows[last_seg(head) if isinstance(head, str) else str(head)] = (tables.arm_value(body), line)
    rep.check(rows.get("Greater", (None,))[0] is False, "arm:Greater", f"stronger child must not be parenthesised; arm is {rows.get('Greater')}", file=f["file"], line=m["l"], fn=f["path"])
    rep.check(rows.get("Less", (None,))[0] is True, "arm:Less", f"weaker child must be parenthesised; arm is {rows.get('Less')}", file=f["file"], line=m["l"], fn=f["path"])
    # equal strength: truth table of the Equal arm over (associativity, side); formula and local names are free
    import alpha
    import boolfn
    inl = alpha.Inliner(f)
    eq_body = None
    for arm in m["arms"]:
        if last_seg(str(pat_head(arm["pat"]))) == "Equal":
            eq_body = arm["body"]
    bad_rows = []
    for assoc in ("Left", "Right", "Both", "None"):
        for is_left in (True, False):
            def atom(t, assoc=assoc, is_left=is_left):
                if t == "is_left":
                    return is_left
                if t == "parent_associativity":
                    return "Associativity::" + assoc
                if t == "parent_associativity.left_associative()":
                    return assoc in ("Left", "Both")
                if t == "parent_associativity.right_associative()":
                    return assoc in ("Right", "Both")
                return None
            want = not (assoc == "Both" or (is_left and assoc in ("Left", "Both")) or ((not is_left) and assoc in ("Right", "Both")))
            try:
                got = boolfn.ev(eq_body, atom, inl)
            except boolfn.Unknown as e:
                got = f"not evaluable ({e})"
            if got != want:
                bad_rows.append((assoc, "left" if is_left else "right", got))
    rep.check(eq_body is not None and not bad_rows, "arm:Equal",
              f"at equal strength a child needs parentheses unless the parent is Both-associative, or the child is on the side the parent associates to; rows (associativity, side, got) that differ: {bad_rows}",
              file=f["file"], line=m["l"], fn=f["path"])
    # Associativity helpers
    for name, want_set in (("left_associative", {"Associativity::Left", "Associativity::Both"}),
                           ("right_associative", {"Associativity::Right", "Associativity::Both"})):
        g = syn.fn("Associativity::" + name, crate="prqlc")
        mm = macros(g["body"], "matches")
        got = {pat_head(a) for a in pat_alts(mm[0]["pat"])} if mm else set()
        rep.check(got == want_set, f"assoc-helper:{name}", f"{name}() accepts {sorted(map(str, got))}, expected {sorted(want_set)}", file=g["file"], line=g["l"], fn=g["path"])
    # translate_operand wraps exactly when needs_parentheses
    t = syn.fn("gen_expr::translate_operand", crate="prqlc")
    ifs = [n for n in walk(t["body"]) if n.get("k") == "if"]
    ok = False
    import alpha as _alpha
    it = _alpha.Inliner(t)
    tp = [show(x.get("pat", x)).split(":")[0].strip() if isinstance(x, dict) else str(x).split(":")[0].strip() for x in t.get("params", [])]
    for i in ifs:
        c = it.show(i["c"])
        # needs_parentheses(&<translated child>, <the operand's side, strength and associativity parameters, in order>)
        if len(tp) >= 4 and c.startswith("needs_parentheses(&translate_expr(") and c.endswith(f", {tp[1]}, {tp[2]}, {tp[3]})"):
            th = show(tail_expr(i["t"]))
            el = show(tail_expr(i["e"])) if i.get("e") else ""
            ok = "wrap_in_parenthesis" in th and "wrap_in_parenthesis" not in el
    rep.check(ok, "translate_operand", "translate_operand must wrap the child exactly when needs_parentheses(&expr, is_left, parent_strength, parent_associativity)", file=t["file"], line=t["l"], fn=t["path"])
    # wrap_in_parenthesis resets strength above every operator
    w = syn.fn("ExprOrSource::wrap_in_parenthesis", crate="prqlc")
    sc = sql_scale(syn)
    maxop = max([v for v in list(sc["bin"][0].values()) + list(sc["un"][0].values()) + [sc["bin"][1], sc["un"][1]] if isinstance(v, int)])
    okw = False
    for n in walk(w["body"]):
        if n.get("k") == "struct" and last_seg(n["p"]) == "SourceExpr":
            for fname, fv in n["f"]:
                if fname == "binding_strength":
                    v = lit_val(fv)
                    okw = isinstance(v, int) and v > maxop
    # .. and the text of a source is parenthesised on every path: whether a text "is already parenthesised" cannot be told from its first and
    # last character (`(b + 1) % (c + 1)`), so the wrap must not depend on the text
    import alpha as _alpha
    Aw = _alpha.Inliner(w)
    uncond = False
    for n in walk(w["body"]):
        if n.get("k") == "struct" and last_seg(n["p"]) == "SourceExpr":
            tv = dict(n["f"]).get("text")
            if tv is not None:
                cur, ok_chain = tv, True
                for _ in range(4):
                    if cur.get("k") == "path" and "::" not in cur["p"]:
                        init = Aw._init_of(cur, cur["p"])
                        if init is None:
                            break
                        cur = init
                    else:
                        break
                if cur.get("k") == "macro" and cur.get("n") == "format" and cur.get("a"):
                    fm = lit_val(cur["a"][0])
                    uncond = isinstance(fm, str) and fm.startswith("(") and fm.endswith(")") and fm.count("{") == 1
                elif cur.get("k") in ("if", "match"):
                    uncond = False
    rep.check(uncond, "wrap_in_parenthesis:unconditional", "wrap_in_parenthesis must put the text of a source between `(` and `)` unconditionally (`format!(\"({text})\")`): a textual test for existing "
              "parentheses takes `(b + 1) % (c + 1)` for wrapped and `a * ((b + 1) % (c + 1))` regroups", file=w["file"], line=w["l"], fn=w["path"])
    nested = any(n.get("k") == "call" and show(n["f"]).endswith("Expr::Nested") for n in walk(w["body"]))
    rep.check(okw and nested, "wrap_in_parenthesis", f"wrap_in_parenthesis must yield Expr::Nested / a source with strength above every operator ({maxop})", file=w["file"], line=w["l"], fn=w["path"])


# ---------------------------------------------------------------------------
def r6(ctx, rep):
    rep.rule("C02.R6", "comparison with literal null becomes IS [NOT] NULL", floor=5)
    P = ora("prql_std.json")
    syn = ctx.syn
    f = syn.fn("gen_expr::process_null", crate="prqlc")
    # if name == "std.eq" {.. IsNull ..} else if name == "std.ne" {.. IsNotNull ..}
    got = {}
    prm = [p_["name"] for p_ in f.get("params", []) if isinstance(p_, dict) and "str" in (p_.get("ty") or "")] or ["name"]
    for nm, branch in tables.string_dispatch(f["body"], prm[0]).items():
        te = tail_expr(branch) if branch.get("k") == "block" else branch
        ctor = None
        for c in walk(te) if te else []:
            if c.get("k") == "call" and show(c["f"]).startswith("sql_ast::Expr::Is"):
                ctor = last_seg(show(c["f"]))
        got[nm] = ctor
    for nm, want in P["null_tests"].items():
        rep.check(got.get(nm) == want, f"process_null:{nm}", f"process_null maps `{nm}` to {got.get(nm)}, expected {want}", file=f["file"], line=f["l"], fn=f["path"])
    # operand selection: the non-null one
    # (name-independent: the two operands are whatever names the function gives to args[0] and args[1])
    ok = False
    for loc in walk(f["body"]):
        if loc.get("k") != "if":
            continue
        c = loc["c"]
        if c.get("k") == "macro" and c["n"] == "matches" and "Null" in show(c.get("pat")) and show(c["a"][0]).endswith(".kind"):
            tested = show(c["a"][0])[:-len(".kind")]
            th, el = show(tail_expr(loc["t"])), show(tail_expr(loc["e"])) if loc.get("e") is not None else ""
            ok = ok or (el == tested and th != tested and th.isidentifier())
    rep.check(ok, "process_null:operand", "process_null must test the operand that is NOT the null literal", file=f["file"], line=f["l"], fn=f["path"])
    # dispatcher
    t = syn.fn("gen_expr::translate_expr", crate="prqlc")
    found = False
    for m in matches_of(t["body"]):
        if show(m["e"]) != "name.as_str()":
            continue
        for head_alts, arm in [([pat_head(a) for a in pat_alts(arm["pat"])], arm) for arm in m["arms"]]:
            lits = {h[1] for h in head_alts if isinstance(h, tuple) and h[0] == "lit"}
            if lits == {"std.eq", "std.ne"}:
                body = arm["body"]
                # `a.kind == Null || b.kind == Null` guarding a call to process_null
                for i in walk(body):
                    if i.get("k") == "if" and "return Ok(process_null(name, args, ctx)" in show_stmts(i["t"]):
                        c = show(i["c"], maxdepth=12)
                        found = ("a.kind == " in c and "b.kind == " in c and "||" in c and c.count("Literal::Null") == 2)
    rep.check(found, "dispatch", "translate_expr must route std.eq/std.ne with a null literal on EITHER side to process_null", file=t["file"], line=t["l"], fn=t["path"])
    # Normalizer: std.eq with left null -> [right, left]
    nfs = [x for x in syn.find_fns("<Normalizer as RqFold>::fold_expr", crate="prqlc")]
    if len(nfs) != 1:
        raise AnchorMissing("Normalizer::fold_expr")
    nf = nfs[0]
    okn = False
    for n in walk(nf["body"]):
        if n.get("k") == "if" and n["c"].get("k") == "let" and "Null" in show(n["c"]["pat"]) and show(n["c"]["e"]) == "&left.kind":
            th = show(tail_expr(n["t"]))
            el = show(tail_expr(n["e"]))
            okn = th == "vec!(right.clone(), left.clone())" and el == "vec!(left.clone(), right.clone())"
    rep.check(okn, "normalizer", "Normalizer must move a left null literal of std.eq to the right ([right,left]) and leave other operands in order", file=nf["file"], line=nf["l"], fn=nf["path"])


# ---------------------------------------------------------------------------
def r7(ctx, rep):
    rep.rule("C02.R7", "constant folding computes the operator its name denotes", floor=9)
    P = ora("prql_std.json")
    syn = ctx.syn
    f = syn.fn("static_eval::static_eval_rq_operator", crate="prqlc")
    # the folding table: the match on the operator name whose arms return folded literals (not e.g. a table of arities)
    cands = [x for x in matches_of(f["body"]) if show(x["e"]) == "name.as_str()"]
    cands = [x for x in cands if any(r.get("k") == "return" for a_ in x["arms"] for r in walk(a_["body"]))] or cands
    m = max(cands, key=lambda x: len(x["arms"])) if cands else tables.first_match(f, "name.as_str()")
    seen = set()
    for head, g, body, line, _ in tables.match_rows(m):
        if not (isinstance(head, tuple) and head[0] == "lit"):
            continue
        name = head[1]
        seen.add(name)
        spec = P["fold"].get(name)
        # all `return Expr::new(Literal::X(<e>))` in this arm
        rets = [n for n in walk(body) if n.get("k") == "return"]
        if name == "std.coalesce":
            # null first argument -> second argument
            # every folded result: under `if let Null = &args[i].kind` the OTHER argument is returned (`null ?? x` = x, `x ?? null` = x)
            par = guards.parents(body)
            found = []
            for r in rets:
                cur, under = r, None
                while id(cur) in par:
                    pp = par[id(cur)]
                    if pp.get("k") == "if" and pp["c"].get("k") == "let" and "Null" in show(pp["c"]["pat"]) and (pp["t"] is cur or guards._contains(pp["t"], cur)):
                        mm = re.match(r"&args\[(\d)\]\.kind$", show(pp["c"]["e"]))
                        under = int(mm.group(1)) if mm else None
                        break
                    cur = pp
                found.append((under, show(r.get("e"))))
            ok = bool(found) and all(u in (0, 1) and e == f"args.remove({1 - u})" for u, e in found) and any(u == 0 for u, _ in found)
            rep.check(ok, f"fold:{name}", f"`??` may be folded only when an argument is the null literal, and then to the OTHER argument (`null ?? x` -> x is required; `x ?? null` -> x is allowed); "
                      f"found (null argument, result) = {found}", file=f["file"], line=line, fn=f["path"])
            continue
        if spec is None:
            rep.bad(f"fold:{name}", f"folding arm for `{name}` is not covered by the oracle", file=f["file"], line=line, fn=f["path"])
            continue
        good = bool(rets)
        for r in rets:
            e = r.get("e")
            inner = None
            if e and e.get("k") == "call" and show(e["f"]) == "Expr::new" and e["a"] and e["a"][0].get("k") == "call":
                lit_ctor = show(e["a"][0]["f"])
                inner = e["a"][0]["a"][0]
                if spec["arity"] == 1:
                    okr = inner.get("k") == "un" and inner["op"] == spec["rust_op"] and show(inner["e"]).lstrip("*") == "val"
                    # type preserved: Integer->Integer, Float->Float, Boolean->Boolean
                else:
                    sides = (show(inner["lhs"]).lstrip("*"), show(inner["rhs"]).lstrip("*")) if inner.get("k") == "bin" else ()
                    # (source order, except for the symmetric `==` / `!=`)
                    okr = inner.get("k") == "bin" and inner["op"] == spec["rust_op"] and (sides == ("left", "right") or (spec["rust_op"] in ("==", "!=") and sides == ("right", "left")))
                good = good and okr
            else:
                good = False
        if name in ("std.eq", "std.ne"):
            # literals of different kinds must not be folded with Rust's `==` (1 == 1.0 is false in Rust, TRUE in SQL)
            guarded = bool(rets)
            par = guards.parents(body)
            for r in rets:
                cur = r
                ok_g = False
                while True:
                    pp = par.get(id(cur))
                    if pp is None:
                        break
                    same = ("(left.as_ref() == right.as_ref())", "left.as_ref() == right.as_ref()", "(right.as_ref() == left.as_ref())", "right.as_ref() == left.as_ref()")
                    def has_same(c_):
                        # the test itself or one conjunct of it
                        parts = [c_]
                        while parts and any(x.get("k") == "bin" and x["op"] == "&&" for x in parts):
                            parts = [y for x in parts for y in ([x["lhs"], x["rhs"]] if x.get("k") == "bin" and x["op"] == "&&" else [x])]
                        parts = [x["e"] if x.get("k") == "paren" else x for x in parts]
                        return any(show(x) in same or show(x).strip("()") in [t.strip("()") for t in same] for x in parts)
                    if pp.get("k") == "if" and has_same(pp["c"]) and (pp["t"] is cur or guards._contains(pp["t"], cur)):
                        ok_g = True
                        break
                    # the same test as the guard of the match arm the result is in
                    if pp.get("k") == "match" and any(a.get("guard") is not None and has_same(a["guard"]) and (a["body"] is r or guards._contains(a["body"], r)) for a in pp["arms"]):
                        ok_g = True
                        break
                    cur = pp
                guarded = guarded and ok_g
            # ... and only for kinds whose written form IS their value: the guard also names a predicate over the literal kind that accepts nothing but Integer / Float / Boolean
            kinds_ok = False
            for r in rets:
                cur = r
                while id(cur) in par:
                    pp = par[id(cur)]
                    conds = []
                    if pp.get("k") == "if":
                        conds.append(pp["c"])
                    if pp.get("k") == "match":
                        conds += [a["guard"] for a in pp["arms"] if a.get("guard") is not None]
                    for c in conds:
                        for x in walk(c):
                            if x.get("k") == "call" and len(x.get("a", [])) == 1:
                                hs = [h for h in syn.fns if h["crate"] == "prqlc" and h["file"] == f["file"] and h["name"] == last_seg(show(x["f"])) and "body" in h]
                                for h in hs:
                                    mm_ = [m_ for m_ in walk(h["body"]) if m_.get("k") == "macro" and m_["n"] == "matches"]
                                    if mm_:
                                        heads = {last_seg(str(pat_head(a))) for a in pat_alts(mm_[0]["pat"])}
                                        kinds_ok = kinds_ok or (bool(heads) and heads <= {"Integer", "Float", "Boolean"})
                            if x.get("k") == "macro" and x["n"] == "matches" and "Literal" in show(x["pat"]):
                                heads = {last_seg(str(pat_head(a))) for a in pat_alts(x["pat"])}
                                kinds_ok = kinds_ok or (bool(heads) and heads <= {"Integer", "Float", "Boolean"})
                    cur = pp
            rep.check(kinds_ok, f"fold:{name}:value-equality",
                      f"`{name}` of two literals of the same kind is folded with the derived `==` of Literal, which compares what is WRITTEN: `@10:00 == @10:00:00`, "
                      "`@2020-01-01T00:00:00Z == @2020-01-01T01:00:00+01:00`, `1days == 24hours` fold to false where the database computes true (and string equality depends on the collation). "
                      "The fold must be limited to Integer / Float / Boolean literals", file=f["file"], line=line, fn=f["path"])
            rep.check(guarded, f"fold:{name}:same-kind",
                      f"folding `{name}` of two literals must be guarded by `left.as_ref() == right.as_ref()` (same literal kind): "
                      "Rust compares an Integer and a Float literal as different values where SQL compares them numerically",
                      file=f["file"], line=line, fn=f["path"])
        rep.check(good, f"fold:{name}",
                  f"every folded result of `{name}` must be Literal(<operand> {spec['rust_op']} <operand>) in source order; found {[show(r.get('e'), maxdepth=10) for r in rets]}",
                  file=f["file"], line=line, fn=f["path"])
    # neg keeps the literal kind
    for head, g, body, line, _ in tables.match_rows(m):
        if head == ("lit", "std.neg"):
            pairs = []
            for mm in matches_of(body):
                for h2, g2, b2, l2, alt in tables.match_rows(mm):
                    pat_kind = [last_seg(p) for p in [n["p"] for n in walk(alt) if n.get("k") in ("p_ts",)]]
                    res = [last_seg(show(c["f"])) for c in walk(b2) if c.get("k") == "call" and show(c["f"]).startswith("Literal::")]
                    if res:
                        pairs.append((pat_kind[-1] if pat_kind else None, res[0]))
            rep.check(bool(pairs) and all(a == b for a, b in pairs), "fold:std.neg:kind", f"negation must keep the literal kind, found {pairs}", file=f["file"], line=line, fn=f["path"])
    for name in P["fold"]:
        if name not in seen:
            rep.note(f"`{name}` is not folded (allowed)")
    # case folding
    c = syn.fn("static_eval::static_eval_case", crate="prqlc")
    okc = False
    for n in walk(c["body"]):
        if n.get("k") == "for":
            for i in walk(n["body"]):
                if i.get("k") == "if" and show(i["c"]) == "condition":
                    th = [s.get("k") if s.get("k") != "mcall" else s["m"] for s in i["t"]["s"]]
                    then_kinds = [show(s) for s in i["t"]["s"]]
                    el = i.get("e")
                    else_kinds = [s.get("k") for s in el["s"]] if el and el.get("k") == "block" else []
                    okc = then_kinds[:1] == ["res.push(item)"] and any(s.get("k") == "break" for s in i["t"]["s"]) and else_kinds == ["continue"]
    rep.check(okc, "fold:case", "case folding must keep the first literal-true branch and stop (push+break), and drop literal-false branches (continue)", file=c["file"], line=c["l"], fn=c["path"])


# ---------------------------------------------------------------------------
def produced_names(ctx):
    """operator names that can appear in RQ Operator{name}"""
    prod = {}
    for d in ctx.std["std"]:
        b = d["body"]
        if b["kind"] == "internal" and b["name"].startswith("std."):
            prod.setdefault(b["name"], []).append(f"{d['file']}:{d['line']} internal")
    syn = ctx.syn
    for f in syn.fns:
        if f["crate"] != "prqlc" or "/cli/" in f["file"]:
            continue
        if "body" not in f:
            continue
        for n in walk(f["body"]):
            if n.get("k") == "call" and last_seg(show(n["f"])) in ("new_binop", "maybe_binop"):
                for a in n["a"]:
                    v = lit_val(a)
                    if isinstance(v, str) and v.startswith("std."):
                        prod.setdefault(v, []).append(f"{f['file']}:{n['l']} {last_seg(show(n['f']))}")
                    if a.get("k") == "ref" and a["e"].get("k") == "array":
                        s = ".".join(strs(a))
                        if s.startswith("std."):
                            prod.setdefault(s, []).append(f"{f['file']}:{n['l']} pl::{last_seg(show(n['f']))}")
            if n.get("k") == "struct" and last_seg(n["p"]) in ("Operator", "RqOperator"):
                for fname, fv in n["f"]:
                    if fname == "name":
                        for s in strs(fv):
                            if s.startswith("std.") and "{" not in s:
                                prod.setdefault(s, []).append(f"{f['file']}:{n['l']} {n['p']}{{name}}")
            if n.get("k") == "macro" and n["n"] == "format" and n.get("a"):
                v = lit_val(n["a"][0])
                if v == "std.{internal_name}":
                    prod.setdefault("<format std.{internal_name}>", []).append(f"{f['file']}:{n['l']}")
    return prod


def r8(ctx, rep):
    rep.rule("C02.R8", "operator-name closure: produced names have a consumer; compared names are produced", floor=75)
    syn = ctx.syn
    prod = produced_names(ctx)
    # the format!("std.{internal_name}") rows
    fmt_names = set()
    for low in syn.fns:
        if low["crate"] != "prqlc" or "body" not in low:
            continue
        for m in matches_of(low["body"]):
            for arm in m["arms"]:
                body = arm["body"]
                if any(mm["n"] == "format" and mm.get("a") and lit_val(mm["a"][0]) == "std.{internal_name}" for mm in macros(body)):
                    # the arm's literal patterns are the internal names that get the `std.` prefix
                    inner = [mm2 for mm2 in matches_of(body)]
                    if any(any(x["n"] == "format" and x.get("a") and lit_val(x["a"][0]) == "std.{internal_name}" for x in macros(a2["body"])) for mm2 in inner for a2 in mm2["arms"]):
                        continue  # an enclosing match; the inner one is the row
                    for a in pat_alts(arm["pat"]):
                        h = pat_head(a)
                        if isinstance(h, tuple) and h[0] == "lit":
                            fmt_names.add("std." + h[1])
    for n in fmt_names:
        prod.setdefault(n, []).append("lower_expr format!(std.{internal_name})")
    prod.pop("<format std.{internal_name}>", None)
    # consumers
    base_sql = {"std." + d["path"] for d in ctx.std["sql"] if d["path"].split(".")[0] not in dialect_names(ctx)}
    fo = syn.fn("gen_expr::operator_from_name", crate="prqlc")
    from_name, _ = tables.str_to_variant_table(fo)
    t = syn.fn("gen_expr::translate_expr", crate="prqlc")
    dispatch = set()
    for m in matches_of(t["body"]):
        if show(m["e"]) == "name.as_str()":
            for head, g, body, line, _ in tables.match_rows(m):
                if isinstance(head, tuple) and head[0] == "lit":
                    dispatch.add(head[1])
    consumers = base_sql | set(from_name) | dispatch
    for name, where in sorted(prod.items()):
        rep.check(name in consumers, f"produced:{name}",
                  f"operator name `{name}` is produced ({where[0]}) but has no consumer (no base function in std.sql.prql, "
                  "no operator_from_name row, no translate_expr special case): find_operator_impl(..).unwrap() panics on it",
                  detail=where[:3])
    # compared names must be produced (or be a std.prql function path used via idents)
    std_paths = {"std." + d["path"] for d in ctx.std["std"]}
    compared = {}
    for f in syn.fns:
        if f["crate"] != "prqlc" or "/cli/" in f["file"] or "body" not in f:
            continue
        for n in walk(f["body"]):
            cands = []
            if n.get("k") == "bin" and n["op"] in ("==", "!="):
                for side in (n["lhs"], n["rhs"]):
                    v = lit_val(side)
                    if isinstance(v, str) and v.startswith("std."):
                        cands.append(v)
            if n.get("k") == "match" and show(n["e"]).endswith("as_str()"):
                for head, g, body, line, _ in tables.match_rows(n):
                    if isinstance(head, tuple) and head[0] == "lit" and isinstance(head[1], str) and head[1].startswith("std."):
                        cands.append(head[1])
            for v in cands:
                compared.setdefault(v, []).append((f["file"], n["l"], f["path"]))
    for name, where in sorted(compared.items()):
        rep.check(name in prod or name in std_paths, f"compared:{name}",
                  f"`{name}` is compared against but never produced as an operator name nor declared in std.prql: the special case is dead "
                  "(e.g. `== null` silently stops becoming IS NULL)",
                  file=where[0][0], line=where[0][1], fn=where[0][2])


# helpers that flatten the template of exactly one std function (the name test is in the dispatcher of translate_expr)
R9_ATOMS = {"process_date_to_text": "date.to_text"}


def _value_leaves(body):
    """the expressions a function body can evaluate to: tails of blocks, branches of if / match, the payload of Ok(..) / Some(..), `return e`"""
    out = []

    def leaf(e):
        if e is None:
            return
        k = e.get("k")
        if k == "block":
            leaf(tail_expr(e))
        elif k == "if":
            leaf(e.get("t"))
            leaf(e.get("e"))
        elif k == "match":
            for a in e["arms"]:
                leaf(a["body"])
        elif k in ("paren", "try"):
            leaf(e["e"])
        elif k == "call" and show(e["f"]) in ("Ok", "Some") and len(e["a"]) == 1:
            leaf(e["a"][0])
        elif k == "return":
            leaf(e.get("e"))
        else:
            out.append(e)
    leaf(body)
    for n in walk(body):
        if n.get("k") == "return":
            leaf(n.get("e"))
    return out


def r9(ctx, rep):
    rep.rule("C02.R9", "declared strength is not erased: no ExprOrSource is flattened with into_ast() and re-wrapped as an operand", floor=20)
    syn = ctx.syn
    # functions of the SQL backend that hand out a flattened expression: they return a bare sqlparser expression and call `into_ast()` on the way
    flat_fns = {}
    for f in syn.fns:
        if f["crate"] != "prqlc" or "/sql/" not in f["file"] or "body" not in f:
            continue
        ret = f.get("ret", "") or ""
        if "ExprOrSource" not in ret and re.search(r"\bExpr\b", ret) and any(x.get("k") == "mcall" and x["m"] == "into_ast" for x in _value_leaves(f["body"])):
            flat_fns[f["name"]] = f
    for f in syn.fns:
        if f["crate"] != "prqlc" or "/sql/" not in f["file"] or "body" not in f:
            continue
        if "ExprOrSource" in (f.get("ret", "") or ""):
            # a flattened expression that comes back from another function and is re-wrapped here (two cooperating sites)
            for n in walk(f["body"]):
                if n.get("k") == "mcall" and n["m"] == "into" and not n["a"]:
                    r = n["r"]
                    while r.get("k") in ("try", "paren"):
                        r = r["e"]
                    if r.get("k") == "call" and last_seg(show(r["f"])) in flat_fns:
                        g = flat_fns[last_seg(show(r["f"]))]
                        if g["name"] in R9_ATOMS:
                            # reviewed: what this helper flattens is one std function's template; precondition checked on std.sql.prql:
                            # no implementation of it has an operator outside parentheses, so its strength is that of an atom anyway
                            import sqltmpl
                            impls = sql_impls(ctx, R9_ATOMS[g["name"]])
                            open_ops = [(d_, [t_["v"] for t_ in sqltmpl.analyse(fd_["body"]["items"])["top_ops"]]) for d_, fd_ in impls
                                        if isinstance(fd_.get("body"), dict) and "items" in fd_["body"]]
                            open_ops = [x for x in open_ops if x[1]]
                            rep.check(bool(impls) and not open_ops, f"rewrap:{f['path']}:{g['name']}():atoms-only",
                                      f"`{g['name']}` flattens the template of std.{R9_ATOMS[g['name']]} and `{f['name']}` re-wraps it as an atom; that is harmless only while every implementation "
                                      f"is a plain function call, but {open_ops} have an operator outside parentheses", file=f["file"], line=n["l"], fn=f["path"])
                            continue
                        rep.bad(f"rewrap:{f['path']}:{last_seg(show(r['f']))}()",
                                f"`{show(n, maxdepth=6)}` wraps what `{g['name']}` returns as an operand, and `{g['name']}` flattens an ExprOrSource with `into_ast()` (the s-string hack: an identifier): "
                                "a template's declared binding strength is replaced by the atom strength, so a parent operator never parenthesises an inlined column (`z % a` with `a = x % y` -> `z % x % y`)",
                                file=f["file"], line=n["l"], fn=f["path"])
        # locals bound to `<x>.into_ast()`
        flat = {}
        for n in walk(f["body"]):
            if n.get("k") == "local" and n.get("init") is not None:
                i = n["init"]
                if i.get("k") == "mcall" and i["m"] == "into_ast":
                    flat[show(n["pat"])] = i
        for n in walk(f["body"]):
            if n.get("k") == "mcall" and n["m"] == "into_ast":
                key = f"into_ast:{f['path']}:{show(n['r'], maxdepth=4)[:60]}"
                rep.ok(key, nontrivial=False)
            rewrap = None
            if n.get("k") == "mcall" and n["m"] == "into" and "ExprOrSource" in f.get("ret", ""):
                r = n["r"]
                if r.get("k") == "mcall" and r["m"] == "into_ast":
                    rewrap = r
                elif r.get("k") == "path" and r["p"] in flat:
                    rewrap = flat[r["p"]]
            if n.get("k") == "call" and show(n["f"]) in ("ExprOrSource::from", "ExprOrSource::Expr") and n["a"]:
                a = n["a"][0]
                while a.get("k") == "call" and a["a"]:
                    a = a["a"][0]
                if a.get("k") == "mcall" and a["m"] == "into_ast":
                    rewrap = a
            if rewrap is not None:
                rep.bad(f"rewrap:{f['path']}:{show(rewrap['r'], maxdepth=4)[:60]}",
                        f"`{show(n, maxdepth=6)}` flattens an ExprOrSource to an identifier (the s-string hack) and re-wraps it as an operand: a template's "
                        "declared binding strength is replaced by the atom strength, so a parent never parenthesises it",
                        file=f["file"], line=n["l"], fn=f["path"])


def r10(ctx, rep):
    """End-to-end enumeration: every (parent, child, side) pair of PRQL binary operators, for every dialect:
    the parenthesisation the generator decides (extracted strengths, associativity, template hole requirements)
    against the grouping the SQL precedence oracle implies."""
    rep.rule("C02.R10", "exhaustive (parent, child, side) x dialect: emitted SQL regroups to the PRQL operand tree", floor=6000)
    O = ora("sql_precedence.json")
    P = ora("prql_std.json")
    syn = ctx.syn
    sc = sql_scale(syn)
    at, ad, _ = sc["assoc"]
    fo = syn.fn("gen_expr::operator_from_name", crate="prqlc")
    from_name, _ = tables.str_to_variant_table(fo)
    order = O["order_tightest_first"]
    rank = {}
    for i, grp in enumerate(order):
        for c in grp:
            rank[c] = i  # smaller = tighter
    safe = set(O["may_be_emitted_without_parens_on_the_right_at_equal_strength"])
    variants = tables.enum_variants(syn.adt("BinOp", crate="prqlc_parser"))
    dialects = [None] + sorted(dialect_names(ctx))

    def sql_form(binop, dialect):
        """-> dict(kind='op'|'template'|'atom', cls, strength, left_req, right_req, assoc)"""
        name = P["binop_to_std"][binop]
        if name in from_name:
            v = from_name[name]
            s_ = strength_of_class(sc, v)
            return {"kind": "op", "cls": v, "strength": s_, "left_req": s_, "right_req": s_, "assoc": at.get(v, ad)}
        impls = {d: i for d, i in sql_impls(ctx, name[4:])}
        impl = impls.get(dialect) or impls.get(None)
        if impl is None or impl["body"]["kind"] != "sstring":
            return None
        declared = impl["annotations"].get("binding_strength", 100)
        a = sqltmpl.analyse(impl["body"]["items"])
        params = [stdlib.short(p["name"]) for p in impl["params"]]
        occ = {}  # param -> [(required strength, adjacent operator class, side of that operator)]
        for h in a["holes"]:
            if h["alone"]:
                continue
            try:
                n = int(h["fmt"]) if h["fmt"] is not None else declared
            except ValueError:
                n = declared
            if h["left_op"]:
                _, c2 = template_strength(sc, O, h["left_op"])
                occ.setdefault(h["name"], []).append((n, c2, "R"))
            if h["right_op"] and h["right_op"] != "::":
                _, c2 = template_strength(sc, O, h["right_op"])
                occ.setdefault(h["name"], []).append((n, c2, "L"))
            if h["prefix_op"]:
                c2 = "UnaryMinus" if h["prefix_op"] in ("-", "+") else O["template_operator_class"].get(h["prefix_op"])
                occ.setdefault(h["name"], []).append((n, c2, "R"))
        if a["wrapped"] or not a["top_ops"]:
            cls, strength_out = "atom", declared
        else:
            weakest = None
            for t in a["top_ops"]:
                s2, c2 = template_strength(sc, O, t["v"])
                if t["role"] == "prefix" and t["v"] in ("-", "+"):
                    s2, c2 = strength_of_class(sc, "UnaryMinus"), "UnaryMinus"
                if s2 is not None and (weakest is None or s2 < weakest[0]):
                    weakest = (s2, c2)
            cls = weakest[1] if weakest else "atom"
            strength_out = declared
        return {"kind": "template", "cls": cls, "strength": strength_out,
                "occ": [occ.get(p, []) for p in params]}

    def needs_parens(child_strength, is_left, parent_strength, parent_assoc):
        if child_strength > parent_strength:
            return False
        if child_strength < parent_strength:
            return True
        r3a = parent_assoc == "Both"
        r3l = is_left and parent_assoc in ("Left", "Both")
        r3r = (not is_left) and parent_assoc in ("Right", "Both")
        return not (r3a or r3l or r3r)

    n = 0
    for dialect in dialects:
        for Pn in variants:
            pf = sql_form(Pn, dialect)
            if pf is None:
                continue
            for Cn in variants:
                cf = sql_form(Cn, dialect)
                if cf is None:
                    continue
                for side in ("L", "R"):
                    n += 1
                    key = f"e2e:{dialect or 'base'}:{Pn}:{Cn}:{side}"
                    # pow swaps operands: the PRQL left operand is the template's SECOND parameter
                    tside = side
                    if Pn == "Pow":
                        tside = "R" if side == "L" else "L"
                    if pf["kind"] == "op":
                        checks = [(needs_parens(cf["strength"], tside == "L", pf["strength"], pf["assoc"]), pf["cls"], tside, pf["strength"])]
                    else:
                        idx = 0 if tside == "L" else 1
                        occs = pf["occ"][idx] if idx < len(pf["occ"]) else []
                        checks = [(needs_parens(cf["strength"], False, req, "Both"), ocls, oside, req) for req, ocls, oside in occs]
                    bad = None
                    for parens, pcls, pside, req in checks:
                        if parens or cf["cls"] == "atom" or pcls is None:
                            continue
                        rp, rc = rank.get(pcls), rank.get(cf["cls"])
                        if rp is None or rc is None:
                            continue
                        # the catch-all class (||, ~, REGEXP) mixes unrelated operators and is not judged at equal rank (see R4)
                        if rc > rp or (rc == rp and pside == "R" and pcls not in safe and pcls != "other_operator"):
                            bad = (pcls, req)
                    if bad:
                        rep.bad(key, f"dialect {dialect or 'generic'}: `{'(x ' + Cn + ' y) ' + Pn + ' z' if side == 'L' else 'x ' + Pn + ' (y ' + Cn + ' z)'}` is emitted without parentheses around the {Cn} operand "
                                f"(child strength {cf['strength']}, required {bad[1]}), but in SQL `{cf['cls']}` does not bind tighter than the adjacent `{bad[0]}`: the operands regroup")
                    else:
                        rep.ok(key, nontrivial=bool(checks))
    rep.note(f"{n} (dialect, parent, child, side) combinations enumerated")


# ---------------------------------------------------------------------------
# sqlparser expression kinds that print their operands without delimiters ("open" syntax): operand field -> side
OPEN_KINDS = {
    "BinaryOp": ["left", "right"],
    "UnaryOp": ["expr"],
    "Between": ["expr", "low", "high"],
    "InList": ["expr"],
    "InSubquery": ["expr"],
    "IsNull": [0],
    "IsNotNull": [0],
    "IsTrue": [0],
    "IsFalse": [0],
    "IsDistinctFrom": [0, 1],
    "IsNotDistinctFrom": [0, 1],
    "Like": ["expr", "pattern"],
    "ILike": ["expr", "pattern"],
    "SimilarTo": ["expr", "pattern"],
    "AnyOp": ["left"],
    "AllOp": ["left"],
    "AtTimeZone": ["timestamp"],
    "Collate": ["expr"],
}
# constructors whose printed form is delimited (an atom for every parent)
CLOSED_CTORS = {"Value", "Identifier", "CompoundIdentifier", "Function", "Nested", "Case", "Cast", "Interval", "TypedString", "Tuple", "Array", "Subquery"}


def is_sql_expr_path(p):
    """`sql_ast::Expr::K`, `sqlparser::ast::Expr::K` or a bare `Expr::K` (never rq::/pl:: kinds, which are ExprKind)"""
    segs = p.split("::")
    return len(segs) >= 2 and segs[-2] == "Expr" and not (set(segs[:-2]) & {"rq", "pl", "pr", "ir"})


def r11(ctx, rep):
    rep.rule("C02.R11", "every open-syntax sqlparser expression built by the generator takes its operands through translate_operand with "
             "at least its own strength, and has an explicit row in Expr::binding_strength", floor=12)
    syn = ctx.syn
    sc = sql_scale(syn)
    et, ed, fe = sc["expr"]
    bt, bd, _ = sc["bin"]
    ut, ud, _ = sc["un"]
    n_sites = 0

    def strip(e):
        while e is not None:
            k = e.get("k")
            if k == "try":
                e = e["e"]
            elif k == "paren":
                e = e["e"]
            elif k == "mcall" and e["m"] in ("into_ast", "clone", "into"):
                e = e["r"]
            elif k == "call" and show(e["f"]) in ("Box::new", "Some") and e["a"]:
                e = e["a"][0]
            else:
                break
        return e

    def locals_of(f):
        return guards.parents(f["body"])   # lexical scoping is resolved by guards.visible_defs

    def own_strength(kind, node, f):
        """strength of the constructed kind per the extracted tables (int) or None"""
        if kind == "BinaryOp":
            d = {a: b for a, b in node["f"]} if node.get("k") == "struct" else {}
            op = show(d.get("op")) if d.get("op") is not None else ""
            if "::" in op:
                return bt.get(last_seg(op), bd), op
            return "op", op   # symbolic: the variable operator
        if kind == "UnaryOp":
            d = {a: b for a, b in node["f"]} if node.get("k") == "struct" else {}
            op = show(d.get("op")) if d.get("op") is not None else ""
            if "::" in op:
                return ut.get(last_seg(op), ud), op
            return "op", op
        v = et.get(kind)
        return (v if isinstance(v, int) else None), kind

    def eval_strength(e, locs, line, depth=0):
        """int | ('own', kind) | ('op', name) | None"""
        e = strip(e)
        if e is None or depth > 4:
            return None
        v = lit_val(e)
        if isinstance(v, int):
            return v
        if e.get("k") == "bin" and e["op"] in ("+", "-"):
            a, b = eval_strength(e["lhs"], locs, line, depth + 1), eval_strength(e["rhs"], locs, line, depth + 1)
            if isinstance(a, int) and isinstance(b, int):
                return a + b if e["op"] == "+" else a - b
            return None
        if e.get("k") == "mcall" and e["m"] == "binding_strength":
            r = e["r"]
            t = show(r, maxdepth=3)
            if r.get("k") == "path" and "::" not in r["p"]:
                return ("op", r["p"])
            if t.startswith("BinaryOperator::"):
                return bt.get(last_seg(r["p"]), bd) if r.get("k") == "path" else None
            if t.startswith("UnaryOperator::"):
                return ut.get(last_seg(r["p"]), ud) if r.get("k") == "path" else None
            for kind in OPEN_KINDS:
                if t.startswith("sql_ast::Expr::" + kind):
                    return ("own", kind)
            return None
        if e.get("k") == "path" and "::" not in e["p"]:
            defs = guards.visible_defs(locs, e, e["p"])
            if defs:
                return eval_strength(defs[0], locs, line, depth + 1)
        return None

    def operand_origin(e, locs, line, depth=0):
        """('operand', call_node) | ('closed', ctor) | ('raw', text)"""
        e = strip(e)
        if e is None or depth > 5:
            return ("raw", "?")
        if e.get("k") == "call":
            fn = show(e["f"])
            if last_seg(fn) == "translate_operand":
                return ("operand", e)
            if is_sql_expr_path(fn) and last_seg(fn) in CLOSED_CTORS:
                return ("closed", last_seg(fn))
            if is_sql_expr_path(fn) and last_seg(fn) in OPEN_KINDS:
                return ("open", last_seg(fn))
        if e.get("k") == "struct" and is_sql_expr_path(e["p"]):
            k = last_seg(e["p"])
            return ("closed", k) if k in CLOSED_CTORS else ("open", k)
        if e.get("k") == "path" and "::" not in e["p"]:
            defs = guards.visible_defs(locs, e, e["p"])
            if defs:
                # every reaching definition must be checked (assignments in loops re-define the name)
                res = [operand_origin(init, locs, line, depth + 1) for init in defs]
                worst = [r for r in res if r[0] not in ("operand", "closed")]
                # a definition that is itself the same open construction (accumulator) is judged at its own site
                worst = [r for r in worst if r[0] != "open"]
                if worst:
                    return worst[0]
                ops = [r for r in res if r[0] == "operand"]
                return ops[-1] if ops else res[-1]
        return ("raw", show(e, maxdepth=5)[:70])

    constructed = {}
    for f in syn.fns:
        if f["crate"] != "prqlc" or "/src/sql/" not in f["file"] or "body" not in f:
            continue
        if f["path"].endswith("::binding_strength") or f["path"].endswith("::associativity"):
            continue
        locs = None
        for n in walk(f["body"]):
            kind = None
            fields = {}
            if n.get("k") == "struct" and is_sql_expr_path(n["p"]) and last_seg(n["p"]) in OPEN_KINDS:
                kind = last_seg(n["p"])
                fields = {a: b for a, b in n["f"]}
            elif n.get("k") == "call" and is_sql_expr_path(show(n["f"])) and last_seg(show(n["f"])) in OPEN_KINDS:
                kind = last_seg(show(n["f"]))
                fields = dict(enumerate(n["a"]))
            if kind is None:
                continue
            if locs is None:
                locs = locals_of(f)
            # a constructor used only to ask for its strength (`sql_ast::Expr::IsNull(..).binding_strength()`) is not emitted
            n_sites += 1
            constructed.setdefault(kind, (f, n))
            own, opname = own_strength(kind, n, f)
            for fld in OPEN_KINDS[kind]:
                if fld not in fields:
                    continue
                key = f"operand:{f['path']}:{kind}.{fld}"
                org = operand_origin(fields[fld], locs, n["l"])
                if org[0] == "closed":
                    rep.ok(key, nontrivial=False)
                    continue
                if org[0] != "operand":
                    if org[0] == "raw" and org[1].startswith("sql_ast::Expr::Value"):
                        rep.ok(key, nontrivial=False)
                        continue
                    rep.bad(key, f"`{kind}.{fld}` is built from `{org[1]}` without translate_operand: a weaker-binding operand is emitted without parentheses and SQL regroups it",
                            file=f["file"], line=n["l"], fn=f["path"])
                    continue
                call = org[1]
                st = eval_strength(call["a"][2], locs, call["l"]) if len(call["a"]) >= 3 else None
                good = False
                if isinstance(st, int) and isinstance(own, int):
                    good = st >= own
                elif isinstance(st, tuple) and st[0] == "op" and own == "op":
                    good = st[1] == opname
                elif isinstance(st, tuple) and st[0] == "own":
                    good = st[1] == kind or (isinstance(own, int) and isinstance(et.get(st[1]), int) and et[st[1]] >= own)
                rep.check(good, key, f"operand `{kind}.{fld}` is checked against strength `{show(call['a'][2]) if len(call['a']) >= 3 else '?'}` (= {st}), "
                          f"which is not the constructed kind's own strength ({own}); weaker operands escape parenthesisation",
                          file=f["file"], line=call["l"], fn=f["path"])
    for kind, (f, n) in sorted(constructed.items()):
        if kind in ("BinaryOp", "UnaryOp"):
            has = kind in et or any(h == kind for h in et)
            rep.check(kind in et, f"row:{kind}", f"Expr::binding_strength has no row for {kind}", file=fe["file"], line=fe["l"], fn=fe["path"])
            continue
        rep.check(isinstance(et.get(kind), int) and et[kind] < ed, f"row:{kind}",
                  f"the generator constructs sql_ast::Expr::{kind} ({f['path']}) but Expr::binding_strength has no explicit row for it: it falls into the atom default "
                  f"({ed}) and no parent ever parenthesises it", file=fe["file"], line=fe["l"], fn=fe["path"])
    rep.check(n_sites >= 6, "sites", f"expected >= 6 open-syntax construction sites in sql/, found {n_sites}")


def r12(ctx, rep):
    # a number text that starts with `-` and is emitted as an atom is an operand without parentheses: `-{l}` applied to it reads `--0.5`, a comment
    import C08
    rep.borrowed(C08.r6, ctx, "C02.R12", "a negative number literal is emitted as unary minus over its magnitude, never as an atom")


def r13(ctx, rep):
    """`x >= lo && x <= hi` becomes `x BETWEEN lo AND hi`. Which comparison gives the low end is decided by the operator NAMES: the
    argument taken as `low` comes from the comparison that is tested to be `std.gte`, `high` from the one tested to be `std.lte`, and both
    tests are plain conjuncts of the guard (a disjunction that also admits the pair in the other order swaps the ends: BETWEEN 5 AND 1)."""
    rep.rule("C02.R13", "BETWEEN recognition: low is the right operand of the comparison tested `== \"std.gte\"`, high that of the one tested `== \"std.lte\"`", floor=3)
    syn = ctx.syn
    f = syn.fn("gen_expr::try_into_between", crate="prqlc")
    loc = dict(file=f["file"], fn=f["path"])
    bt = [n for n in walk(f["body"]) if n.get("k") == "struct" and last_seg(n["p"]) == "Between"]
    if len(bt) != 1:
        raise AnchorMissing("try_into_between: the `Between { expr, low, high }` it builds")
    d = dict(bt[0]["f"])
    # the variable each end is translated from: first argument of translate_operand(..)

    def operand_var(e):
        for c in walk(e):
            if c.get("k") == "call" and last_seg(show(c["f"])) == "translate_operand" and c["a"]:
                return show(c["a"][0]).replace(".clone()", "")
        return None
    lo, hi, subj = operand_var(d.get("low")), operand_var(d.get("high")), operand_var(d.get("expr"))
    # `let [x_l, x_r] = <args var>.try_into()..`: element -> (args variable, position)
    elem = {}
    for n in walk(f["body"]):
        if n.get("k") == "local" and n["pat"].get("k") in ("p_slice", "p_tuple", "p_array") and n.get("init") is not None:
            names = [x.get("n") for x in (n["pat"].get("e") or [])]
            src_ = re.match(r"(\w+)\.", show(n["init"], maxdepth=6))
            if src_ and len(names) == 2 and all(names):
                elem[names[0]] = (src_.group(1), 0)
                elem[names[1]] = (src_.group(1), 1)
    # pattern `Operator { name: N, args: A }`: args variable -> name variable
    name_of = {}
    for n in walk(f["body"]):
        if n.get("k") == "p_struct" and last_seg(n["p"]) == "Operator":
            dd = {a: b for a, b in n["f"]}
            if "name" in dd and "args" in dd and dd["name"].get("k") == "p_ident" and dd["args"].get("k") == "p_ident":
                name_of[dd["args"]["n"]] = dd["name"]["n"]
    ok_roles = lo in elem and hi in elem and subj in elem and elem[lo][1] == 1 and elem[hi][1] == 1 and elem[subj][1] == 0 and elem[lo][0] != elem[hi][0]
    rep.check(ok_roles, "between:roles", f"`low` and `high` are the right operands of the two comparisons and `expr` a left operand (found expr={subj}, low={lo}, high={hi}; destructured {elem})",
              line=bt[0]["l"], **loc)
    if not ok_roles:
        return
    n_lo, n_hi = name_of.get(elem[lo][0]), name_of.get(elem[hi][0])
    # the guard of the arm that binds those names
    import guards
    conj = []
    for m in matches_of(f["body"]):
        for a in m["arms"]:
            if a.get("guard") is not None and any(x.get("k") == "p_ident" and x["n"] in (n_lo, n_hi) for x in walk(a["pat"])):
                conj = [show(c_, maxdepth=6).strip("()") for c_ in guards.conjuncts(a["guard"])]
    conj = [c_.replace('"', "'") for c_ in conj] + [" == ".join(reversed(c_.replace('"', "'").split(" == "))) for c_ in conj if c_.count(" == ") == 1]
    want_lo, want_hi = f"{n_lo} == 'std.gte'", f"{n_hi} == 'std.lte'"
    rep.check(want_lo in conj, "between:low-is-gte", f"the comparison whose right operand becomes `low` must be tested `{want_lo}` as a plain conjunct of the arm's guard (found {conj}): "
              "otherwise `a <= 5 && a >= 1` is emitted `a BETWEEN 5 AND 1`, which no row satisfies", line=bt[0]["l"], **loc)
    rep.check(want_hi in conj, "between:high-is-lte", f"the comparison whose right operand becomes `high` must be tested `{want_hi}` as a plain conjunct of the arm's guard (found {conj})", line=bt[0]["l"], **loc)


def run(ctx, rep):
    for r in (r1, r2, r3, r4, r5, r6, r7, r8, r9, r10, r11, r12, r13):
        rep.guard(r, ctx)
