"""C11 - compilation is a pure function of source tree and options.

Decides (structural):
  R1 statics with interior mutability: only init-once caches whose initialiser reaches no
     ambient input, and the debug log whose data-returning readers are unreachable from
     the compilation entry points
  R2 ambient inputs (env, clock, fs, thread id, rand) reachable from the entry points are reviewed
  R3 every iteration over a HashMap/HashSet in the two library crates has an order-insensitive
     consumer, or is a reviewed row (uniqueness argument) or a known finding
  R4 types serialised as RQ/PL contain no hash containers except reviewed rows
Not decided: scheduling itself (nothing shared remains once R1 holds).
"""
import json
import os
import re

from synq import walk, show, show_stmts, last_seg, strs, tail_expr, AnchorMissing

HERE = os.path.dirname(os.path.abspath(__file__))
ROOT = os.path.dirname(os.path.dirname(HERE))

META = (
    "purity decided structurally: statics, ambient inputs, hash-order taint",
    ["A1", "A5 sort keys used as stabilisers are injective", "A6 call graph over-approximation through trait impls"],
    "resolved call graph from rustc MIR (reachability from the public entry points), inventory of statics and ambient "
    "calls, and classification of every HashMap/HashSet iteration by its terminal consumer on the syntax tree",
    True,
)

ENTRY_SUFFIXES = [
    ("prqlc", "prqlc::compile"), ("prqlc", "prqlc::prql_to_pl"), ("prqlc", "prqlc::prql_to_pl_tree"),
    ("prqlc", "prqlc::pl_to_rq"), ("prqlc", "prqlc::pl_to_rq_tree"), ("prqlc", "prqlc::rq_to_sql"),
    ("prqlc", "prqlc::pl_to_prql"), ("prqlc", "prqlc::prql_to_tokens"),
    ("prqlc", "prqlc::json::from_pl"), ("prqlc", "prqlc::json::to_pl"), ("prqlc", "prqlc::json::from_rq"),
    ("prqlc", "prqlc::json::to_rq"), ("prqlc", "prqlc::internal::pl_to_lineage"),
    ("prqlc", "prqlc::internal::json::from_lineage"),
    ("prqlc_parser", "prqlc_parser::lexer::lex_source"), ("prqlc_parser", "prqlc_parser::lexer::lex_source_recovery"),
    ("prqlc_parser", "prqlc_parser::parser::parse_lr_to_pr"),
]


def reviewed(name):
    p = os.path.join(ROOT, "reviewed", name)
    if not os.path.exists(p):
        return {}
    with open(p) as f:
        return {r["key"]: r for r in json.load(f)["rows"]}


def entries(cg):
    out = []
    missing = []
    for crate, s in ENTRY_SUFFIXES:
        if s in cg.fns:
            out.append(s)
        else:
            missing.append(s)
    return out, missing


AMBIENT = re.compile(
    r"^(std::env::(var|vars|var_os|args|current_dir|temp_dir|home_dir)|std::time::(SystemTime|Instant)::now|"
    r"std::thread::current|std::process::id|std::fs::|std::fs::File::|chrono::(Utc|Local)::now|rand::|getrandom::|"
    r"std::collections::hash_map::RandomState::new|std::io::stdin)"
)


def r1_r2(ctx, rep):
    cg = ctx.cg
    roots, missing = entries(cg)
    rep.rule("C11.R0", "public entry points exist (roots of every reachability query)", floor=15)
    for m in missing:
        rep.bad(f"entry:{m}", f"entry point {m} not found in the resolved program (renamed? the reachability roots must be updated)")
    for r in roots:
        rep.ok(f"entry:{r}", nontrivial=False)
    reach = cg.reachable(roots)
    rep.note(f"{len(reach)} of {len(cg.fns)} bodies reachable from {len(roots)} entry points")

    rep.rule("C11.R1", "statics with interior mutability are init-once caches with ambient-free initialisers, or the write-only debug log", floor=9)
    rev = reviewed("c11_statics.json")
    # which functions mention each static
    users = {}
    for fid, f in cg.fns.items():
        for s in f["statics"]:
            users.setdefault(s["id"], set()).add(fid)
    for sid, s in sorted(cg.statics.items()):
        if s["freeze"] and not s["mutable"]:
            rep.ok(f"static:{sid}:immutable", nontrivial=False)
            continue
        key = f"static:{sid}"
        ty = s["ty"]
        us = users.get(sid, set())
        if ty.startswith("std::sync::OnceLock<") and not s["mutable"]:
            # the initialiser = closures of the functions that mention the static; nothing they reach may be ambient
            bad_amb = []
            init_roots = set()
            for u in us:
                init_roots.add(u)
            sub = cg.reachable(init_roots)
            # restrict to closures created inside the using functions and what they call
            clos = [fid for fid in sub if cg.fns[fid].get("parent_id") in us]
            sub2 = cg.reachable(clos)
            for fid in sub2:
                for r in cg.fns[fid]["refs"]:
                    if r["kind"] == "call" and r.get("def") and AMBIENT.match(r["def"]):
                        bad_amb.append((r["def"], r["file"], r["l"], cg.fns[fid]["path"]))
            if bad_amb:
                k2 = f"{key}:ambient-init:{bad_amb[0][0]}"
                pre_ok = True
                if k2 in rev and rev[k2].get("requires_precheck_in"):
                    # the review holds only while the named function reads the same ambient input itself
                    # (outside the init closure) on every call
                    pf = [fid for fid in cg.fns if fid == rev[k2]["requires_precheck_in"]]
                    pre_ok = bool(pf) and any(r["kind"] == "call" and r.get("def") == bad_amb[0][0] for r in cg.fns[pf[0]]["refs"])
                if k2 in rev and pre_ok:
                    rep.ok(k2, {"reviewed": rev[k2]["reason"]})
                elif k2 in rev:
                    rep.bad(k2, f"init-once cache `{s['path']}` is initialised from {bad_amb[0][0]} and `{rev[k2]['requires_precheck_in']}` no longer re-reads it on every call before consulting the cache: "
                            "the first call in the process latches the value for all later calls", file=bad_amb[0][1], line=bad_amb[0][2], fn=bad_amb[0][3])
                else:
                    rep.bad(k2, f"init-once cache `{s['path']}` is initialised from an ambient input ({bad_amb[0][0]}): the first call in the process decides what every later call sees",
                            file=bad_amb[0][1], line=bad_amb[0][2], fn=bad_amb[0][3])
            else:
                rep.ok(key, {"ty": ty, "users": sorted(cg.fns[u]["path"] for u in us)})
            continue
        if key in rev:
            # reviewed static: its conditions are checked below (CURRENT_LOG)
            rep.ok(key, {"reviewed": rev[key]["reason"]})
            continue
        rep.bad(key, f"static `{s['path']}`: {ty} has interior mutability (or is `static mut`) and is not an init-once cache: "
                "process-wide state that one compilation can leave behind for the next", file=s["file"], line=s["l"])
    # the debug log: data-returning readers must be unreachable from the entry points
    log_id = [sid for sid in cg.statics if sid.endswith("debug::log::CURRENT_LOG")]
    if log_id:
        for reader in ("prqlc::debug::log::log_finish", "prqlc::debug::log::log_start"):
            if reader not in cg.fns:
                rep.bad(f"log:{reader}:missing", f"{reader} not found")
                continue
            if reader in reach:
                path = [cg.fns[p]["path"] for p in cg.path_to(reach, reader)]
                rep.bad(f"log:{last_seg(reader)}:reachable",
                        f"{last_seg(reader)} is reachable from a compilation entry point ({' -> '.join(path)}): the process-wide debug log would be started/taken by a compile call",
                        file=cg.fns[reader]["file"], line=cg.fns[reader]["l"], fn=reader)
            else:
                rep.ok(f"log:{last_seg(reader)}:unreachable")
        # log_is_enabled only gates *whether a message is recorded*
        lie = "prqlc::debug::log::log_is_enabled"
        callers = sorted(cg.fns[a]["path"] for a, bs in cg.edges.items() if lie in bs)
        allowed = reviewed("c11_statics.json").get("log_is_enabled:callers", {}).get("callers", [])
        rep.check(set(callers) <= set(allowed), "log:is_enabled:callers",
                  f"log_is_enabled() is read by {callers}; only {allowed} are reviewed as not influencing output",
                  file=cg.fns[lie]["file"] if lie in cg.fns else None, line=cg.fns[lie]["l"] if lie in cg.fns else None)
        # users of the static are confined to debug::log
        for u in users.get(log_id[0], ()):
            p = cg.fns[u]["id"]
            rep.check(p.startswith("prqlc::debug::log::"), f"log:user:{cg.fns[u]['path']}",
                      f"{cg.fns[u]['path']} touches CURRENT_LOG outside debug::log", file=cg.fns[u]["file"], line=cg.fns[u]["l"])

    rep.rule("C11.R2", "ambient inputs reachable from the entry points are reviewed", floor=1)
    rev2 = reviewed("c11_ambient.json")
    seen = set()
    for fid in reach:
        f = cg.fns[fid]
        for r in f["refs"]:
            if r["kind"] in ("call", "ref") and r.get("def") and AMBIENT.match(r["def"]):
                owner = cg.owner_fn(fid)
                key = f"ambient:{owner['path']}:{r['def']}"
                if key in seen:
                    continue
                seen.add(key)
                if key in rev2:
                    rep.ok(key, {"reviewed": rev2[key]["reason"]})
                else:
                    path = [cg.fns[p]["path"] for p in cg.path_to(reach, fid)]
                    rep.bad(key, f"{r['def']} is called in {owner['path']}, reachable from an entry point via {' -> '.join(path[:6])}: "
                            "the result of compilation can depend on the process environment", file=r["file"], line=r["l"], fn=owner["path"])
    for k in rev2:
        if k not in seen:
            rep.note(f"reviewed ambient row {k} no longer matches")


# ---------------------------------------------------------------------------
ITER_SRC = {"iter", "iter_mut", "keys", "values", "values_mut", "into_iter", "into_keys", "into_values", "drain",
            "difference", "intersection", "union", "symmetric_difference"}
ADAPTERS = {"map", "filter", "filter_map", "cloned", "copied", "flat_map", "flatten", "chain", "inspect", "peekable",
            "into_iter", "iter", "map_while", "filter_ok", "map_ok", "by_ref", "unique", "dedup", "rev"}
INSENSITIVE = {"any", "all", "count", "sum", "product", "min", "max", "contains", "len", "is_empty", "sorted",
               "sorted_by", "sorted_by_key", "sorted_unstable", "sorted_unstable_by_key", "sorted_by_cached_key",
               "exactly_one", "at_most_one", "all_equal", "counts"}
SENSITIVE = {"next", "find", "find_map", "position", "last", "nth", "join", "zip", "enumerate", "take", "skip",
             "take_while", "skip_while", "fold", "reduce", "min_by_key", "max_by_key", "min_by", "max_by", "first",
             "collect_vec", "format", "next_back", "for_each", "try_for_each", "find_or_first", "step_by", "scan",
             "collect_tuple", "next_tuple", "try_fold", "partition"}
HASHY = ("HashMap", "HashSet", "BTreeMap", "BTreeSet", "hash_map", "hash_set")


def parents(root):
    par = {}
    stack = [root]
    while stack:
        n = stack.pop()
        if isinstance(n, dict):
            for v in n.values():
                if isinstance(v, dict):
                    par[id(v)] = n
                    stack.append(v)
                elif isinstance(v, list):
                    for x in v:
                        if isinstance(x, dict):
                            par[id(x)] = n
                            stack.append(x)
                        elif isinstance(x, list):
                            for y in x:
                                if isinstance(y, dict):
                                    par[id(y)] = n
                                    stack.append(y)
    return par


def body_sensitive(body):
    """Is a `for` body order-sensitive? push/append/early-exit/`?`/write! make the visible result depend on order."""
    why = []
    for n in walk(body):
        k = n.get("k")
        if k == "mcall" and n["m"] in ("push", "push_str", "push_back", "push_front", "append", "write_str", "write", "remove_entry"):
            why.append(f".{n['m']}() at line {n['l']}")
        elif k in ("break", "return"):
            why.append(f"{k} at line {n['l']}")
        elif k == "try":
            why.append(f"`?` at line {n['l']} (which error is reported first depends on order)")
        elif k == "macro" and n["n"] in ("write", "writeln", "format", "print", "println", "panic"):
            why.append(f"{n['n']}! at line {n['l']}")
        elif k == "bin" and n["op"] in ("+=",) :
            why.append(f"`+=` at line {n['l']}")
    return why


SCOPE = [None]      # body of the function being classified: lets sort_key_of resolve a key given by name (nested fn / local closure)


def sort_key_of(mcall):
    """Key expression of a sort call: '<element>' for sort()/sorted(), else the rendered key.
    A key given by name (a nested fn or a local closure) is resolved to its body, so that naming it changes nothing."""
    m = mcall["m"]
    if m in ("sort", "sorted", "sort_unstable", "sorted_unstable"):
        return "<element>"
    if not mcall["a"]:
        return "?"
    a = mcall["a"][0]
    if a.get("k") == "path" and "::" not in a["p"] and SCOPE[0] is not None:
        for n in walk(SCOPE[0]):
            if n.get("k") == "item_fn" and n["name"] == a["p"] and n["body"].get("s"):
                prm = [{"k": "p_ident", "n": (p["name"] if isinstance(p, dict) and "name" in p else str(p)), "l": n["l"]} for p in n.get("params", [])]
                t = tail_expr(n["body"])
                if t is not None:
                    a = {"k": "closure", "params": prm, "body": t, "l": n["l"]}
                break
            if n.get("k") == "local" and show(n["pat"]) == a["p"] and n.get("init", {}).get("k") == "closure":
                a = n["init"]
                break
    if a.get("k") == "closure":
        body = a["body"]
        if body.get("k") == "block" and len(body["s"]) == 1:
            body = body["s"][0]
        if m in ("sort_by", "sorted_by", "sort_unstable_by"):
            # |a, b| a.K.cmp(&b.K)
            if body.get("k") == "mcall" and body["m"] == "cmp" and len(a["params"]) == 2:
                pa, pb = show(a["params"][0]), show(a["params"][1])
                lhs = show(body["r"])
                rhs = show(body["a"][0]).lstrip("&")
                if lhs.startswith(pa) and rhs.startswith(pb) and lhs[len(pa):] == rhs[len(pb):]:
                    return "|x| x" + lhs[len(pa):]
            return "|..| " + show(body, maxdepth=8)
        return "|" + ", ".join(show(x) for x in a["params"]) + "| " + show(body, maxdepth=8)
    return show(a, maxdepth=6)


def for_loop_status(fornode, par, recv):
    """Classify a `for` over a hash container by its body; `push` into a Vec that is sorted right after
    the loop is order-insensitive (the repo's own stabiliser idiom)."""
    why = body_sensitive(fornode["body"])
    if not why:
        return ("insensitive", "for-body", recv, "loop body only inserts/mutates per element")
    pushes = [n for n in walk(fornode["body"]) if n.get("k") == "mcall" and n["m"] == "push"]
    others = [w for w in why if not w.startswith(".push()")]
    sk = None
    tgt = None
    if pushes:
        targets = {show(n["r"]) for n in pushes}
        blk = par.get(id(fornode))
        if blk is not None and blk.get("k") == "block" and len(targets) == 1:
            tgt = next(iter(targets))
            idx = [i for i, st in enumerate(blk["s"]) if st is fornode]
            after = blk["s"][idx[0] + 1: idx[0] + 4] if idx else []
            for st in after:
                if st.get("k") == "mcall" and st["m"].startswith("sort") and show(st["r"]) == tgt:
                    sk = sort_key_of(st)
    if sk is not None and not others:
        return ("insensitive", "for-body:push+sort", recv, f"pushes into `{tgt}`, which is sorted right after the loop", sk)
    if sk is not None:
        # still order-sensitive for other reasons (reviewed separately), but the stabilising sort key is checked too
        return ("sensitive", "for-body", recv, "; ".join(why[:3]), sk)
    return ("sensitive", "for-body", recv, "; ".join(why[:3]))


def classify_site(syn, cgfn, r, mir_refs_at_line):
    """Return (status, terminal, receiver_text, detail) for one hash-iteration source call."""
    line = r["ml"] if r.get("ml", -1) > 0 else r["l"]
    f = syn.fn_at(r["file"], line)
    if f is None or "body" not in f:
        return ("unknown", "?", "?", "no syntax tree for this site")
    par = parents(f["body"])
    SCOPE[0] = f["body"]
    method = last_seg(r["def"])
    node = None
    if r.get("macro") and "for" in r["macro"]:
        # desugared for loop: find the `for` at this line
        for n in walk(f["body"]):
            if n.get("k") == "for" and n["l"] <= r["l"] <= n["e"].get("l", n["l"]) + 3 and (n["l"] == r["l"] or n["e"].get("l") == r["l"]):
                node = n
                break
        if node is None:
            for n in walk(f["body"]):
                if n.get("k") == "for" and n["l"] == r["l"]:
                    node = n
        if node is None:
            return ("unknown", "for", "?", "for-loop not located")
        recv = show(node["e"], maxdepth=8)
        return for_loop_status(node, par, recv)
    # explicit method call
    cands = [n for n in walk(f["body"]) if n.get("k") == "mcall" and n["m"] == method and n["l"] == line]
    if not cands:
        return ("unknown", method, "?", "source call not located in the syntax tree")
    node = cands[0]
    recv = show(node["r"], maxdepth=8)
    chain = []
    cur = node
    while True:
        p = par.get(id(cur))
        if p is None:
            break
        if p.get("k") == "mcall" and p["r"] is cur:
            chain.append(p)
            cur = p
            continue
        if p.get("k") in ("try", "await") and p.get("e") is cur:
            cur = p
            continue
        break
    ctxnode = par.get(id(cur))
    terminal = None
    for m in chain:
        if m["m"] in ADAPTERS:
            continue
        terminal = m
        break
    names = [m["m"] for m in chain]
    if terminal is not None:
        t = terminal["m"]
        if t in INSENSITIVE:
            if t.startswith("sort"):
                return ("insensitive", t, recv, f"chain .{'.'.join(names)}", sort_key_of(terminal))
            return ("insensitive", t, recv, f"chain .{'.'.join(names)}")
        if t in ("collect", "try_collect", "collect_vec", "unzip", "to_vec"):
            # target type from the resolved call at that line
            tgt = ""
            for rr in mir_refs_at_line.get((r["file"], terminal["l"]), []):
                if last_seg(rr["def"]) in ("collect", "try_collect", "from_iter", "unzip", "collect_vec"):
                    tgt = rr["full"]
            tf = terminal.get("tf", "")
            # (collect_vec / to_vec always build a Vec: their resolved generic arguments name the SOURCE iterator, which is the hash container itself)
            if t not in ("collect_vec", "to_vec") and (any(h in tgt.split("collect::")[-1] for h in HASHY) or any(h in tf for h in HASHY)):
                is_map = "Map" in tgt.split("collect::")[-1] or "Map" in tf
                if method in ("values", "values_mut", "into_values") and is_map:
                    # the source keys are dropped and new keys are computed from the values: two values may
                    # compute the same key, and then which one survives follows the iteration order
                    return ("sensitive", t + "->rekeyed-map", recv, "values() re-keyed into a map: duplicate computed keys keep the last one in hash order")
                if t == "try_collect" or any(x.get("k") == "try" for m_ in chain for a_ in m_.get("a", []) if a_.get("k") == "closure" for x in walk(a_.get("body", {}))):
                    # the collected VALUE does not depend on the order, but the iteration stops at the first element that fails:
                    # with two failing elements, which error is reported follows the hash order
                    return ("sensitive", t + "->first-error", recv, "fallible per-element step over a hash container: the first error in hash order is the one returned")
                return ("insensitive", t + "->hash/btree", recv, tgt[-80:])
            # collected into an ordered container: is it sorted right after?
            sorted_after = False
            p = ctxnode
            if p is not None and p.get("k") == "local":
                var = show(p["pat"])
                blk = par.get(id(p))
                if blk is not None and blk.get("k") == "block":
                    idx = [i for i, s in enumerate(blk["s"]) if s is p]
                    for s in blk["s"][idx[0] + 1: idx[0] + 3] if idx else []:
                        if s.get("k") == "mcall" and s["m"].startswith("sort") and show(s["r"]) == var:
                            sorted_after = sort_key_of(s)
            # `.collect().sorted()`-like: later in chain
            rest = names[names.index(t) + 1:] if t in names else []
            for mm in chain:
                if mm["m"] in rest and mm["m"].startswith("sort"):
                    sorted_after = sort_key_of(mm)
            if sorted_after:
                return ("insensitive", t + "+sort", recv, "collected then sorted", sorted_after if isinstance(sorted_after, str) else "?")
            return ("sensitive", t + "->ordered", recv, f"chain .{'.'.join(names)} collects into an ordered container ({tgt[-60:]})")
        if t in ("extend",):
            return ("sensitive", t, recv, "extend")
        if t == "next":
            import guards
            g = guards.len_is_one_guard(terminal, par, recv)
            if g:
                return ("insensitive", "next:len==1", recv, f"single element: {g}")
        if t in SENSITIVE:
            if t == "for_each":
                why = body_sensitive(terminal)
                if not why:
                    return ("insensitive", t, recv, "closure only inserts/mutates per element")
            return ("sensitive", t, recv, f"chain .{'.'.join(names)}")
        return ("sensitive", t, recv, f"unclassified consumer .{t}() in chain .{'.'.join(names)}")
    # no terminal in the chain: look at the context
    if ctxnode is not None:
        k = ctxnode.get("k")
        if k == "for" and ctxnode.get("e") is cur:
            return for_loop_status(ctxnode, par, recv)
        if k == "mcall" and cur in ctxnode.get("a", []):
            # passed as an argument: x.extend(<hash iter>) into a hash container is fine
            if ctxnode["m"] == "extend":
                for rr in mir_refs_at_line.get((r["file"], ctxnode["l"]), []):
                    if last_seg(rr["def"]) == "extend" and any(h in (rr.get("recv") or "") for h in HASHY):
                        return ("insensitive", "extend->hash", recv, rr.get("recv"))
                return ("sensitive", "extend->ordered", recv, "extends an ordered container")
            return ("sensitive", "arg:" + ctxnode["m"], recv, "iterator passed to ." + ctxnode["m"] + "()")
        if k == "call":
            fn = show(ctxnode["f"])
            if last_seg(fn) in ("from_iter",) and any(h in fn for h in HASHY):
                return ("insensitive", "from_iter->hash", recv, fn)
            return ("sensitive", "arg:" + last_seg(fn), recv, "iterator passed to " + fn)
    if ctxnode is not None and ctxnode.get("k") == "local" and ctxnode.get("init") is cur:
        var = show(ctxnode["pat"])
        uses = [n for n in walk(f["body"]) if n.get("k") == "path" and n["p"] == var]
        if len(uses) == 1:
            up = par.get(id(uses[0]))
            if up is not None and up.get("k") == "mcall" and up["r"] is uses[0] and up["m"].startswith("sort"):
                return ("insensitive", "local+" + up["m"], recv, f"`{var}` is only consumed by .{up['m']}()", sort_key_of(up))
    return ("sensitive", "escapes", recv, "iterator value escapes (" + (ctxnode.get("k") if ctxnode else "?") + ")")


def r3(ctx, rep):
    rep.rule("C11.R3", "every HashMap/HashSet iteration has an order-insensitive consumer or is reviewed", floor=40)
    cg = ctx.cg
    syn = ctx.syn
    rev = reviewed("c11_hash_order.json")
    refs_at = {}
    for fid, f in cg.fns.items():
        for r in f["refs"]:
            if r["kind"] == "call" and r.get("file"):
                refs_at.setdefault((r["file"], r["l"]), []).append(r)
                if r.get("ml", -1) > 0 and r["ml"] != r["l"]:
                    refs_at.setdefault((r["file"], r["ml"]), []).append(r)
    seen = set()
    used_rev = set()
    sort_keys = []
    ctx._c11_sort_keys = sort_keys
    # functions reviewed as "returns its elements in hash order, callers must not depend on it": every call is a hash source too
    derived_sources = {row["returns_hash_order"] for row in rev.values() if row.get("returns_hash_order")}
    for fid, f in sorted(cg.fns.items()):
        if (f.get("macro") or "").startswith("#[derive"):
            continue
        for r in f["refs"]:
            if r["kind"] != "call" or not r.get("def"):
                continue
            m = last_seg(r["def"])
            recv = (r.get("recv") or "")
            derived = r["def"] in derived_sources
            if not derived:
                if m not in ITER_SRC:
                    continue
                # the receiver itself is the hash container (not a Vec / slice / tuple whose ELEMENTS are hash containers)
                if not re.match(r"^(&(mut )?|\*)*std::collections::Hash(Map|Set)<", recv):
                    continue
            else:
                if cg.owner_fn(fid)["path"] == r["def"]:
                    continue   # the function's own recursion is part of its reviewed row
                recv = "Vec in hash order returned by " + r["def"]
            if recv.startswith("std::vec::Vec<") or recv.startswith("&std::vec::Vec<") or recv.startswith("std::option::Option<"):
                continue
            if (r.get("macro") or "").startswith("#[derive") or "/debug/" in r["file"]:
                # derive expansions and the html debug renderer (never part of compile output)
                if "/debug/" in r["file"]:
                    rep.ok(f"hash:{cg.owner_fn(fid)['path']}:debug-renderer", nontrivial=False)
                continue
            owner = cg.owner_fn(fid)
            res = classify_site(syn, f, r, refs_at)
            status, term, recv_txt, detail = res[:4]
            key = f"hash:{owner['path']}:{recv_txt}:{term}"
            if len(res) > 4 and key not in seen:
                sort_keys.append((key, res[4], r["file"], r["l"], owner["path"], r.get("recv") or r.get("self") or ""))
            if key in seen:
                continue
            seen.add(key)
            if status == "insensitive":
                rep.ok(key, detail)
            elif key in rev:
                used_rev.add(key)
                rep.ok(key, {"reviewed": rev[key]["reason"], "detail": detail})
            elif moved_into_helper(cg, syn, owner, recv_txt, term, rev, used_rev):
                rep.ok(key, {"reviewed": "same receiver and consumer as a reviewed row of the function that calls this private helper", "detail": detail})
            else:
                rep.bad(key, f"iteration over a hash container ({recv[:70]}) with order-sensitive consumer `{term}`: {detail}. "
                        "Hash order differs between processes (random seed), so output or error text can differ between runs",
                        file=r["file"], line=r["l"], fn=owner["path"], detail=detail)
    for k in rev:
        if k not in used_rev and k.startswith("hash:"):
            rep.note(f"reviewed hash-order row no longer matches: {k}")


def moved_into_helper(cg, syn, owner, recv_txt, term, rev, used_rev):
    """A reviewed iteration that was moved verbatim into a private helper: some reviewed row `hash:<caller>:<same receiver>:<same consumer>` exists for a
    function of the same file that calls this (non-public) function, and that caller no longer contains the iteration itself."""
    me = [f for f in syn.fns if "body" in f and f["path"].split("::", 1)[-1] == owner["path"].split("::", 1)[-1] or f["path"].endswith("::" + owner["path"].split("::")[-1])]
    me = [f for f in me if f["name"] == owner["path"].split("::")[-1]]
    if len(me) != 1 or (me[0].get("vis") or "").startswith("pub"):
        return False
    name = me[0]["name"]
    strip = lambda t: re.sub(r"^&(mut )?", "", t).replace("self.", "").replace("ctx.", "")
    for k, row in rev.items():
        if not k.startswith("hash:") or k in used_rev:
            continue
        parts = k[len("hash:"):].rsplit(":", 2)
        if len(parts) != 3:
            continue
        caller_path, r_recv, r_term = parts
        if r_term != term or strip(r_recv).split(".")[-1] != strip(recv_txt).split(".")[-1]:
            continue
        callers = [f for f in syn.fns if "body" in f and f["file"] == me[0]["file"] and (caller_path.endswith(f["name"]) or f["name"] in caller_path)
                   and any(c.get("k") in ("call", "mcall") and (last_seg(show(c.get("f", {}))) == name if c.get("k") == "call" else c.get("m") == name) for c in walk(f["body"]))]
        if callers:
            used_rev.add(k)
            return True
    return False


def r4(ctx, rep):
    rep.rule("C11.R4", "types serialised as RQ hold no hash containers (JSON key order would follow the hash seed)", floor=60)
    rev = reviewed("c11_hash_order.json")
    rows = [t for c in ctx.mir.values() for t in c.get("type_reach", []) if t["root"] == "RelationalQuery"]
    if not rows:
        rep.bad("root", "rq::RelationalQuery not found by the driver (type reachability could not be computed)")
    seen = set()
    for t in rows:
        owner = last_seg(t["owner"])
        key = f"serde-field:{owner}.{t['field']}" if t["variant"] == owner else f"serde-field:{owner}::{t['variant']}.{t['field']}"
        if key in seen:
            continue
        seen.add(key)
        if "HashMap<" in t["ty"] or "HashSet<" in t["ty"]:
            key = key.replace("serde-field:", "serde-hash:")
            if key in rev:
                rep.ok(key, {"reviewed": rev[key]["reason"], "ty": t["ty"]})
            else:
                rep.bad(key, f"{t['owner']}.{t['field']}: {t['ty']} is part of the serialised RQ: JSON key order follows the process's hash seed")
        else:
            rep.ok(key, t["ty"], nontrivial=False)


def r5(ctx, rep):
    rep.rule("C11.R5", "sorts that stabilise a hash iteration use a total key (the element / map key) or a key reviewed as unique", floor=8)
    rev = reviewed("c11_sort_keys.json")

    def canon(k):
        """a one-parameter key closure with its parameter renamed to `x` (`|e| e.1.1` == `|entry| entry.1.1`)"""
        m_ = re.match(r"^\|\(?(\w+)\)?\| ?(.*)$", k or "")
        return "|x| " + re.sub(r"\b" + re.escape(m_.group(1)) + r"\b", "x", m_.group(2)) if m_ else k
    for row_ in rev.values():
        if "key_expr" in row_:
            row_["key_expr"] = canon(row_["key_expr"])
    for key, sk, file, line, owner, recv in getattr(ctx, "_c11_sort_keys", []):
        sk_raw = sk or ""
        sk = canon(sk)
        k2 = "sortkey:" + key[len("hash:"):]
        if sk == "<element>":
            rep.ok(k2, "sorts the elements themselves (total order)")
            continue
        # the key of a HashMap's own entries is unique by construction: `|x| x.0` / `|(k, _)| k` over (key, value) pairs needs no review
        if "HashMap" in recv and (re.fullmatch(r"\|x\| ?[*&]?x\.0(\.clone\(\)|\.as_str\(\)|\.to_string\(\))?", sk or "") or re.fullmatch(r"\|\((\w+), _\w*\)\| ?[*&]?\1(\.clone\(\)|\.as_str\(\))?", sk_raw)):
            rep.ok(k2, {"key": sk, "why": "the HashMap's own key (unique)"})
            continue
        row = rev.get(k2)
        if row is None:
            # the same sort of the same container in the same function, reached through another spelling of the loop
            # (`for .. push` + sort  <->  `.map(..).collect()` + sort): the reviewed argument is about the key, not the loop form
            stem = ":".join(k2.split(":")[:-1])
            for rk, rr in rev.items():
                if rk.startswith("sortkey:") and ":".join(rk.split(":")[:-1]).replace("&", "") == stem.replace("&", "") and rr.get("key_expr") == sk:
                    row = rr
                    break
            if row is None:
                fn_stem = ":".join(k2.split(":")[:-2])
                for rk, rr in rev.items():
                    if rk.startswith(fn_stem + ":") and rr.get("key_expr") == sk:
                        row = rr
                        break
        if row is not None and row.get("key_expr") == sk:
            if row.get("status") == "finding":
                rep.bad(k2, f"sort key `{sk}` is not unique: {row['reason']}", file=file, line=line, fn=owner)
            else:
                rep.ok(k2, {"key": sk, "reviewed": row["reason"]})
        else:
            rep.bad(k2, f"the sort that hides hash order here uses key `{sk}`" + (f" (reviewed key was `{row['key_expr']}`)" if row else "") +
                    ": elements with equal keys keep their hash order (stable sort), so the key must be unique per element - not reviewed",
                    file=file, line=line, fn=owner)


def r6(ctx, rep):
    rep.rule("C11.R6", "identifiers that appear in output (source ids in spans) come from the one table built from the sources, not from an enumeration position", floor=1)
    import C13
    C13.source_id_reader(ctx, rep)


ORDERING = {"sort_by_key", "sorted_by_key", "sort_by", "sorted_by", "sort_unstable_by_key", "sort_unstable_by", "sort_by_cached_key", "sorted_by_cached_key", "min_by_key", "max_by_key",
            "min_by", "max_by", "binary_search_by_key", "binary_search_by", "dedup_by_key", "group_by", "chunk_by", "into_group_map_by"}


def r7(ctx, rep):
    rep.rule("C11.R7", "the id of a source file (its position in the iterator given to SourceTree::new) is never an ordering or grouping key", floor=2)
    syn = ctx.syn
    n_keys = 0
    for f in syn.fns:
        if f["crate"] not in ("prqlc", "prqlc_parser") or "body" not in f or "/tests/" in f["file"] or "/cli/" in f["file"]:
            continue
        for n in walk(f["body"]):
            if n.get("k") == "mcall" and n["m"] in ORDERING and n["a"]:
                n_keys += 1
                key = show(n["a"][-1], maxdepth=12)
                rep.check("source_id" not in key, f"order-by-source-id:{f['path']}:{n['m']}", f"`.{n['m']}({key[:100]})` in {f['path']} orders by `source_id`: the id is the position of the file in the iterator "
                          "the caller enumerated (a HashMap in the CLI), so the same project reports its errors / declarations in a different order from run to run", file=f["file"], line=n["l"], fn=f["path"])
    rep.check(n_keys >= 10, "ordering-sites", f"expected >= 10 keyed sorts / groupings in the compiler crates, found {n_keys}")
    # ... nor implicitly: a derived ordering on Span would compare source_id first
    sp = syn.adt("Span", crate="prqlc_parser")
    derives = " ".join(a["args"] for a in sp["attrs"] if a["name"] == "derive")
    rep.check(not re.search(r"\b(PartialOrd|Ord)\b", derives), "span-not-ordered", f"Span derives {derives}: an ordering on spans compares source ids (enumeration positions)", file=sp["file"], line=sp["l"])


def hash_bearing_adts(syn):
    """names of the crate's ADTs whose Debug output contains a HashMap / HashSet (directly or through another such ADT)"""
    adts = [a for a in syn.adts if a["crate"] in ("prqlc", "prqlc_parser") and a.get("kind") in ("struct", "enum")]

    def field_types(a):
        out = []
        for fl in a.get("fields", []):
            out.append(str(fl.get("ty", "")))
        for v in a.get("variants", []):
            for fl in v.get("fields", []):
                out.append(str(fl.get("ty", "")))
        return out
    by_name = {}
    for a in adts:
        by_name.setdefault(a["name"], []).append(a)

    def resolve(owner, name):
        """the ADT a field type name denotes: the candidate sharing the longest module prefix with the owner (pl::Expr inside ir::pl, rq::Expr inside ir::rq)"""
        cands = by_name.get(name, [])
        if len(cands) <= 1:
            return cands[0]["path"] if cands else None
        op = owner["path"].split("::")

        def common(c):
            cp = c["path"].split("::")
            n = 0
            while n < min(len(op), len(cp)) and op[n] == cp[n]:
                n += 1
            return n
        return max(cands, key=common)["path"]
    def prints_raw(a):
        """derived Debug prints every field as it is; a hand-written impl is accepted when it orders the hash container first"""
        derives = " ".join(at["args"] for at in a.get("attrs", []) if at["name"] == "derive")
        if re.search(r"\bDebug\b", derives):
            return True
        impls = [g for g in syn.fns if g["crate"] == a["crate"] and g.get("self_short") == a["name"] and g.get("trait_short") == "Debug" and g["name"] == "fmt" and "body" in g]
        if not impls:
            return False        # no Debug at all: cannot be printed with {:?}
        return not any(re.search(r"BTreeSet|BTreeMap|sorted\(|sort\(|sorted_by", show(g["body"], maxdepth=20) + " " + " ".join(str(x.get("tf", "")) for x in walk(g["body"]))) for g in impls)
    bearing = {a["path"] for a in adts if any(re.search(r"\bHash(Map|Set)\b", t) for t in field_types(a)) and prints_raw(a)}
    changed = True
    while changed:
        changed = False
        for a in adts:
            if a["path"] in bearing:
                continue
            names = {w for t in field_types(a) for w in re.findall(r"\b[A-Z]\w*\b", t)}
            if any(resolve(a, w) in bearing for w in names):
                bearing.add(a["path"])
                changed = True
    # as resolved paths without the crate name (the form the driver prints type arguments in): `ir::pl::lineage::LineageColumn`
    return {p_.split("::", 1)[-1] for p_ in bearing}


DEBUG_PRINT_REVIEWED = {
    "<ir::decl::DeclKind as std::fmt::Display>::fmt": "Display of a declaration is used by semantic::reporting (the labels of `prqlc debug annotate`) and by the Debug of Module (logs): "
                                                      "neither is SQL, RQ or error text",
}


def r8(ctx, rep):
    rep.rule("C11.R8", "no hash container is printed with {:?} into text the compiler returns (error messages)", floor=3)
    syn, cg = ctx.syn, ctx.cg
    bearing = hash_bearing_adts(syn)
    rep.check(any(b.endswith("FuncCall") for b in bearing) and len(bearing) >= 10, "bearing-adts", f"expected pr::FuncCall (named_args: HashMap) and the types that embed it among the hash-bearing types, found {sorted(bearing)[:12]}")
    n_dbg = n_log = 0
    seen = set()
    for fid, f in cg.fns.items():
        if f["crate"] != "prqlc" or "/debug/" in f["file"] or "/cli/" in f["file"] or "/tests/" in f["file"]:
            continue
        for r in f["refs"]:
            if r["kind"] != "call" or not (r.get("def") or "").endswith("new_debug"):
                continue
            ty = r.get("full", "").split("new_debug::<", 1)[-1]
            hashy = bool(re.search(r"\bHash(Map|Set)\b", ty)) or any(re.search(r"(^|[^\w:])(\w+::)?" + re.escape(b) + r"\b", ty) for b in bearing)
            if not hashy:
                continue
            n_dbg += 1
            # which macro is the format string in? logging is not output
            sf = syn.fn_at(r["file"], r["l"])
            mac = None
            if sf and "body" in sf:
                cands = [n for n in walk(sf["body"]) if n.get("k") == "macro" and n["l"] <= r["l"] <= n.get("el", n["l"] + 12)]
                cands = [n for n in cands if any(isinstance(v, str) and "{" in v for v in strs(n))] or cands
                mac = max(cands, key=lambda n: n["l"])["n"] if cands else None
            if mac and (mac.startswith("log::") or mac in ("debug", "trace", "info", "warn", "eprintln", "dbg", "panic", "unreachable", "assert", "assert_eq", "debug_assert")):
                n_log += 1
                continue
            owner = cg.owner_fn(fid)["path"]
            if owner in DEBUG_PRINT_REVIEWED:
                rep.ok(f"debug-print:{owner}:reviewed", {"reviewed": DEBUG_PRINT_REVIEWED[owner]})
                continue
            key = f"debug-print:{owner}:{ty.rstrip('>')[-60:]}"
            if key in seen:
                continue
            seen.add(key)
            rep.bad(key, f"`{{:?}}` of `{ty.rstrip('>')[-90:]}` (macro `{mac}`) in {owner}: the value holds a HashMap / HashSet, whose Debug output lists the elements in the order of this "
                    "process's hash seed; the text is part of what the compiler returns", file=r["file"], line=r["l"], fn=owner)
    rep.check(n_dbg >= 5 and n_log >= 5, "sites", f"expected >= 5 debug-formatted hash-bearing values (most of them in log macros), found {n_dbg} ({n_log} in log / panic macros)")



def r9(ctx, rep):
    rep.rule("C11.R9", "source ids do not depend on the order in which the caller enumerates the files", floor=1)
    syn = ctx.syn
    f = syn.fn("SourceTree::new", crate="prqlc")
    prm = [p_["name"] for p_ in f.get("params", []) if isinstance(p_, dict)]
    # the loop (or chain) whose `enumerate()` index becomes the id
    enum = [n for n in walk(f["body"]) if n.get("k") == "mcall" and n["m"] == "enumerate"]
    ok, why = False, "no `.enumerate()` that numbers the sources was found"
    for e in enum:
        # follow the enumerated sequence back: method chain receivers and locals
        cur, seen_sort, steps = e["r"], False, 0
        while cur is not None and steps < 12:
            steps += 1
            k = cur.get("k")
            if k == "mcall":
                if cur["m"] in ("sorted", "sorted_by", "sorted_by_key", "sorted_unstable", "sorted_unstable_by", "sorted_unstable_by_key", "sorted_by_cached_key"):
                    seen_sort = True
                cur = cur["r"]
            elif k == "path" and "::" not in cur["p"]:
                name = cur["p"]
                if name in prm:
                    break
                # an in-place sort of the local between its definition and the loop
                if any(x.get("k") == "mcall" and x["m"] in ("sort", "sort_by", "sort_by_key", "sort_unstable", "sort_unstable_by", "sort_unstable_by_key", "sort_by_cached_key") and show(x["r"]) == name for x in walk(f["body"])):
                    seen_sort = True
                init = None
                for st in walk(f["body"]):
                    if st.get("k") == "local" and st["pat"].get("k") == "p_ident" and st["pat"]["n"] == name and st.get("init") is not None:
                        init = st["init"]
                        if "BTreeMap" in (st.get("ty") or "") or "BTreeMap" in show(st["init"], maxdepth=8):
                            seen_sort = True
                cur = init
            elif k in ("paren", "ref", "try"):
                cur = cur["e"]
            else:
                break
        ok = ok or seen_sort
        why = "the enumerated sequence is the caller's iterator as it comes (no sort by path in between)"
    rep.check(ok, "ids-by-sorted-path", f"SourceTree::new gives the n-th file of the iterator the id n: {why}. The CLI collects a directory into a HashMap first, so the ids - which are part of every span in "
              "`prqlc parse`, the debug log and the RQ / PL JSON - change from run to run", file=f["file"], line=f["l"], fn=f["path"])

def r10(ctx, rep):
    """An init-once cache (`static X: OnceLock<_>` + `X.get_or_init(|| ..)`, Lazy, OnceCell) keeps the value of its FIRST initialisation for
    the life of the process. If the initialiser reads a parameter or a local of the enclosing function, the first caller's argument decides
    what every later caller gets: the output depends on what was compiled before."""
    rep.rule("C11.R10", "the initialiser of an init-once cache reads no parameter or local of the function it stands in", floor=3)
    syn = ctx.syn
    n_sites = 0
    for f in syn.fns:
        if f["crate"] not in ("prqlc", "prqlc_parser") or "body" not in f or f.get("in_test"):
            continue
        local_names = {x["n"] for p_ in f.get("params", []) for x in walk(p_ if isinstance(p_, dict) else {}) if x.get("k") == "p_ident"}
        local_names |= {p_["name"] for p_ in f.get("params", []) if isinstance(p_, dict) and p_.get("name")}
        for n in walk(f["body"]):
            if n.get("k") == "local":
                local_names |= {x["n"] for x in walk(n["pat"]) if x.get("k") == "p_ident"}
        local_names -= {"self"}
        for n in walk(f["body"]):
            if not (n.get("k") == "mcall" and n["m"] in ("get_or_init", "get_or_try_init", "get_or_insert_with") and n["a"]):
                continue
            recv = show(n["r"])
            if not re.fullmatch(r"[A-Z][A-Z0-9_]*", recv):
                continue            # not a static (a field or a local cell lives as long as its owner)
            n_sites += 1
            init = n["a"][0]
            bound = set()
            if init.get("k") == "closure":
                bound = {x["n"] for p_ in init["params"] for x in walk(p_) if x.get("k") == "p_ident"}
                for x in walk(init["body"]):
                    if x.get("k") == "local":
                        bound |= {y["n"] for y in walk(x["pat"]) if y.get("k") == "p_ident"}
                    if x.get("k") == "closure":
                        bound |= {y["n"] for p_ in x["params"] for y in walk(p_) if y.get("k") == "p_ident"}
            used = {x["p"] for x in walk(init) if x.get("k") == "path" and "::" not in x["p"]}
            leak = sorted((used & local_names) - bound)
            rep.check(not leak, f"init-once:{f['path'].split('::', 1)[-1]}:{recv}", f"`{recv}.{n['m']}(..)` in {f['name']} initialises a process-wide cache from {leak} of the enclosing function: "
                      "the first call fixes the value for every later call with other arguments (compile for one dialect, then for another, in one process)", file=f["file"], line=n["l"], fn=f["path"])
    rep.check(n_sites >= 3, "sites", f"expected the keyword tables, the std library and the regex caches, found {n_sites} init-once caches")


def run(ctx, rep):
    for r in (r1_r2, r3, r4, r5, r6, r7, r8, r9, r10):
        rep.guard(r, ctx)
