"""C05 - result columns are exactly the final frame: names, count and order.

Decides:
  R1 arity by construction (closing Select and declared columns from one unzip; load_names asserts equal length)
  R2 helper sort columns are added to projections of CTEs only, never of the main relation
  R3 a limiting SELECT follows whenever the atomic select carries columns that were not requested
  R4 a dialect without column exclusion does not silently widen `*` (today it does: known finding)
  R5 a column whose SQL name differs from the expected name gets an alias
Not decided: the names a database reports for `*`; which names collide at run time.
"""
from synq import (walk, show, show_stmts, strs, last_seg, pat_alts, pat_head, tail_expr, matches_of, mcalls, calls,
                  macros, lit_val, AnchorMissing, walk_no_closure)
import flow

META = (
    "projection discipline",
    ["A1"],
    "control-dependence and must-pass-through rules on the syntax trees of lowering.rs, anchor.rs, postprocess.rs, "
    "gen_projection.rs, gen_expr.rs and context.rs",
    True,
)


def r1(ctx, rep):
    rep.rule("C05.R1", "the result has one column per frame column (arity by construction)", floor=3)
    syn = ctx.syn
    ps = syn.fn("Lowerer::push_select", crate="prqlc")
    un = [n for n in walk(ps["body"]) if n.get("k") == "local" and show(n["pat"]) == "(cols, cids)"]
    rep.check(bool(un) and show(un[0]["init"]) == "columns.into_iter().unzip()", "unzip", "the declared columns and the selected ids must come from one list", file=ps["file"], line=ps["l"], fn=ps["path"])
    # every frame column contributes exactly one push in the Single arm
    single = None
    for m in matches_of(ps["body"]):
        for arm in m["arms"]:
            if "LineageColumn::Single" in show(arm["pat"]):
                single = arm
    pushes = [n for n in walk(single["body"]) if n.get("k") == "mcall" and n["m"] == "push" and show(n["r"]) == "columns"] if single else []
    rep.check(len(pushes) == 1, "one-per-column", f"a named frame column must contribute exactly one result column; found {len(pushes)} pushes", file=ps["file"], line=single["l"] if single else ps["l"], fn=ps["path"])
    ln = syn.fn("AnchorContext::load_names", crate="prqlc")
    ok = any(m["n"] == "assert_eq" and [show(a) for a in m.get("a", [])][:2] == ["output_cids.len()", "output_cols.len()"] for m in macros(ln["body"]))
    rep.check(ok, "load_names-arity", "load_names must check that the pipeline's output columns and the declared columns have the same length before zipping names", file=ln["file"], line=ln["l"], fn=ln["path"])


def r2(ctx, rep):
    rep.rule("C05.R2", "helper sort columns never reach the main result", floor=2)
    syn = ctx.syn
    fs = [f for f in syn.fns if f["crate"] == "prqlc" and f.get("self_short") == "SortingInference" and f["name"] == "fold_sql_transforms"]
    if len(fs) != 1:
        raise AnchorMissing("SortingInference::fold_sql_transforms")
    f = fs[0]
    pushes = [n for n in walk(f["body"]) if n.get("k") == "mcall" and n["m"] == "push" and show(n["r"]) == "select"]
    import guards
    par = guards.parents(f["body"])
    for n in pushes:
        cur, ok = n, False
        while True:
            p = par.get(id(cur))
            if p is None:
                break
            if p.get("k") == "if" and show(p["c"]) == "!self.main_relation" and (p["t"] is cur or guards._contains(p["t"], cur)):
                ok = True
                break
            cur = p
        rep.check(ok, f"push-guarded:{n['l'] - f['l'] if False else len(pushes)}", "adding a sort key to a SELECT is allowed only under `if !self.main_relation` (CTEs): in the main relation it would appear as an extra result column",
                  file=f["file"], line=n["l"], fn=f["path"])
    rep.check(len(pushes) >= 1, "push-sites", "expected the CTE sort-key push in fold_sql_transforms", file=f["file"], line=f["l"], fn=f["path"])


def r3(ctx, rep):
    rep.rule("C05.R3", "unrequested columns of the atomic SELECT are cut off by a limiting SELECT", floor=2)
    syn = ctx.syn
    f = syn.fn("anchor::extract_atomic", crate="prqlc")
    ok = False
    for n in walk(f["body"]):
        if n.get("k") == "if" and show(n["c"], maxdepth=10) == "select_cols.iter().any(|c| !output.contains(c))":
            t = show_stmts(n["t"], maxdepth=10)
            ok = "let limited_view = vec!(SqlTransform::Super(Transform::Select(output)))" in t and "return anchor_split(ctx, atomic, limited_view)" in t
    rep.check(ok, "limiting-select", "when the atomic SELECT contains a column that is not in the requested output, a second SELECT of exactly the output must follow", file=f["file"], line=f["l"], fn=f["path"])
    rep.check(show(tail_expr(f["body"])) == "atomic", "otherwise-unchanged", "otherwise the atomic pipeline is returned as is", file=f["file"], line=f["l"], fn=f["path"])


def r4(ctx, rep):
    rep.rule("C05.R4", "`*` is not silently widened when columns cannot be excluded", floor=1)
    syn = ctx.syn
    f = syn.fn("gen_projection::translate_exclude", crate="prqlc")
    found = None
    for n in walk(f["body"]):
        if n.get("k") == "local" and n.get("else") is not None and "column_exclude()" in show(n.get("init"), maxdepth=6):
            rets = [r for r in walk(n["else"]) if r.get("k") == "return"]
            if rets and all(show(r.get("e")) == "None" for r in rets):
                found = n
    if found is not None:
        rep.bad("exclude-unsupported", "for a dialect without SELECT * EXCLUDE/EXCEPT translate_exclude logs a warning and returns None: the `*` then also returns the columns that should have been "
                "excluded (e.g. the helper `_expr_0` of `group d (take 3)`), i.e. extra result columns", file=f["file"], line=found["l"], fn=f["path"])
    else:
        rep.ok("exclude-unsupported")


def r5(ctx, rep):
    rep.rule("C05.R5", "a column whose SQL name differs from the expected name is aliased", floor=3)
    syn = ctx.syn
    f = syn.fn("gen_expr::translate_select_item", crate="prqlc")
    ok = False
    for n in f["body"]["s"]:
        if n.get("k") == "if" and show(n["c"]) == "(inferred_name != expected)":
            t = show_stmts(n["t"], maxdepth=10)
            ok = "return Ok(SelectItem::ExprWithAlias{alias: translate_ident_part(ident, ctx), expr: expr})" in t and "ctx.anchor.column_names.insert(cid, ident.to_string())" in t
    rep.check(ok, "alias-when-different", "when the name SQL would infer differs from the expected column name the item must be emitted `AS <expected>`", file=f["file"], line=f["l"], fn=f["path"])
    rep.check(show(tail_expr(f["body"])) == "Ok(SelectItem::UnnamedExpr(expr))", "bare-when-equal", "otherwise the expression is emitted bare", file=f["file"], line=f["l"], fn=f["path"])
    exp = [n for n in f["body"]["s"] if n.get("k") == "local" and show(n["pat"]) == "expected"]
    rep.check(bool(exp) and show(exp[0]["init"]) == "ctx.anchor.column_names.get(&cid)", "expected-name", "the expected name is the registered column name of that id", file=f["file"], line=f["l"], fn=f["path"])
    inf = [n for n in f["body"]["s"] if n.get("k") == "local" and show(n["pat"]) == "inferred_name"]
    ok = bool(inf) and "CompoundIdentifier" in " ".join(x["p"] for x in walk(inf[0]["init"]) if x.get("k") in ("p_ts", "p_path")) and any(x.get("k") == "mcall" and x["m"] == "last" and show(x["r"]) == "parts" for x in walk(inf[0]["init"]))
    rep.check(ok, "inferred-name", "the inferred name is the last part of a plain column reference (nothing for expressions)", file=f["file"], line=f["l"], fn=f["path"])


def run(ctx, rep):
    for r in (r1, r2, r3, r4, r5):
        rep.guard(r, ctx)
