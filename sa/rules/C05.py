"""C05 - result columns are exactly the final frame: names, count and order.

Decides:
  R1 arity by construction (closing Select and declared columns from one unzip; load_names asserts equal length)
  R2 helper sort columns are added to projections of CTEs only, never of the main relation
  R3 a limiting SELECT follows whenever the atomic select carries columns that were not requested
  R4 a dialect without column exclusion does not silently widen `*` (today it does: known finding)
  R5 a column whose SQL name differs from the expected name gets an alias
Not decided: the names a database reports for `*`; which names collide at run time.
"""
from synq import (walk, show, show_stmts, strs, last_seg, pat_alts, pat_head, tail_expr, matches_of, mcalls, calls,
                  macros, lit_val, AnchorMissing, walk_no_closure)
import flow

META = (
    "projection discipline",
    ["A1"],
    "control-dependence and must-pass-through rules on the syntax trees of lowering.rs, anchor.rs, postprocess.rs, "
    "gen_projection.rs, gen_expr.rs and context.rs",
    True,
)


def r1(ctx, rep):
    rep.rule("C05.R1", "the result has one column per frame column (arity by construction)", floor=3)
    syn = ctx.syn
    ps = syn.fn("Lowerer::push_select", crate="prqlc")
    import C16
    shp = C16.push_select_shape(syn)
    rep.check(shp["ok_unzip"], "unzip", "the declared columns and the selected ids must come from one list", file=ps["file"], line=ps["l"], fn=ps["path"])
    # every frame column contributes exactly one push in the Single arm
    single = None
    for m in matches_of(ps["body"]):
        for arm in m["arms"]:
            if "LineageColumn::Single" in show(arm["pat"]):
                single = arm
    pushes = [n for n in walk(single["body"]) if n.get("k") == "mcall" and n["m"] == "push" and show(n["r"]) == shp["list"]] if single else []
    rep.check(len(pushes) == 1, "one-per-column", f"a named frame column must contribute exactly one result column; found {len(pushes)} pushes", file=ps["file"], line=single["l"] if single else ps["l"], fn=ps["path"])
    ln = syn.fn("AnchorContext::load_names", crate="prqlc")
    ok = any(m["n"] == "assert_eq" and [show(a) for a in m.get("a", [])][:2] == ["output_cids.len()", "output_cols.len()"] for m in macros(ln["body"]))
    rep.check(ok, "load_names-arity", "load_names must check that the pipeline's output columns and the declared columns have the same length before zipping names", file=ln["file"], line=ln["l"], fn=ln["path"])


def r2(ctx, rep):
    rep.rule("C05.R2", "helper sort columns never reach the main result", floor=2)
    syn = ctx.syn
    fs = [f for f in syn.fns if f["crate"] == "prqlc" and f.get("self_short") == "SortingInference" and f["name"] == "fold_sql_transforms"]
    if len(fs) != 1:
        raise AnchorMissing("SortingInference::fold_sql_transforms")
    f = fs[0]
    pushes = [n for n in walk(f["body"]) if n.get("k") == "mcall" and n["m"] == "push" and show(n["r"]) == "select"]
    import guards
    par = guards.parents(f["body"])
    for n in pushes:
        cur, ok = n, False
        while True:
            p = par.get(id(cur))
            if p is None:
                break
            if p.get("k") == "if" and show(p["c"]) == "!self.main_relation" and (p["t"] is cur or guards._contains(p["t"], cur)):
                ok = True
                break
            cur = p
        rep.check(ok, f"push-guarded:{n['l'] - f['l'] if False else len(pushes)}", "adding a sort key to a SELECT is allowed only under `if !self.main_relation` (CTEs): in the main relation it would appear as an extra result column",
                  file=f["file"], line=n["l"], fn=f["path"])
    rep.check(len(pushes) >= 1, "push-sites", "expected the CTE sort-key push in fold_sql_transforms", file=f["file"], line=f["l"], fn=f["path"])
    # a key pushed into a CTE's projection is invisible to the consumers' `*` bookkeeping (translate_wildcards works from
    # original_cids) unless the id is also recorded somewhere: it must flow to a second sink in the same block
    for n in pushes:
        blk = par.get(id(n))
        while blk is not None and blk.get("k") != "block":
            blk = par.get(id(blk))
        arg = show(n["a"][0]) if n["a"] else "?"
        others = []
        for st in (blk or {}).get("s", []):
            if st is n:
                continue
            if st.get("k") == "macro" and st["n"].startswith("log"):
                continue
            if any(x.get("k") == "path" and x["p"] == arg for x in walk(st)):
                others.append(show(st, maxdepth=5))
        rep.check(bool(others), "sort-key-leaks-through-star", f"`select.push({arg})` adds a helper sort column to a CTE and records it nowhere else: a consumer that selects `*` from that CTE "
                  "returns the helper as an extra result column, also on dialects with SELECT * EXCLUDE", file=f["file"], line=n["l"], fn=f["path"])


def r3(ctx, rep):
    rep.rule("C05.R3", "unrequested columns of the atomic SELECT are cut off by a limiting SELECT", floor=2)
    syn = ctx.syn
    f = syn.fn("anchor::extract_atomic", crate="prqlc")
    import alpha
    import re
    import boolfn
    A1 = alpha.Inliner(f, max_inline=1)
    A = alpha.Inliner(f)
    # the value of the function as a decision on "every selected column is part of the requested output" - an `any(!contains)` with an early return,
    # an `all(contains)` with if / else, a named boolean .. - evaluated for both answers
    seen = {}

    def atom_for(all_selected):
        def atom(t):
            u = t.replace(" ", "").replace("(", "").replace(")", "")
            m = re.fullmatch(r"(\w+)\.iter\.(any|all)\|(\w+)\|(!?)(\w+)\.contains\3", u)
            if not m:
                return None
            seen["out"] = m.group(5)
            if m.group(2) == "any" and m.group(4) == "!":
                return not all_selected
            if m.group(2) == "all" and m.group(4) == "":
                return all_selected
            return None
        return atom
    ok = unchanged = False
    try:
        leaf_all = boolfn.leaf(f["body"], atom_for(True), A)
        leaf_not = boolfn.leaf(f["body"], atom_for(False), A)
        out = seen.get("out")
        unchanged = show(leaf_all) == "atomic"
        ok = out is not None and re.fullmatch(r"anchor_split\(ctx, \w+, vec!\(SqlTransform::Super\(Transform::Select\(" + out + r"\)\)\)\)", A1.show(leaf_not)) is not None
    except boolfn.Unknown:
        pass
    rep.check(ok, "limiting-select", "when the atomic SELECT contains a column that is not in the requested output, a second SELECT of exactly the output must follow", file=f["file"], line=f["l"], fn=f["path"])
    rep.check(unchanged, "otherwise-unchanged", "otherwise the atomic pipeline is returned as is", file=f["file"], line=f["l"], fn=f["path"])


def r4(ctx, rep):
    rep.rule("C05.R4", "`*` is not silently widened when columns cannot be excluded", floor=1)
    syn = ctx.syn
    f = syn.fn("gen_projection::translate_exclude", crate="prqlc")
    found = None
    for n in walk(f["body"]):
        if n.get("k") == "local" and n.get("else") is not None and "column_exclude()" in show(n.get("init"), maxdepth=6):
            rets = [r for r in walk(n["else"]) if r.get("k") == "return"]
            if rets and all(show(r.get("e")) == "None" for r in rets):
                found = n
    if found is not None:
        rep.bad("exclude-unsupported", "for a dialect without SELECT * EXCLUDE/EXCEPT translate_exclude logs a warning and returns None: the `*` then also returns the columns that should have been "
                "excluded (e.g. the helper `_expr_0` of `group d (take 3)`), i.e. extra result columns", file=f["file"], line=found["l"], fn=f["path"])
    else:
        rep.ok("exclude-unsupported")


def r5(ctx, rep):
    rep.rule("C05.R5", "a column whose SQL name differs from the expected name is aliased", floor=3)
    syn = ctx.syn
    f = syn.fn("gen_expr::translate_select_item", crate="prqlc")
    import alpha
    import guards
    A = alpha.Inliner(f, max_inline=1)
    par = guards.parents(f["body"])

    def resolved(e):
        if e.get("k") == "path" and "::" not in e["p"]:
            i = A._init_of(e, e["p"])
            return i if i is not None else e
        return e

    def is_name_test(c):
        """(op) if `c` compares the registered name of the id with the name SQL infers"""
        while c.get("k") == "paren":
            c = c["e"]
        if c.get("k") != "bin" or c["op"] not in ("!=", "=="):
            return None
        nodes = [resolved(c["lhs"]), resolved(c["rhs"])]
        exp = [x for x in nodes if show(x) == "ctx.anchor.column_names.get(&cid)"]
        inf = [x for x in nodes if any(y.get("k") in ("p_ts", "p_path", "path") and "CompoundIdentifier" in y.get("p", "") for y in walk(x))
               and any(y.get("k") == "mcall" and y["m"] == "last" for y in walk(x))]
        return c["op"] if len(exp) == 1 and len(inf) == 1 else None

    def branch_of(node):
        """'differs' / 'equal' / None: the side of the name test the node is on (then/else of `!=` or `==`; code after an `if .. { return }` is on the other side)"""
        cur = node
        while id(cur) in par:
            p_ = par[id(cur)]
            if p_.get("k") == "if":
                op = is_name_test(p_["c"])
                if op:
                    in_then = p_.get("t") is cur or guards._contains(p_.get("t"), cur)
                    return "differs" if (op == "!=") == in_then else "equal"
            if p_.get("k") == "block":
                idx = next((i for i, st in enumerate(p_["s"]) if st is cur or guards._contains(st, cur)), None)
                for st in p_["s"][:idx or 0]:
                    if st.get("k") == "if" and st.get("e") is None and is_name_test(st["c"]) and any(r.get("k") == "return" for r in walk(st["t"])):
                        return "equal" if is_name_test(st["c"]) == "!=" else "differs"
            cur = p_
        return None
    alias = [n for n in walk(f["body"]) if n.get("k") == "struct" and n["p"].endswith("SelectItem::ExprWithAlias")]
    bare = [n for n in walk(f["body"]) if n.get("k") == "call" and show(n["f"]).endswith("SelectItem::UnnamedExpr")]
    ins = [n for n in walk(f["body"]) if n.get("k") == "mcall" and n["m"] == "insert" and show(n["r"]).endswith("column_names")]
    cond_ok = any(is_name_test(n["c"]) for n in walk(f["body"]) if n.get("k") == "if")
    ok = len(alias) == 1 and branch_of(alias[0]) == "differs" and bool(ins) and all(branch_of(i) == "differs" for i in ins) \
        and "translate_ident_part(" in A.show(dict(alias[0]["f"]).get("alias"))
    rep.check(ok, "alias-when-different", "when the name SQL would infer differs from the expected column name the item must be emitted `AS <expected>` and the name registered", file=f["file"], line=f["l"], fn=f["path"])
    rep.check(len(bare) == 1 and branch_of(bare[0]) == "equal", "bare-when-equal", "otherwise (names equal) the expression is emitted bare", file=f["file"], line=f["l"], fn=f["path"])
    rep.check(cond_ok, "expected-name", "the test must compare the registered column name of the id (`ctx.anchor.column_names.get(&cid)`) with the name SQL infers "
              "(the last part of a plain column reference, nothing for expressions)", file=f["file"], line=f["l"], fn=f["path"])


def r6(ctx, rep):
    rep.rule("C05.R6", "a pending star's exclusion set is recorded before the star is replaced and before the list is returned", floor=2)
    syn = ctx.syn
    f = syn.fn("gen_projection::translate_wildcards", crate="prqlc")

    def is_flush(n):
        return n.get("k") == "call" and last_seg(show(n["f"])) == "exclude" and n["a"] and "star" in show(n["a"][0])

    n_assign = 0
    for blk in walk(f["body"]):
        if blk.get("k") != "block":
            continue
        for i, st in enumerate(blk["s"]):
            if st.get("k") == "assign" and show(st["lhs"]) == "star":
                n_assign += 1
                before = blk["s"][:i]
                fl = [j for j, b in enumerate(before) if is_flush(b)]
                ok = bool(fl) and not any(b.get("k") == "assign" and show(b["lhs"]) == "star" for b in before[fl[-1] + 1:])
                rep.check(ok, f"flush-before-replace:{n_assign}", "`star = Some(..)` replaces the pending star: its remaining columns (`in_star`) must first be recorded with `exclude(&mut star, &mut excluded)`, "
                          "otherwise `a.* EXCLUDE (x), b.*` is emitted as `a.*, b.*` and the excluded column reappears", file=f["file"], line=st["l"], fn=f["path"])
    rep.check(n_assign >= 1, "replace-sites", f"expected the `star = Some(..)` replacement in translate_wildcards, found {n_assign}", file=f["file"], line=f["l"], fn=f["path"])
    body = f["body"]["s"]
    tail_i = max(i for i, st in enumerate(body) if st.get("k") in ("tuple", "return") or i == len(body) - 1)
    rep.check(any(is_flush(b) for b in body[max(0, tail_i - 2):tail_i]), "flush-before-return", "the last pending star must be recorded right before `(output, excluded)` is returned", file=f["file"], line=f["l"], fn=f["path"])


def r7(ctx, rep):
    rep.rule("C05.R7", "`select !{..}` removes a known column only when the whole qualified identifier matches", floor=1)
    syn = ctx.syn
    f = syn.fn("Lineage::apply_assign", crate="prqlc")
    found = 0
    for m in matches_of(f["body"]):
        if show(m["e"]) != "e":
            continue
        for arm in m["arms"]:
            if not show(arm["pat"]).startswith("LineageColumn::Single"):
                continue
            b = arm["body"]
            if b.get("k") == "block":
                b = tail_expr(b)
            found += 1

            def base(x):
                while x is not None and x.get("k") in ("mcall", "ref", "paren", "un") and (x.get("k") != "mcall" or x["m"] in ("as_ref", "clone", "as_deref")):
                    x = x["r"] if x.get("k") == "mcall" else x["e"]
                return x
            ok = b is not None and b.get("k") == "bin" and b["op"] == "==" and base(b["lhs"]).get("k") == "path" and base(b["rhs"]).get("k") == "path" \
                and {show(base(b["lhs"])), show(base(b["rhs"]))} == {"name", "e_name"}
            rep.check(ok, "exclude:single-vs-single", f"an excluded column must match the column's whole identifier (`name == e_name`, input name included); found `{show(b, maxdepth=8)}`: "
                      "comparing a part of it (the bare column name) also removes the same-named column of the other join input", file=f["file"], line=arm["l"], fn=f["path"])
    rep.check(found == 1, "exclude:site", f"expected one Single-vs-Single comparison in the exclusion closure of apply_assign, found {found}", file=f["file"], line=f["l"], fn=f["path"])


def r8(ctx, rep):
    rep.rule("C05.R8", "select items are de-duplicated by their whole (qualified) identifier, never by a part of it", floor=2)
    syn = ctx.syn
    f = syn.fn("gen_projection::deduplicate_select_items", crate="prqlc")
    n_ins = 0
    # (the key may be computed in a private helper of the same file that the function calls: `Some(<key>)` there, `seen.insert(key)` here)
    helpers = [h for h in syn.fns if h["crate"] == "prqlc" and h["file"] == f["file"] and "body" in h and h["path"] != f["path"]
               and any(c.get("k") == "call" and last_seg(show(c["f"])) == h["name"] for c in walk(f["body"]))]
    for m in [m_ for g_ in [f] + helpers for m_ in matches_of(g_["body"])]:
        for arm in m["arms"]:
            pt = show(arm["pat"], maxdepth=8)
            if "CompoundIdentifier" not in pt:
                continue
            bound = [n["n"] for n in walk(arm["pat"]) if n.get("k") == "p_ident"]
            for n in walk(arm["body"]):
                is_key = (n.get("k") == "mcall" and n["m"] == "insert" and n["a"]) or (n.get("k") == "call" and show(n["f"]) == "Some" and n["a"])
                if is_key:
                    n_ins += 1
                    a = n["a"][0]
                    while a.get("k") == "mcall" and a["m"] in ("clone", "to_vec", "to_owned"):
                        a = a["r"]
                    whole = a.get("k") == "path" and a["p"] in bound
                    rep.check(whole, "dedupe-key:compound", f"`{show(n, maxdepth=6)}`: the key under which a `table.column` item counts as already selected must be the whole identifier ({bound}); "
                              "a key made of its parts drops `y.b` after `x.a, x.b, y.a`", file=f["file"], line=n["l"], fn=f["path"])
    # the de-duplication itself: two selected columns with the same identifier are merged into one
    users = [g["path"] for g in syn.fns if g["crate"] == "prqlc" and "body" in g and g["path"] != f["path"]
             and any(c.get("k") == "call" and last_seg(show(c["f"])) == "deduplicate_select_items" for c in walk(g["body"]))]
    rep.check(not users, "dedupe-merges-same-name", f"{users} pass the projection through deduplicate_select_items, which drops every item whose identifier was already selected: "
              "`select {a, a}` returns ONE column", file=f["file"], line=f["l"], fn=f["path"])
    rep.check(n_ins >= 1, "dedupe-key:site", f"expected the `seen.insert(..)` of the CompoundIdentifier arm in deduplicate_select_items, found {n_ins}", file=f["file"], line=f["l"], fn=f["path"])


def r9(ctx, rep):
    rep.rule("C05.R9", "column names taken from a relation's definition keep their position (never collected into a value-ordered or hashed container)", floor=2)
    syn = ctx.syn
    n = 0
    for name in ("lowering::try_extract_sql_columns", "lowering::tuple_fields_to_relation_columns"):
        fs = syn.find_fns(name, crate="prqlc")
        if len(fs) != 1:
            rep.bad(f"order:{name}", f"{name} not found")
            continue
        f = fs[0]
        n += 1
        bad = []
        for x in walk(f["body"]):
            if x.get("k") == "mcall" and x["m"] in ("sorted", "sorted_by", "sorted_by_key", "sort", "sort_by", "sort_by_key", "sort_unstable", "rev"):
                bad.append(f".{x['m']}()")
            if x.get("k") == "mcall" and x["m"] == "collect" and any(w in (x.get("tf") or "") for w in ("BTreeSet", "BTreeMap", "HashSet", "HashMap")):
                bad.append(f".collect::<{x['tf']}>()")
            if x.get("k") == "local" and any(w in (x.get("ty") or "") for w in ("BTreeSet", "BTreeMap", "HashSet", "HashMap")) and "has_" not in show(x["pat"]):
                bad.append(f"let {show(x['pat'])}: {x.get('ty')}")
        rep.check(not bad, f"order:{name}", f"{name} passes the relation's column names through {bad}: the columns of the relation are then exposed in that container's order, not in the order of the definition "
                  "(`from s\"SELECT z, c, m FROM t\"` gave c, m, z)", file=f["file"], line=f["l"], fn=f["path"])


def r10(ctx, rep):
    # rules owned by other properties whose violation removes or adds result columns
    import C01
    import C16
    rep.borrowed(C01.r7, ctx, "C05.R10", "a join rewritten into a set operation keeps only the top's columns", only=r"bottom-unused")
    rep.borrowed(C16.r8, ctx, "C05.R11", "an exclusion `select !{t.x}` applies to the input of that alias only", only=r"^qualifier:")


ORDER_BREAKING = {"retain", "retain_mut", "remove", "swap_remove", "drain", "dedup", "dedup_by", "dedup_by_key", "sort", "sort_by", "sort_by_key", "sort_unstable", "sort_unstable_by",
                  "sort_unstable_by_key", "reverse", "insert", "rotate_left", "rotate_right", "swap", "extract_if"}


def r12(ctx, rep):
    rep.rule("C05.R12", "a star absorbs only the columns standing directly before it, and carries its exclusions whether or not it is qualified", floor=3)
    from alpha import Inliner
    syn = ctx.syn
    f = syn.fn("gen_projection::translate_wildcards", crate="prqlc")
    # role anchor: the Vec that is the first component of the returned pair
    t = tail_expr(f["body"])
    out_name = show(t["e"][0]) if t is not None and t.get("k") == "tuple" and t.get("e") else None
    if out_name is None:
        raise AnchorMissing("translate_wildcards: returned (columns, excluded) pair")
    muts = sorted({n["m"] for n in walk(f["body"]) if n.get("k") == "mcall" and show(n["r"]) == out_name and n["m"] in ORDER_BREAKING})
    rep.check(not muts, "star-absorbs-adjacent", f"translate_wildcards edits the output list `{out_name}` with {muts}: a column of the star's relation is dropped from the list only while it stands directly "
              "before the star (popped from the end); removing it from anywhere moves the columns between them: `select {t.a, u.b, t.*}` would come out as `u.b, t.a, t.*`",
              file=f["file"], line=f["l"], fn=f["path"])
    pops = [n for n in walk(f["body"]) if n.get("k") == "mcall" and show(n["r"]) == out_name and n["m"] in ("pop", "truncate", "split_off")]
    rep.check(len(pops) >= 1, "star-absorbs-from-end", f"expected the preceding columns of a star to be taken from the end of `{out_name}` (pop / truncate), found {len(pops)} such call(s)",
              file=f["file"], line=f["l"], fn=f["path"])
    g = syn.fn("gen_projection::translate_select_items", crate="prqlc")
    file_fns = [h for h in syn.fns if h["crate"] == "prqlc" and h["file"] == g["file"] and "body" in h]

    def from_exclusions(fn_, arg, depth=0):
        """does the value `arg` (in fn_) come from `excluded.remove(..)` through translate_exclude - directly, or as a parameter that every caller in this file fills that way?"""
        txt = Inliner(fn_, maxdepth=14, max_inline=4).show(arg)
        if "translate_exclude(" in txt and ".remove(" in txt:
            return True
        prm = [show(x.get("pat", x)).split(":")[0].strip() if isinstance(x, dict) else str(x).split(":")[0].strip() for x in fn_.get("params", [])]
        if depth < 2 and arg.get("k") == "path" and arg["p"] in prm:
            pos = prm.index(arg["p"])
            sites = [(h, c) for h in file_fns for c in walk(h["body"]) if c.get("k") == "call" and last_seg(show(c["f"])) == fn_["name"] and len(c["a"]) == len(prm)]
            return bool(sites) and all(from_exclusions(h, c["a"][pos], depth + 1) for h, c in sites)
        return False
    n_star = 0
    for h in file_fns:
        for n in walk(h["body"]):
            if n.get("k") == "call" and last_seg(show(n["f"])) in ("Wildcard", "QualifiedWildcard") and "SelectItem" in show(n["f"]):
                n_star += 1
                rep.check(from_exclusions(h, n["a"][-1]), f"star-options:{last_seg(show(n['f']))}", f"`{show(n['f'])}` in {h['name']} is built with options `{show(n['a'][-1], maxdepth=6)[:120]}`: the exclusion set "
                          "recorded for this star (`excluded.remove(&cid)` -> translate_exclude) must reach both the bare `*` and the qualified `t.*`, otherwise `select !{t1.a}` after a join emits "
                          "`t1.*, t2.*` and the column is back", file=h["file"], line=n["l"], fn=h["path"])
    rep.check(n_star == 2, "star-constructors", f"expected SelectItem::Wildcard and SelectItem::QualifiedWildcard in gen_projection.rs, found {n_star}", file=g["file"], line=g["l"], fn=g["path"])


def r13(ctx, rep):
    rep.rule("C05.R13", "the column list extracted from an s-string relation is complete or not used at all", floor=2)
    syn = ctx.syn
    f = syn.fn("lowering::try_extract_sql_columns", crate="prqlc")
    # role anchor: the chain over the parsed statement's `.projection`
    chains = []
    for n in walk(f["body"]):
        if n.get("k") == "mcall":
            names, cur = [], n
            while cur.get("k") == "mcall":
                names.append((cur["m"], cur.get("tf", "")))
                cur = cur["r"]
            if cur.get("k") == "field" and cur.get("f") == "projection" and names and names[0][0] in ("collect", "try_collect", "collect_vec"):
                chains.append((n, list(reversed(names))))
    rep.check(len(chains) >= 1, "projection-chain", f"expected the iterator chain over `select_stmt.projection` in try_extract_sql_columns, found {len(chains)}", file=f["file"], line=f["l"], fn=f["path"])
    dropping = {"filter_map", "flatten", "filter", "flat_map", "skip", "take", "step_by", "skip_while", "take_while", "map_while", "ok", "flatten_ok", "filter_ok"}
    for n, names in chains:
        used = [m_ for m_, _ in names if m_ in dropping]
        fallible = names[-1][0] == "try_collect" or "Result" in str(names[-1][1])
        rep.check(not used and fallible, "all-or-nothing", f"the select items of the s-string are turned into column names through `.{'.'.join(m_ for m_, _ in names)}`: an item that has no name (an un-aliased "
                  f"expression, a wildcard) must abort the extraction (`collect::<Result<..>>`), not be skipped ({used}); with a partial list the relation is declared with fewer columns than it has and "
                  "`from s\"SELECT dept, MAX(salary) ..\"` loses a result column", file=f["file"], line=n["l"], fn=f["path"])


def r14(ctx, rep):
    """`determine_select_columns` says which columns a pipeline yields, by its last transform: every SELECT list, every split and the result
    columns themselves start from it."""
    import re
    rep.rule("C05.R14", "the frame of a pipeline by its last transform: From = the relation's columns in order; Join = the frame so far, then the joined relation's columns; "
             "Select = its list; Aggregate = keys then aggregates; anything else = the frame of what precedes", floor=5)
    syn = ctx.syn
    f = syn.fn("AnchorContext::determine_select_columns", crate="prqlc")
    loc = dict(file=f["file"], fn=f["path"])
    # role: the (last, rest) pair of `split_last()`
    last = rest = None
    for n in walk(f["body"]):
        # `if let Some((last, rest)) = pipeline.split_last()`, `let Some((last, rest)) = .. else`, or `match pipeline.split_last() { Some((last, rest)) => .. }`
        pats = []
        if n.get("k") in ("let", "local") and "split_last" in show(n.get("e") or n.get("init") or {}, maxdepth=6):
            pats = [n["pat"]]
        elif n.get("k") == "match" and "split_last" in show(n["e"], maxdepth=6):
            pats = [a_["pat"] for a_ in n["arms"]]
        for p_ in pats:
            names = [x["n"] for x in walk(p_) if x.get("k") == "p_ident" and not x["n"][0].isupper()]
            if len(names) == 2:
                last, rest = names
    if last is None:
        raise AnchorMissing("determine_select_columns: `(last, rest) = pipeline.split_last()`")
    m = next((m for m in matches_of(f["body"]) if show(m["e"]).lstrip("*&") == last), None)
    if m is None:
        raise AnchorMissing("determine_select_columns: match over the last transform")
    rec = f"self.determine_select_columns({rest})"
    seen = set()
    for a in m["arms"]:
        alts = pat_alts(a["pat"])
        body = a["body"]
        t = show_stmts(body, maxdepth=12) if body.get("k") == "block" else show(body, maxdepth=12)
        heads = []
        for alt in alts:
            vs = [last_seg(x["p"]) for x in walk(alt) if x.get("k") in ("p_ts", "p_struct", "p_path") and last_seg(x["p"]) in ("From", "Join", "Select", "Aggregate")]
            heads.append(vs[-1] if vs else ("_" if alt.get("k") == "p_wild" else "?"))
        for h in heads:
            seen.add(h)
            bound = [x["n"] for alt in alts for x in walk(alt) if x.get("k") == "p_ident"] + [x[0] for alt in alts for y in walk(alt) if y.get("k") == "p_struct" for x in y["f"]]
            if h == "From":
                ok = re.search(r"\.table_ref\.columns\.iter\(\)\.map\(\|\(_, (\w+)\)\| \*\1\)\.collect", t) is not None and not re.search(r"\.(rev|sorted|sort|skip|take|filter|dedup|unique)\w*\(", t)
                rep.check(ok, "frame:From", f"a pipeline ending in From yields the ids of the relation's columns, all of them, in order; found `{t[:160]}`", line=a["l"], **loc)
            elif h == "Join":
                first = re.search(r"let (?:mut )?(\w+) = " + re.escape(rec), t)
                ok = first is not None and re.search(re.escape(first.group(1)) + r"\.extend\((\w+)\.iter\(\)\.map\(\|\(_, (\w+)\)\| \*\2\)\)", t) is not None \
                    and t.rstrip().rstrip("}").rstrip().endswith(first.group(1)) and not re.search(r"\.(insert|splice|rev|sort|dedup|retain|truncate)\w*\(", t) if first else False
                rep.check(ok, "frame:Join", f"a pipeline ending in Join yields the frame of what precedes, extended by the joined relation's columns (left first, nothing removed); found `{t[:200]}`", line=a["l"], **loc)
            elif h == "Select":
                ok = len(bound) >= 1 and t.replace(" ", "") in (f"{bound[0]}.clone()", f"{bound[0]}.to_vec()")
                rep.check(ok, "frame:Select", f"a pipeline ending in Select yields exactly its list; found `{t[:120]}`", line=a["l"], **loc)
            elif h == "Aggregate":
                ok = re.sub(r"\s", "", t) in ("[partition.clone(),compute.clone()].concat()",) or re.fullmatch(r"partition\.iter\(\)\.chain\((&?compute|compute\.iter\(\))\)\.(cloned|copied)\(\)\.collect\w*\(\)", re.sub(r"\s", "", t)) is not None
                rep.check(ok, "frame:Aggregate", f"a pipeline ending in Aggregate yields the group keys, then the aggregates; found `{t[:120]}`", line=a["l"], **loc)
            elif h == "_":
                rep.check(t.strip() == rec, "frame:other", f"any other transform leaves the frame to what precedes (`{rec}`); found `{t[:120]}`", line=a["l"], **loc)
    rep.check({"From", "Join", "Select", "Aggregate", "_"} <= seen, "frame:arms", f"determine_select_columns decides by From / Join / Select / Aggregate / other; found arms {sorted(seen)}", line=f["l"], **loc)


def r15(ctx, rep):
    """The positional mapping that re-orders the columns of an `append` operand is per relation instance. `activate_mapping(riid)` decides
    it for the instance being compiled - including "none": an instance without a stored mapping must switch the previous one off, or
    the next sub-query is projected through the mapping of an unrelated append (columns permuted and cut to its length)."""
    import re
    rep.rule("C05.R15", "activate_mapping sets the active positional mapping on every path, to the looked-up value or to none", floor=1)
    syn = ctx.syn
    f = next((g for g in syn.fns if g["crate"] == "prqlc" and g["file"].endswith("positional_mapping.rs") and g["name"] == "activate_mapping" and "body" in g), None)
    if f is None:
        raise AnchorMissing("PositionalMapper::activate_mapping")
    prm = [x["n"] for p_ in f["params"] for x in walk(p_) if x.get("k") == "p_ident" and x["n"] != "self"]
    top = [st for st in f["body"].get("s", []) if st.get("k") == "assign" and re.search(r"active\w*mapping$", show(st["lhs"]))]
    nested = [n for n in walk(f["body"]) if n.get("k") == "assign" and re.search(r"active\w*mapping$", show(n["lhs"])) and not any(n is t for t in top)]
    ok = len(top) == 1 and not nested and prm and re.search(r"\.(remove|get)\(&?" + re.escape(prm[0]) + r"\)", show(top[0]["rhs"], maxdepth=8)) is not None
    # or: both branches of one top-level if / match assign it (Some(..) and None)
    if not ok and not top:
        for st in f["body"].get("s", []):
            if st.get("k") == "if" and st.get("e") is not None:
                a_t = [n for n in walk(st["t"]) if n.get("k") == "assign" and re.search(r"active\w*mapping$", show(n["lhs"]))]
                a_e = [n for n in walk(st["e"]) if n.get("k") == "assign" and re.search(r"active\w*mapping$", show(n["lhs"]))]
                ok = ok or (len(a_t) == 1 and len(a_e) == 1)
            if st.get("k") == "match" and all(any(n.get("k") == "assign" and re.search(r"active\w*mapping$", show(n["lhs"])) for n in walk(a_["body"])) for a_ in st["arms"]):
                ok = True
    rep.check(ok, "activate:every-path", f"activate_mapping must assign the active mapping unconditionally from the stored mapping of `{prm[0] if prm else '?'}` "
              f"(found {len(top)} top-level and {len(nested)} conditional assignment(s)): an instance without a mapping must clear the one left by the previous append operand",
              file=f["file"], line=f["l"], fn=f["path"])


def r16(ctx, rep):
    """The frame of `append` takes its column names position by position: the top's name, and where the top column has none (an un-aliased
    expression) the bottom's. Dropping the second half leaves a column of the result without the name the frame promises."""
    import re
    rep.rule("C05.R16", "append: a merged column is named after the top column, else after the bottom column at the same position, else not at all", floor=3)
    syn = ctx.syn
    f = syn.fn("transforms::append", crate="prqlc")
    loc = dict(file=f["file"], fn=f["path"])
    arm = None
    for m in matches_of(f["body"]):
        for a in m["arms"]:
            singles = [x for x in walk(a["pat"]) if x.get("k") == "p_struct" and last_seg(x["p"]) == "Single"]
            if len(singles) == 2 and a["pat"].get("k") == "p_tuple":
                arm, top_p, bot_p = a, singles[0], singles[1]
    if arm is None:
        raise AnchorMissing("append: the arm that merges two LineageColumn::Single")
    def bound(p_, field):
        d = {x[0]: x[1] for x in p_["f"]}
        v = d.get(field)
        return v.get("n") if isinstance(v, dict) and v.get("k") == "p_ident" else None
    nt, nb = bound(top_p, "name"), bound(bot_p, "name")
    rep.check(bool(nt) and bool(nb), "append:both-names-read", f"the merging arm binds the name of the top column ({nt}) and of the bottom column ({nb}): a name that is not read cannot be given to the result", line=arm["l"], **loc)
    if not (nt and nb):
        return
    # the decision over (top name, bottom name)
    table = {}
    for m in matches_of(arm["body"]):
        if show(m["e"]).replace(" ", "") != f"({nt},{nb})":
            continue
        for a in m["arms"]:
            names = [show(dict(x["f"]).get("name")) for x in walk(a["body"]) if x.get("k") == "struct" and last_seg(x["p"]) == "Single" and "name" in dict(x["f"])]
            for alt in pat_alts(a["pat"]):
                key = re.sub(r"Some\(\w+\)", "Some", show(alt).replace(" ", ""))
                bnd = re.findall(r"Some\((\w+)\)", show(alt))
                table[key] = (names[0] if names else None, bnd)
    want_none = table.get("(None,None)", (None,))[0] == "None"
    nn = table.get("(None,Some)")
    want_bottom = nn is not None and nn[1] and nn[0] == f"Some({nn[1][0]})"
    st = table.get("(Some,_)") or table.get("(Some,None)")
    want_top = st is not None and st[1] and st[0] == f"Some({st[1][0]})"
    rep.check(want_bottom, "append:unnamed-top-takes-bottom-name", f"for (top unnamed, bottom named) the merged column takes the bottom's name (decision table found: {table}): "
              "`select {x + 1, y} | append (.. select {k = .., y = ..})` otherwise yields a first column without the name `k`", line=arm["l"], **loc)
    rep.check(want_top and want_none, "append:top-name-first", f"a named top column keeps its name, two unnamed columns stay unnamed (decision table found: {table})", line=arm["l"], **loc)


def run(ctx, rep):
    for r in (r1, r2, r3, r4, r5, r6, r7, r8, r9, r10, r12, r13, r14, r15, r16):
        rep.guard(r, ctx)
