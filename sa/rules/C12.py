"""C12 - no input makes a public entry point panic, abort or hang.

Decides (classed inventory over the resolved program):
  R1 every panic-capable site (unwrap/expect/panic!/unreachable!/todo!/assert!, indexing, Vec::remove/insert/
     drain, MIR bounds / div-by-zero asserts) of the two library crates belongs to a reviewed class
     (file, callee class, receiver step) and the class has not grown
  R2 recursion over input-sized structures has a depth guard (none today: known finding), and the set of
     directly self-recursive functions is the reviewed one
  R3 the staged entry points validate documents before stages that rely on closed-RQ / resolved-PL invariants
  R4 errors are not silently dropped (`let _ =` / `.ok()` on the crates' own Result)
Not decided: time bounds, termination of loops, stack depth in numbers.
"""
import json
import os
import re

from synq import (walk, show, show_stmts, strs, last_seg, pat_alts, pat_head, tail_expr, matches_of, mcalls, calls,
                  macros, lit_val, AnchorMissing, walk_no_closure)
import panics
import C11

ROOT = os.path.dirname(os.path.dirname(os.path.dirname(os.path.abspath(__file__))))

META = (
    "classed inventory of panic-capable sites and recursion",
    ["A1", "A6 call-graph over-approximation", "class invariants in reviewed/c12_classes.json are human judgements by category"],
    "every panic-capable call / MIR assert terminator of prqlc and prqlc-parser (type-resolved callees from the rustc "
    "driver) joined with the syntax tree to name the receiver, grouped into classes and compared with the reviewed class table",
    True,
)


def load(name):
    p = os.path.join(ROOT, "reviewed", name)
    with open(p) as f:
        return json.load(f)


def r1(ctx, rep):
    rep.rule("C12.R1", "every panic-capable site belongs to a reviewed invariant class; no class has grown", floor=240)
    cg, syn = ctx.cg, ctx.syn
    sites = panics.collect(cg, syn)
    rows = {tuple(r["key"]): r for r in load("c12_classes.json")["rows"]}
    # sites with a local proof (the presence test dominates the unwrap) need no reviewed class; only those of classes that are new or
    # have grown are examined, so a reviewed class keeps its count
    raw = panics.class_counts(sites)
    proven = [s_ for s_ in sites if (rows.get(s_["key"]) is None or raw[s_["key"]] > rows[s_["key"]]["count"]) and (presence_tested(s_, syn) or index_proved(s_, syn) or nonempty_tested(s_, syn) or sub_proved(s_, syn))]
    if proven:
        rep.note(f"{len(proven)} site(s) discharged locally (unwrap dominated by is_some / is_ok, literal index dominated by a length test): " + ", ".join(f"{p_['fn'].split('::')[-1]}:{p_['l']}" for p_ in proven[:5]))
        sites = [s_ for s_ in sites if not any(s_ is p_ for p_ in proven)]
    counts = panics.class_counts(sites)
    by_key = {}
    for s in sites:
        by_key.setdefault(s["key"], []).append(s)
    for key, n in sorted(counts.items()):
        k = "class:" + "|".join(key)
        row = rows.get(key)
        ex = by_key[key][0]
        if row is None:
            rep.bad(k, f"new kind of panic-capable site: `{key[1]}` on `{key[2]}` in {key[0]} ({n} site(s), first at line {ex['l']} in {ex['fn']}): "
                    "no reviewed invariant covers it - if the value can be absent for some input this is a panic",
                    file=ex["file"], line=ex["l"], fn=ex["fn"])
        elif row.get("reason") in (None, "", "UNREVIEWED"):
            rep.bad(k, f"class {key} is listed without a reviewed invariant", file=ex["file"], line=ex["l"], fn=ex["fn"])
        elif n > row["count"]:
            lines = sorted(s["l"] for s in by_key[key])
            rep.bad(k, f"{n} sites of `{key[1]}` on `{key[2]}` in {key[0]} (lines {lines}), {row['count']} were reviewed under the invariant \"{row['reason'][:90]}\": "
                    "the additional site(s) need the same argument", file=ex["file"], line=lines[-1], fn=ex["fn"])
        else:
            rep.ok(k, {"count": n, "invariant": row["reason"][:100]})
    idx_guarded = guarded_counts(sites, syn)
    for key, d in sorted(idx_guarded.items()):
        row = rows.get(key)
        want = (row or {}).get("guarded", 0)
        k = "guard:" + "|".join(key)
        ex = by_key[key][0]
        rep.check(d["guarded"] >= want, k, f"{key[0]}: {want} site(s) of `{key[1]}` on `{key[2]}` were dominated by a test that makes them safe (a length test that puts the index in range / "
                  f"an `is_x()` test or a match arm of the accessor's variant), now only {d['guarded']}: a guard was weakened or removed, so the site can panic",
                  file=ex["file"], line=ex["l"], fn=ex["fn"])
    rep.note(f"{len(sites)} panic-capable sites in {len(counts)} classes")


def presence_tested(sdict, syn, _cache={}):
    """Is this `R.unwrap()` / `R.expect(..)` only reached when `R.is_some()` / `R.is_ok()` was tested (then-branch), or `R.is_none()` /
    `R.is_err()` was tested and refuted (else-branch, or after an `if R.is_none() { diverge }`)?  R is compared up to `.as_ref()` /
    `.as_mut()` / `.clone()` / `.as_deref()`: a local proof that needs no reviewed class."""
    import guards
    if sdict["cls"] not in ("Option::unwrap", "Option::expect", "Result::unwrap", "Result::expect"):
        return False
    sf = syn.fn_at(sdict["file"], sdict["l"])
    if not sf or "body" not in sf:
        return False
    par = _cache.get(id(sf))
    if par is None:
        par = _cache[id(sf)] = guards.parents(sf["body"])
    strip = lambda t: re.sub(r"(\.(as_ref|as_mut|clone|cloned|as_deref|as_deref_mut|borrow)\(\))+$", "", t.lstrip("&*"))
    pos, neg = ("is_some", "is_none") if sdict["cls"].startswith("Option") else ("is_ok", "is_err")
    for n in walk(sf["body"]):
        if n.get("k") == "mcall" and n["m"] in ("unwrap", "expect") and sdict["l"] in (n["l"], n.get("ml", n["l"])):
            R = strip(show(n["r"], maxdepth=10))
            if not R or "(" in R.replace("()", ""):
                continue        # only places (locals, fields), not calls with arguments: their value can differ between the test and the use
            if guards.side_of(par, n, guards.polarity_of(f"{R}.{pos}()")) is True or guards.side_of(par, n, guards.polarity_of(f"{R}.{neg}()")) is False:
                return True
    return False


_LEN_KEEPING = ("iter", "into_iter", "iter_mut", "map", "collect", "try_collect", "collect_vec", "cloned", "copied", "enumerate", "rev", "to_vec", "clone",
                "peekable", "as_slice", "map_ok", "try_collect_vec")


def _length_origin(base, site, par):
    """follow a local back through element-count-preserving steps (`let v: Vec<_> = R.into_iter().map(..).try_collect()?; let mut it = v.into_iter();`)
    to the place R it was made from; a local qualifies only when nothing mentions it between its definition and the statement of the site
    (so no element was taken from it before)"""
    for _ in range(6):
        if not (base.get("k") == "path" and "::" not in base["p"]):
            return base
        name = base["p"]
        # the statement list that holds the site, and the site's statement in it
        cur, blk, st_site = site, None, None
        while id(cur) in par:
            p_ = par[id(cur)]
            if p_.get("k") == "block" and any(st is cur for st in p_["s"]):
                defs = [i for i, st in enumerate(p_["s"]) if st.get("k") == "local" and st["pat"].get("k") == "p_ident" and st["pat"]["n"] == name and st.get("init") is not None
                        and i < [j for j, st in enumerate(p_["s"]) if st is cur][0]]
                if defs:
                    blk, st_site, d = p_, cur, defs[-1]
                    break
            cur = p_
        if blk is None:
            return base
        i_site = [j for j, st in enumerate(blk["s"]) if st is st_site][0]
        between = blk["s"][d + 1:i_site]
        if any(x.get("k") == "path" and x["p"] == name for st in between for x in walk(st)):
            return base
        # .. and within the site's statement the site's use is the first mention
        e = blk["s"][d]["init"]
        while True:
            if e.get("k") in ("paren", "try"):
                e = e["e"]
            elif e.get("k") == "mcall" and e["m"] in _LEN_KEEPING and all(a.get("k") == "closure" for a in e["a"]):
                e = e["r"]
            else:
                break
        if show(e) == name and blk["s"][d]["pat"].get("n") == name:
            # shadowing `let mut x = x.into_iter()`: continue from the earlier definition, searched before statement d
            site = blk["s"][d]
        else:
            site = blk["s"][d]
        base = e
    return base


def _nonempty_for(R, n, par):
    """is node n only reached when collection R is non-empty (tests by if / early return / `len() != 1 { return }`)"""
    import guards

    def atom(c, R=R):
        t = show(c, maxdepth=8).replace(" ", "").replace("(", "").replace(")", "")
        r_ = R.replace("(", "").replace(")", "")
        if t == f"!{r_}.is_empty":
            return 1
        if t == f"{r_}.is_empty":
            return -1
        m = re.fullmatch(re.escape(r_) + r"\.len(>|>=|==|!=|<)(\d+)", t)
        if m:
            op, k = m.group(1), int(m.group(2))
            if (op == ">" and k >= 0) or (op == ">=" and k >= 1) or (op == "==" and k >= 1) or (op == "!=" and k == 0):
                return 1
            if (op == "==" and k == 0) or (op == "<" and k <= 1):
                return -1
        return 0
    if guards.side_of(par, n, atom) is True:
        return True
    return bool(guards.len_is_one_guard(n, par, R))


def nonempty_tested(sdict, syn, _cache={}):
    """`R.last() / first() / pop() / next() .. .unwrap()` only reached when R was tested non-empty (`!R.is_empty()`, `R.len() > 0`, `>= 1`, `== k` with
    k >= 1, a match arm `k =>` on `R.len()`), in any of the if / else / early-return spellings."""
    import guards
    if sdict["cls"] not in ("Option::unwrap", "Option::expect") or sdict["step"] not in (".last()", ".first()", ".pop()", ".last_mut()", ".first_mut()", ".next()", ".next_back()", ".peek()", ".split_last()", ".split_first()"):
        return False
    sf = syn.fn_at(sdict["file"], sdict["l"])
    if not sf or "body" not in sf:
        return False
    par = _cache.get(id(sf))
    if par is None:
        par = _cache[id(sf)] = guards.parents(sf["body"])
    for n in walk(sf["body"]):
        if n.get("k") == "mcall" and n["m"] in ("unwrap", "expect") and sdict["l"] in (n["l"], n.get("ml", n["l"])) and n["r"].get("k") == "mcall" and "." + n["r"]["m"] + "()" == sdict["step"]:
            base = n["r"]["r"]
            while base.get("k") == "mcall" and base["m"] in ("iter", "into_iter", "iter_mut", "chars", "as_slice", "as_mut", "as_ref", "clone", "drain") and not base["a"]:
                base = base["r"]
            # the collection as it is named at the site, and (when that is a local of known origin) the collection it was made from
            # with length-preserving steps: a test of either one dominates the site
            cands = [show(base, maxdepth=10).lstrip("&*"), show(_length_origin(base, n, par), maxdepth=10).lstrip("&*")]
            cands = [c_ for i_, c_ in enumerate(cands) if c_ and "(" not in c_.replace("()", "") and c_ not in cands[:i_]]
            if not cands:
                continue
            if len(cands) > 1 and _nonempty_for(cands[0], n, par):
                return True
            R = cands[-1]

            def atom(c, R=R):
                t = show(c, maxdepth=8).replace(" ", "").replace("(", "").replace(")", "")
                r_ = R.replace("(", "").replace(")", "")
                if t == f"!{r_}.is_empty":
                    return 1
                if t == f"{r_}.is_empty":
                    return -1
                m = re.fullmatch(re.escape(r_) + r"\.len(>|>=|==|!=|<)(\d+)", t)
                if m:
                    op, k = m.group(1), int(m.group(2))
                    if (op == ">" and k >= 0) or (op == ">=" and k >= 1) or (op == "==" and k >= 1) or (op == "!=" and k == 0):
                        return 1
                    if (op == "==" and k == 0) or (op == "<" and k <= 1):
                        return -1
                return 0
            if guards.side_of(par, n, atom) is True:
                return True
            if bool(guards.len_is_one_guard(n, par, R)):
                return True
            # a match arm `k =>` (k >= 1) on `R.len()`
            cur = n
            while id(cur) in par:
                p_ = par[id(cur)]
                if p_.get("k") == "match" and show(p_["e"]).replace(" ", "") == f"{R}.len()":
                    for arm in p_["arms"]:
                        if arm["body"] is cur or guards._contains(arm["body"], cur):
                            if arm["pat"].get("k") == "lit" and str(arm["pat"].get("v")).isdigit() and int(arm["pat"]["v"]) >= 1:
                                return True
                cur = p_
    return False


def index_proved(sdict, syn):
    """a bounds-check site whose every literal index expression on that line is dominated by a length test that puts it in range"""
    if not (sdict["cls"] in ("Vec[]", "mir:bounds", "slice[]") or "index" in sdict["cls"].lower() or "bounds" in sdict["cls"]):
        return False
    import guards
    sf = syn.fn_at(sdict["file"], sdict["l"])
    if not sf or "body" not in sf:
        return False
    par = guards.parents(sf["body"])
    idx = [n for n in walk(sf["body"]) if n.get("k") == "index" and n["l"] == sdict["l"]]
    return bool(idx) and all(n["i"].get("k") == "lit" and index_guard(n, par) for n in idx)


def sub_proved(sdict, syn):
    """`n -= k` / `n - k` (k a literal) as a statement of a `while n > j && ..` / `if n > j` body (j >= k - 1, or `n >= k`, `n != 0` for k = 1) with
    no write to n earlier in that body: the subtraction cannot underflow"""
    if sdict["cls"] != "mir:overflow_sub":
        return False
    import guards
    sf = syn.fn_at(sdict["file"], sdict["l"])
    if not sf or "body" not in sf:
        return False
    par = guards.parents(sf["body"])
    subs = [n for n in walk(sf["body"]) if n.get("k") == "bin" and n["op"] in ("-=", "-") and n["l"] == sdict["l"]]
    if not subs:
        return False
    for n in subs:
        if not (n["lhs"].get("k") == "path" and n["rhs"].get("k") == "lit" and str(n["rhs"].get("v", "")).isdigit()):
            return False
        name, k = n["lhs"]["p"], int(n["rhs"]["v"])
        # the statement of the enclosing body that holds the subtraction
        cur, ok = n, False
        while id(cur) in par:
            q = par[id(cur)]
            if q.get("k") == "block":
                holder = par.get(id(q))
                body_of = holder is not None and ((holder.get("k") == "while" and holder.get("body") is q) or (holder.get("k") == "if" and holder.get("t") is q and holder["c"].get("k") != "let"))
                if body_of:
                    i = [j for j, st in enumerate(q["s"]) if st is cur]
                    before = q["s"][:i[0]] if i else q["s"]
                    written = any((x.get("k") == "assign" and show(x["lhs"]) == name) or (x.get("k") == "bin" and x["op"] in ("-=", "+=", "*=", "/=") and show(x["lhs"]) == name)
                                  or (x.get("k") == "ref" and x.get("mut") and show(x["e"]) == name) for st in before for x in walk(st))
                    for cj in guards.conjuncts(holder["c"]):
                        t = show(cj).replace(" ", "").replace("(", "").replace(")", "")
                        m = re.fullmatch(re.escape(name) + r"(>|>=|!=)(\d+)", t)
                        m2 = re.fullmatch(r"(\d+)(<|<=)" + re.escape(name), t)
                        lo = None
                        if m:
                            j = int(m.group(2))
                            lo = j + 1 if m.group(1) == ">" else j if m.group(1) == ">=" else (1 if j == 0 else None)
                        elif m2:
                            j = int(m2.group(1))
                            lo = j + 1 if m2.group(2) == "<" else j
                        if lo is not None and lo >= k and not written:
                            ok = True
                    break
            if q.get("k") in ("closure", "item_fn"):
                break
            cur = q
        if not ok:
            return False
    return True


def guarded_counts(sites, syn):
    """{class key: {"guarded": n, "sites": m}} for the site kinds whose safety is a local, recognisable guard:
    literal indexing under a length test, and `x.as_k().unwrap()` under `x.is_k()` / a match arm of variant K."""
    import guards
    out = {}
    pars = {}
    for sdict in sites:
        is_idx = sdict["cls"] == "Vec[]" and sdict["step"].endswith("[lit]")
        is_acc = sdict["cls"] in ("Option::unwrap", "Option::expect", "Result::unwrap", "Result::expect") and re.match(r"^\.((as|into|try_into)_\w+|try_into)\(\)$", sdict["step"] or "")
        if not (is_idx or is_acc):
            # presence / non-emptiness tests that dominate an unwrap
            if sdict["cls"] in ("Option::unwrap", "Option::expect", "Result::unwrap", "Result::expect"):
                d = out.setdefault(sdict["key"], {"guarded": 0, "sites": 0})
                d["sites"] += 1
                if presence_tested(sdict, syn) or nonempty_tested(sdict, syn):
                    d["guarded"] += 1
            continue
        sf = syn.fn_at(sdict["file"], sdict["l"])
        if not sf or "body" not in sf:
            continue
        par = pars.get(id(sf))
        if par is None:
            par = pars[id(sf)] = guards.parents(sf["body"])
        for n in walk(sf["body"]):
            g = None
            if is_idx and n.get("k") == "index" and n["l"] == sdict["l"] and n["i"].get("k") == "lit":
                g = index_guard(n, par)
            elif is_acc and n.get("k") == "mcall" and n["m"] in ("unwrap", "expect") and n.get("ml", n["l"]) in (sdict["l"], sdict.get("ml")) or \
                    (is_acc and n.get("k") == "mcall" and n["m"] in ("unwrap", "expect") and n["l"] == sdict["l"]):
                r = n["r"]
                if not (r.get("k") == "mcall" and "." + r["m"] + "()" == sdict["step"]):
                    continue
                g = array_conv_guard(n, par) if r["m"] == "try_into" else accessor_guard(n, par)
            else:
                continue
            d = out.setdefault(sdict["key"], {"guarded": 0, "sites": 0})
            d["sites"] += 1
            if g:
                d["guarded"] += 1
            break
    return out


def accessor_guard(node, par):
    """Is `R.as_k().unwrap()` dominated by `R.is_k()` (arm guard / if condition) or by a match arm on R whose pattern is variant K?"""
    import guards
    acc = node["r"]
    recv = show(acc["r"], maxdepth=6)
    k = re.sub(r"^(as|into|try_into)_", "", acc["m"])
    want_call = f"{recv}.is_{k}()"
    kvar = k.replace("_", "").lower()
    cur = node
    while True:
        p = par.get(id(cur))
        if p is None:
            return None
        kind = p.get("k")
        if kind == "if":
            in_then = p.get("t") is cur or guards._contains(p.get("t"), cur)
            if in_then:
                for cc in conj(p["c"]):
                    t = show(cc, maxdepth=8)
                    if t == want_call:
                        return f"if {t}"
                    if cc.get("k") == "macro" and cc["n"] == "matches" and show(cc["a"][0]).lstrip("&*") in (recv, recv + ".kind") and kvar in show(cc.get("pat"), maxdepth=6).replace("_", "").lower():
                        return f"if {t}"
        if kind == "match":
            for arm in p["arms"]:
                if arm is cur or arm.get("body") is cur or guards._contains(arm["body"], cur):
                    if arm.get("guard") is not None and want_call in show(arm["guard"], maxdepth=8):
                        return f"arm guard {want_call}"
                    scrut = show(p["e"], maxdepth=6).lstrip("&*")
                    if scrut in (recv, recv + ".kind", "&" + recv):
                        from synq import pat_head as _ph, pat_alts as _pa
                        heads = [str(_ph(a)) for a in _pa(arm["pat"])]
                        if heads and all(last_seg(h).replace("_", "").lower() == kvar for h in heads):
                            return f"match arm {heads}"
        if kind in ("closure", "item_fn"):
            return None
        cur = p


def index_guard(node, par):
    """Is `X[k]` (k literal) dominated by a test implying X.len() > k ?"""
    from synq import lit_val as _lv
    var = show(node["e"])
    k = _lv(node["i"])
    if not isinstance(k, int):
        return None
    lenexpr = f"{var}.len()"
    cur = node
    import guards
    while True:
        p = par.get(id(cur))
        if p is None:
            return None
        kind = p.get("k")
        if kind == "if":
            c = p["c"]
            in_then = p.get("t") is cur or guards._contains(p.get("t"), cur)
            in_else = p.get("e") is not None and (p["e"] is cur or guards._contains(p["e"], cur))
            for cc in conj(c):
                if cc.get("k") == "bin" and show(cc["lhs"]) == lenexpr:
                    n = _lv(cc["rhs"])
                    if isinstance(n, int):
                        op = cc["op"]
                        if in_then and ((op == "==" and n > k) or (op == ">" and n >= k) or (op == ">=" and n > k)):
                            return f"if {show(cc)}"
                        if in_else and ((op == "<" and n > k) or (op == "<=" and n >= k) or (op == "!=" and False)):
                            return f"else of if {show(cc)}"
                if in_then and cc.get("k") == "un" and cc["op"] == "!" and show(cc["e"]) == f"{var}.is_empty()" and k == 0:
                    return "if !is_empty()"
        if kind == "bin" and p["op"] == "&&" and (p["rhs"] is cur or guards._contains(p["rhs"], cur)):
            # `X.len() == 1 && X[0]..`: the left conjuncts guard the right operand (short circuit)
            for cc in conj(p["lhs"]):
                if cc.get("k") == "bin" and show(cc["lhs"]) == lenexpr and isinstance(_lv(cc["rhs"]), int):
                    n, op = _lv(cc["rhs"]), cc["op"]
                    if (op == "==" and n > k) or (op == ">" and n >= k) or (op == ">=" and n > k):
                        return f"{show(cc)} && .."
                if cc.get("k") == "un" and cc["op"] == "!" and show(cc["e"]) == f"{var}.is_empty()" and k == 0:
                    return "!is_empty() && .."
        if kind == "bin" and p["op"] == "||" and (p["rhs"] is cur or guards._contains(p["rhs"], cur)):
            for cc in disj(p["lhs"]):
                if show(cc) == f"{var}.is_empty()" and k == 0:
                    return "is_empty() || .."
                if cc.get("k") == "bin" and show(cc["lhs"]) == lenexpr and isinstance(_lv(cc["rhs"]), int):
                    n, op = _lv(cc["rhs"]), cc["op"]
                    if (op == "<" and n > k) or (op == "<=" and n >= k) or (op == "!=" and n > k and False):
                        return f"{show(cc)} || .."
        if kind == "match" and show(p["e"]) == lenexpr:
            for arm in p["arms"]:
                if arm is cur or guards._contains(arm["body"], cur):
                    from synq import pat_head as _ph
                    h = _ph(arm["pat"])
                    if isinstance(h, tuple) and h[0] == "lit" and str(h[1]).isdigit() and int(h[1]) > k:
                        return f"match {lenexpr} arm {h[1]}"
        if kind == "block":
            idx = None
            for i, st in enumerate(p["s"]):
                if st is cur or guards._contains(st, cur):
                    idx = i
                    break
            if idx is not None:
                for st in p["s"][:idx]:
                    if st.get("k") == "if" and st.get("e") is None and guards._diverges(st["t"]):
                        for cc in disj(st["c"]):
                            if show(cc) == f"{var}.is_empty()" and k == 0:
                                return "after `if is_empty() { return }`"
                            if cc.get("k") == "bin" and show(cc["lhs"]) == lenexpr and isinstance(_lv(cc["rhs"]), int):
                                n, op = _lv(cc["rhs"]), cc["op"]
                                if (op == "<" and n > k) or (op == "<=" and n >= k) or (op == "!=" and n > k) or (op == "==" and n <= k and False):
                                    return f"after `if {show(cc)} {{ return }}`"
        if kind in ("closure", "item_fn"):
            return None
        cur = p


def array_conv_guard(node, par):
    """`let [a, b]: [T; N] = X.try_into().unwrap()` converts a Vec into a fixed-size array and fails unless X.len() == N exactly:
    is it dominated by `if X.len() != N .. { return }` (a disjunct of a diverging test) or inside `if X.len() == N`?"""
    import guards
    from synq import lit_val as _lv
    acc = node["r"]
    var = show(acc["r"], maxdepth=6)
    # N from the binding: array pattern or `[T; N]` annotation of the enclosing let
    cur, n_want = node, None
    while id(cur) in par and n_want is None:
        cur = par[id(cur)]
        if cur.get("k") == "local":
            pat = cur["pat"]
            if pat.get("k") == "p_ident" and pat.get("sub") is not None:
                pat = pat["sub"]
            if pat.get("k") in ("p_slice", "p_tuple", "p_array") and isinstance(pat.get("e"), list):
                n_want = len(pat["e"])
            m_ = re.search(r";\s*(\d+)\s*\]", str(cur.get("ty") or show(cur["pat"])))
            if m_:
                n_want = int(m_.group(1))
            break
    if n_want is None:
        return None
    lenexpr = f"{var}.len()"
    cur = node
    while True:
        p = par.get(id(cur))
        if p is None:
            return None
        kind = p.get("k")
        if kind == "if":
            in_then = p.get("t") is cur or guards._contains(p.get("t"), cur)
            for cc in conj(p["c"]):
                if in_then and cc.get("k") == "bin" and cc["op"] == "==" and show(cc["lhs"]) == lenexpr and _lv(cc["rhs"]) == n_want:
                    return f"if {show(cc)}"
        if kind == "block":
            idx = next((i for i, st in enumerate(p["s"]) if st is cur or guards._contains(st, cur)), None)
            for st in p["s"][:idx or 0]:
                if st.get("k") == "if" and st.get("e") is None and guards._diverges(st["t"]):
                    for cc in disj(st["c"]):
                        if cc.get("k") == "bin" and cc["op"] == "!=" and show(cc["lhs"]) == lenexpr and _lv(cc["rhs"]) == n_want:
                            return f"after `if {show(cc)} {{ return }}`"
        if kind in ("closure", "item_fn"):
            return None
        cur = p


def conj(c):
    if c.get("k") == "bin" and c["op"] == "&&":
        return conj(c["lhs"]) + conj(c["rhs"])
    return [c]


def disj(c):
    if c.get("k") == "bin" and c["op"] == "||":
        return disj(c["lhs"]) + disj(c["rhs"])
    return [c]


def r2(ctx, rep):
    rep.rule("C12.R2", "recursion over input-sized structures", floor=10)
    cg, syn = ctx.cg, ctx.syn
    rev = {r["key"]: r for r in load("c12_recursion.json")["rows"]}
    # (a) a depth guard anywhere on the recursive-descent path?
    # (the bound on nested *function bodies*, `function_depth`, is a different guard: it ends the resolution of a recursive function and says
    # nothing about how deeply an expression may be nested; R14 checks it)
    # .. and so is `import_depth`, the bound on chains of `import` declarations (R15)
    guard_words = re.compile(r"^(?!.*(function|import)_depth)(?!.*MAX_(FUNCTION|IMPORT)_DEPTH).*(depth|recursion_limit|stacker|maybe_grow|MAX_NEST)", re.I)
    guards_found = []
    for f in syn.fns:
        if f["crate"] not in ("prqlc", "prqlc_parser") or "body" not in f:
            continue
        if "/debug/" in f["file"]:
            continue
        for n in walk(f["body"]):
            if n.get("k") in ("path",) and guard_words.search(n["p"]):
                guards_found.append((f["path"], n["p"]))
            if n.get("k") == "field" and guard_words.search(n["f"]):
                guards_found.append((f["path"], n["f"]))
    if guards_found:
        rep.ok("depth-guard", {"found": guards_found[:5]})
    else:
        rep.bad("no-depth-guard", "no recursion depth limit exists anywhere in lexer, parser, ast_expand, resolver, lowering, SQL generation or formatter: "
                "nesting depth of the input is the recursion depth of expand_expr / PlFold::fold_expr / lower_expr / translate_expr / WriteSource::write")
    # (b) directly self-recursive functions: reviewed set
    roots, _ = C11.entries(cg)
    reach = cg.reachable(roots)
    selfrec = set()
    for fid in reach:
        f = cg.fns[fid]
        if (f.get("macro") or "").startswith("#[derive"):
            continue
        owner = cg.owner_fn(fid)
        for r in f["refs"]:
            if r["kind"] in ("call", "ref") and r.get("resolved") and r.get("id") == owner["id"]:
                selfrec.add(owner["path"])
    for p in sorted(selfrec):
        key = "selfrec:" + p
        if key in rev:
            rep.ok(key, {"reviewed": rev[key]["reason"]})
        else:
            rep.bad(key, f"{p} calls itself and is reachable from a public entry point; no reviewed bound on its recursion depth", fn=p)


def r3(ctx, rep):
    rep.rule("C12.R3", "staged entry points validate their documents before invariant-dependent stages", floor=2)
    cg, syn = ctx.cg, ctx.syn
    # rq_to_sql: anything that validates the RQ (ids declared before use) before sql::compile?
    f = syn.fn("prqlc::rq_to_sql", crate="prqlc")
    txt = show_stmts(f["body"], maxdepth=8)
    validates = any(w in txt for w in ("validate", "check_rq", "verify"))
    rep.check(validates, "unvalidated-rq", "rq_to_sql hands the caller's RelationalQuery straight to sql::compile: AnchorContext::of and the generators index their id tables "
              "(`column_decls[&cid]`, `relation_instances[&riid]`, `table_decls.get(..).unwrap()`) assuming a closed RQ (C16), so a JSON document with an undeclared id panics",
              file=f["file"], line=f["l"], fn=f["path"])
    g = syn.fn("prqlc::pl_to_rq_tree", crate="prqlc")
    txt = show_stmts(g["body"], maxdepth=8)
    validates = any(w in txt for w in ("validate", "check_pl", "verify"))
    rep.check(validates, "unvalidated-pl", "pl_to_rq_tree hands the caller's ModuleDef straight to the resolver: a JSON document with an empty pipeline (`{\"Pipeline\":{\"exprs\":[]}}`) reaches "
              "`pipeline.exprs.remove(0)` in desugar_pipeline, an empty `Ident` array panics in Ident::from_path while deserialising", file=g["file"], line=g["l"], fn=g["path"])


def r4(ctx, rep):
    rep.rule("C12.R4", "errors of the crates' own Result type are not silently dropped", floor=1)
    syn = ctx.syn
    rev = {r["key"]: r for r in load("c12_recursion.json").get("dropped_errors", [])}
    n = 0
    for f in syn.fns:
        if f["crate"] not in ("prqlc", "prqlc_parser") or "body" not in f or "/debug/" in f["file"]:
            continue
        for st in walk(f["body"]):
            if st.get("k") == "local" and st["pat"].get("k") == "p_wild" and st.get("init") is not None:
                i = st["init"]
                t = show(i, maxdepth=6)
                if i.get("k") in ("mcall", "call", "try") and not t.endswith("?"):
                    # a Result-returning call of this crate: resolve_/lower_/fold_/translate_/parse_/compile_ prefixes
                    nm = i.get("m") or last_seg(show(i.get("f", {})))
                    if re.match(r"(resolve|lower|fold|translate|parse|compile|infer|declare|validate)_", nm or ""):
                        n += 1
                        key = f"dropped:{f['path']}:{nm}"
                        if key in rev:
                            rep.ok(key, {"reviewed": rev[key]["reason"]})
                        else:
                            rep.bad(key, f"`let _ = {t}` discards a Result of a compiler stage", file=f["file"], line=st["l"], fn=f["path"])
    if n == 0:
        rep.ok("none", nontrivial=False)


def r5(ctx, rep):
    import flow
    rep.rule("C12.R5", "hand-written scanning loops make progress on every iteration", floor=3)
    syn = ctx.syn
    n = 0
    for f in syn.fns:
        if f["crate"] not in ("prqlc", "prqlc_parser") or "body" not in f or "/debug/" in f["file"]:
            continue
        for lp in walk(f["body"]):
            if lp.get("k") not in ("while", "loop"):
                continue
            cond = show(lp.get("c"), maxdepth=6) if lp.get("k") == "while" else ""
            body_txt = show_stmts_all(lp["body"])
            # a cursor loop: the condition (or the body) peeks at an input cursor
            peeks = "input.peek()" in cond or (lp["k"] == "loop" and "input.peek()" in body_txt)
            if not peeks:
                continue
            n += 1

            def consumes(x):
                return (x.get("k") == "mcall" and x["m"] in ("next", "skip", "rewind") and show(x["r"]) == "input") or \
                       (x.get("k") == "call" and last_seg(show(x["f"])) == "parse_escape_sequence")
            bad = flow.loop_progress(lp["body"], consumes)
            rep.check(not bad, f"progress:{f['path']}:{n}",
                      f"the loop at line {lp['l']} peeks at the input; on the path(s) {bad} an iteration ends without consuming a character or leaving the loop: the lexer never terminates on such input",
                      file=f["file"], line=lp["l"], fn=f["path"])
    rep.check(n >= 3, "cursor-loops", f"expected >= 3 cursor loops in the lexer, found {n}")


WRITE_CALL = re.compile(r"\.write\(|\.write_between\(|\.write_inline\(|break_line_within_parenthesis\(|\.write_or_expand\(")


def r6(ctx, rep):
    rep.rule("C12.R6", "recursive writers do not write the same sub-tree twice (attempt, then fallback): time exponential in nesting depth", floor=3)
    syn = ctx.syn
    rev = {r["key"]: r for r in load("c12_recursion.json").get("retry_sites", [])}
    n = 0
    for f in syn.fns:
        if f["crate"] != "prqlc" or "body" not in f or "/codegen/" not in f["file"]:
            continue
        locs = {}
        for st in walk(f["body"]):
            if st.get("k") == "local" and st.get("init") is not None:
                locs.setdefault(show(st["pat"]), st["init"])
        import guards
        par = guards.parents(f["body"])
        for i in walk(f["body"]):
            if i.get("k") != "if" or i["c"].get("k") != "let" or "Some" not in show(i["c"]["pat"]):
                continue
            src = i["c"]["e"]
            attempt = show(src, maxdepth=8)
            if src.get("k") == "path" and src["p"] in locs:
                attempt = show(locs[src["p"]], maxdepth=8)
            if not WRITE_CALL.search(attempt):
                continue
            # fallback: the else branch, or (when the then-branch returns) the statements that follow the `if`
            fallback = ""
            if i.get("e") is not None:
                fallback = " ; ".join(show(x, maxdepth=8) for x in walk(i["e"]) if x.get("k") in ("call", "mcall"))
            elif guards._diverges(i["t"]):
                blk = par.get(id(i))
                if blk is not None and blk.get("k") == "block":
                    idx = [j for j, st in enumerate(blk["s"]) if st is i]
                    rest = blk["s"][idx[0] + 1:] if idx else []
                    fallback = " ; ".join(show(x, maxdepth=8) for st in rest for x in walk(st) if x.get("k") in ("call", "mcall"))
            if WRITE_CALL.search(fallback):
                n += 1
                key = f"retry:{f['path']}:{attempt[:50]}"
                if key in rev:
                    rep.bad(key, rev[key]["reason"], file=f["file"], line=i["l"], fn=f["path"])
                else:
                    rep.bad(key, f"`{attempt}` is attempted and, when it does not fit, the same sub-tree is written again by the fallback: each nesting level doubles the work (formatting time exponential in depth)",
                            file=f["file"], line=i["l"], fn=f["path"])
    if n == 0:
        rep.ok("no-retry-sites")


def show_stmts_all(node):
    return " ; ".join(show(n, maxdepth=4) for n in walk(node) if n.get("k") in ("mcall", "call"))


# tables of AnchorContext that are filled on demand, only for the ids some earlier step happened to ask about
LAZY_TABLES = {"column_names": "names are entered by ensure_column_name / load_names for the columns of a projection; a column used only in ORDER BY or a filter of a sub-query has no entry"}


def lazy_lookup_panics(body):
    """[(node, table)]: unwrap/expect/index whose value comes from a lookup in a lazily filled table, directly or through one local"""
    out = []
    locs = [(n["l"], show(n["pat"]).replace("mut ", ""), n["init"]) for n in walk(body) if n.get("k") == "local" and n.get("init") is not None]

    def origin(e, line, depth=0):
        while e is not None and e.get("k") == "mcall" and e["m"] in ("cloned", "clone", "copied", "as_ref", "as_deref", "map", "to_owned"):
            e = e["r"]
        if e is None:
            return None
        if e.get("k") == "mcall" and e["m"] in ("get", "get_mut", "remove"):
            r = show(e["r"], maxdepth=6)
            for t in LAZY_TABLES:
                if r.endswith("." + t) or r == t:
                    return t
        if e.get("k") == "path" and "::" not in e["p"] and depth < 2:
            cands = [(l, i) for l, nm, i in locs if nm == e["p"] and l <= line]
            if cands:
                return origin(max(cands, key=lambda x: x[0])[1], line, depth + 1)
        return None

    for n in walk(body):
        if n.get("k") == "mcall" and n["m"] in ("unwrap", "expect"):
            t = origin(n["r"], n["l"])
            if t:
                out.append((n, t))
        if n.get("k") == "index":
            r = show(n["e"], maxdepth=6) if n.get("e") is not None else ""
            for t in LAZY_TABLES:
                if r.endswith("." + t) or r == t:
                    out.append((n, t))
    return out


def r7(ctx, rep):
    rep.rule("C12.R7", "a lookup in a lazily filled table (column_names) is never unwrapped: absence is an ordinary case", floor=2)
    syn = ctx.syn
    # positive example (must match on every run): the shape of the defect repaired in translate_cid
    ex = {"k": "block", "l": 1, "s": [
        {"k": "local", "l": 1, "pat": {"k": "p_ident", "n": "name", "l": 1},
         "init": {"k": "mcall", "m": "cloned", "l": 1, "a": [], "r": {"k": "mcall", "m": "get", "l": 1, "a": [{"k": "ref", "l": 1, "e": {"k": "path", "p": "cid", "l": 1}}],
                                                                      "r": {"k": "field", "l": 1, "e": {"k": "field", "l": 1, "e": {"k": "path", "p": "ctx", "l": 1}, "f": "anchor"}, "f": "column_names"}}}},
        {"k": "mcall", "m": "expect", "l": 2, "a": [{"k": "lit", "t": "str", "v": "name set", "l": 2}], "r": {"k": "path", "p": "name", "l": 2}},
    ]}
    rep.check(len(lazy_lookup_panics(ex)) == 1, "matcher-positive-example", "the matcher must recognise `let name = ctx.anchor.column_names.get(&cid).cloned(); name.expect(..)`")
    n_fns = 0
    n_reads = 0
    for f in syn.fns:
        if f["crate"] != "prqlc" or "/src/sql/" not in f["file"] or "body" not in f:
            continue
        n_fns += 1
        txt_reads = [n for n in walk(f["body"]) if n.get("k") == "field" and n.get("f") in LAZY_TABLES]
        n_reads += len(txt_reads)
        for k, (n, t) in enumerate(lazy_lookup_panics(f["body"])):
            rep.bad(f"lazy-unwrap:{f['path']}:{t}", f"`{show(n, maxdepth=5)}` panics when `{t}` has no entry for the id: {LAZY_TABLES[t]} "
                    "(`from a | sort x | take 20 | group {k} (aggregate {s = sum v})` crashed this way)", file=f["file"], line=n["l"], fn=f["path"])
    rep.check(n_reads >= 5, "reads", f"expected >= 5 uses of the lazily filled tables under sql/, found {n_reads} in {n_fns} functions")
    # values that are optional by design: the name inside `RelationColumn::Single(name)` is None for every unnamed column
    n_pat = 0
    for f in syn.fns:
        if f["crate"] != "prqlc" or "/src/sql/" not in f["file"] or "body" not in f:
            continue
        for m in matches_of(f["body"]):
            for arm in m["arms"]:
                for alt in pat_alts(arm["pat"]):
                    for pn in walk(alt):
                        if pn.get("k") == "p_ts" and pn["p"].endswith("RelationColumn::Single") and pn["e"] and pn["e"][0].get("k") == "p_ident":
                            n_pat += 1
                            v = pn["e"][0]["n"]
                            for u in walk(arm["body"]):
                                if u.get("k") == "mcall" and u["m"] in ("unwrap", "expect") and show(u["r"]).replace(".clone()", "") == v:
                                    rep.bad(f"optional-unwrap:{f['path']}:RelationColumn::Single", f"`{show(u, maxdepth=4)}`: the name of a relation column is None for an unnamed column (`select {{x+1, y+1}}` in a "
                                            "sub-pipeline); unwrapping it panics", file=f["file"], line=u["l"], fn=f["path"])
    rep.check(n_pat >= 1, "optional:patterns", f"expected >= 1 matches on RelationColumn::Single(name) under sql/, found {n_pat}")
    # the same optional name reached through the accessor: `col.as_single().unwrap()` is the Option<String>; a second unwrap on it assumes a named column
    n_acc = 0
    for f in syn.fns:
        if f["crate"] != "prqlc" or "body" not in f or "/tests/" in f["file"] or f["file"].endswith("test.rs"):
            continue
        for u in walk(f["body"]):
            if u.get("k") == "mcall" and u["m"] == "as_single":
                n_acc += 1
            if u.get("k") == "mcall" and u["m"] in ("unwrap", "expect"):
                r_ = u["r"]
                while r_.get("k") == "mcall" and r_["m"] in ("clone", "cloned", "as_ref", "as_deref", "to_owned") and not r_["a"]:
                    r_ = r_["r"]
                if r_.get("k") == "mcall" and r_["m"] in ("unwrap", "expect") and r_["r"].get("k") == "mcall" and r_["r"]["m"] == "as_single" \
                        and "RelationColumn" in str(ctx.cg.recv_type_at(f["file"], r_["r"]["l"], "as_single") or "RelationColumn"):
                    rep.bad(f"optional-unwrap:{f['path']}:as_single", f"`{show(u, maxdepth=6)}`: the name inside `RelationColumn::Single` is None for an unnamed column (`from [{{1, 2}}]` crashed here); "
                            "unwrapping it panics", file=f["file"], line=u["l"], fn=f["path"])
    # a table keyed by column NAMES (`HashMap<RelationColumn, _>`): the name comes from the program text, so a miss is an ordinary case
    # (a column called like an internal declaration, `_infer`, resolves to that declaration and is not in the table)
    import guards
    n_named = 0
    for fid, fn_ in ctx.cg.fns.items():
        if fn_["crate"] != "prqlc":
            continue
        for r in fn_["refs"]:
            if r["kind"] != "call" or r["def"].rsplit("::", 1)[-1] not in ("get", "get_mut", "remove", "index") or not re.search(r"HashMap<[\w:]*RelationColumn,", r.get("recv") or ""):
                continue
            n_named += 1
            sf = syn.fn_at(r["file"], r["l"])
            owner = ctx.cg.owner_fn(fid)["path"]
            if r["def"].endswith("index"):
                rep.bad(f"name-keyed-lookup:{owner}", "indexing a table keyed by column names panics when the name is missing", file=r["file"], line=r["l"], fn=owner)
                continue
            if not sf or "body" not in sf:
                continue
            par = guards.parents(sf["body"])
            for n in walk(sf["body"]):
                if n.get("k") == "mcall" and n["m"] in ("get", "get_mut", "remove") and n["l"] == r["l"]:
                    p_ = par.get(id(n))
                    bad = None
                    if p_ is not None and p_.get("k") == "mcall" and p_["m"] in ("unwrap", "expect"):
                        bad = "." + p_["m"] + "()"
                    cur = n
                    while id(cur) in par and bad is None:
                        cur = par[id(cur)]
                        if cur.get("k") == "if" and cur["c"].get("k") == "let" and cur.get("e") is not None:
                            if any(x.get("k") == "macro" and x["n"] in ("panic", "unreachable", "todo", "unimplemented") for x in walk(cur["e"])):
                                bad = "panic in the `else` of the lookup"
                            break
                        if cur.get("k") == "match":
                            if any("None" in show(a["pat"]) and any(x.get("k") == "macro" and x["n"] in ("panic", "unreachable", "todo", "unimplemented") for x in walk(a["body"])) for a in cur["arms"]):
                                bad = "panic in the None arm of the lookup"
                            break
                    rep.check(bad is None, f"name-keyed-lookup:{owner}", f"`{show(n, maxdepth=5)}` looks a column NAME up; a miss ends in {bad}: `from t | select {{_infer, a}}` crashed the compiler here "
                              "(the name resolves to the internal inference slot, which the table does not hold)", file=r["file"], line=r["l"], fn=owner)
    rep.check(n_named >= 1, "name-keyed:sites", f"expected the lookup of lookup_cid in a HashMap<RelationColumn, _>, found {n_named}")
    rep.check(n_acc >= 1, "optional:accessors", f"expected >= 1 use of `.as_single()` in the compiler crate, found {n_acc}")


def r8(ctx, rep):
    # `args.get(ident.name).unwrap()` in sql/operators.rs (class reviewed under "every hole names a parameter") is safe exactly when C07.R1 holds
    import C07
    rep.borrowed(C07.r1, ctx, "C12.R8", "the unwrap of a template hole's argument in sql/operators.rs relies on every hole being a parameter of its own implementation")


def r9(ctx, rep):
    rep.rule("C12.R9", "no panic-capable site with a crashing input on record is still present", floor=1)
    cg, syn = ctx.cg, ctx.syn
    sites = panics.collect(cg, syn)
    by = {}
    for s_ in sites:
        by.setdefault((s_["fn"], s_["cls"], s_["step"]), set()).add(s_["l"])
    file_of = {(s_["fn"], s_["cls"], s_["step"], s_["l"]): s_["file"] for s_ in sites}
    table = load("c12_reached.json")["rows"]
    # conditions under which a recorded site cannot be reached any more although it is still in the source
    st = syn.fn("Resolver::fold_statements", crate="prqlc")
    reserved = set()
    import alpha as _alpha
    A_st = _alpha.Inliner(st)
    for n in walk(st["body"]):
        if n.get("k") == "if" and any(x.get("k") == "return" and "Err" in show(x.get("e"), maxdepth=4) for x in walk(n["t"])):
            ctxt = A_st.show(n["c"])          # named booleans / a named table of the reserved words are inlined
            if ".contains(" in ctxt and "name" in ctxt:
                # .. and being one of the words is enough for the rejection (no further condition, e.g. on the module the declaration is in:
                # the inference slots are looked up by name in every module)
                import boolfn as _bf
                try:
                    tbl = _bf.rows(n["c"], A_st, lambda t: True if ".contains(" in t else None)
                    if all(v for _, v in tbl):
                        reserved |= set(re.findall(r"\bNS_[A-Z_]+\b", ctxt))
                except _bf.Unknown:
                    pass
    conds = {"reserved-names-rejected": {"NS_THIS", "NS_THAT", "NS_PARAM", "NS_SELF", "NS_INFER", "NS_INFER_MODULE"} <= reserved}
    rep.check(conds["reserved-names-rejected"], "reserved-names-rejected", f"declarations named like the resolver's own scopes (`this`, `that`, `_param`, `_self`, `_infer`, `_infer_module`) must be rejected "
              f"in fold_statements (found a rejection for {sorted(reserved)}): `let _infer = 1` otherwise makes later lookups panic", file=st["file"], line=st["l"], fn=st["path"])
    import guards as _g
    # constant folding indexes the arguments of an operator call by position: only calls of the operator's own arity are folded
    se = syn.fn("static_eval::static_eval_rq_operator", crate="prqlc")
    first_match = next((i for i, x in enumerate(se["body"]["s"]) if x.get("k") == "match" or (x.get("k") == "local" and (x.get("init") or {}).get("k") == "match" and "name" in show(x["init"]["e"]))), None)
    arity_gate = any(x.get("k") == "if" and x.get("e") is None and _g._diverges(x["t"]) and (re.search(r"args\.len\(\) (!=|<|>)", show(x["c"], maxdepth=8)) or re.search(r"(!=|<|>) args\.len\(\)", show(x["c"], maxdepth=8)))
                     for x in se["body"]["s"])
    conds["static-eval-arity"] = arity_gate
    rep.check(arity_gate, "static-eval-arity", "static_eval_rq_operator must return the call unfolded when the number of arguments is not the operator's arity (a function written with `internal` "
              "can be declared with any number of parameters): `let f = -> internal std.neg` indexed a missing argument", file=se["file"], line=se["l"], fn=se["path"])
    n_present = 0
    for row in table:
        if row.get("unreachable_if") and conds.get(row["unreachable_if"]):
            rep.ok(f"reached:{row['fn']}:{row['cls']}:{row['step']}#{row['nth']}", {"unreachable": row["unreachable_if"]})
            continue
        if row.get("safe_if_arm_guard"):
            fn_ = [g for g in syn.fns if g["crate"] == "prqlc" and "body" in g and (g["path"].endswith(row["fn"].split("::")[-1]))]
            want = row["safe_if_arm_guard"].replace(" ", "")
            hit = any(arm.get("guard") is not None and want in show(arm["guard"], maxdepth=12).replace(" ", "") and row["step"].strip(".()").split("[")[0].replace("var", "args") in (show(arm["guard"], maxdepth=14) + " " + (show_stmts(arm["body"], maxdepth=14) if arm["body"].get("k") == "block" else show(arm["body"], maxdepth=14)))
                      for g in fn_ for m_ in matches_of(g["body"]) for arm in m_["arms"])
            if hit:
                rep.ok(f"reached:{row['fn']}:{row['cls']}:{row['step']}#{row['nth']}", {"guarded": row["safe_if_arm_guard"]})
                continue
        lines = sorted(by.get((row["fn"], row["cls"], row["step"]), ()))
        # the site is still there when the function still has that many sites of this class and step (a repaired site disappears from the inventory)
        still = len(lines) >= row["of"] and len(lines) >= row["nth"]
        key = f"reached:{row['fn']}:{row['cls']}:{row['step']}#{row['nth']}"
        if still:
            n_present += 1
            l_ = lines[row["nth"] - 1]
            rep.bad(key, f"`{row['cls']}` on `{row['step']}` in {row['fn']} is reached by `{row['input'][:160]}` ({row['entry']}; findings_detail/c12_hunt/case-{row['case']}): the invariant its class was "
                    "reviewed under does not hold here", file=file_of.get((row["fn"], row["cls"], row["step"], l_)), line=l_, fn=row["fn"])
        else:
            rep.ok(key, {"repaired": f"the function has {len(lines)} such site(s), the record was for #{row['nth']} of {row['of']}"})
    rep.check(len(table) >= 40, "table", f"reviewed/c12_reached.json lists {len(table)} sites")


FOLD_TRAITS = ("PlFold", "RqFold", "PqFold", "PqMapper")
_ADAPTERS = {"map", "into_iter", "iter", "iter_mut", "try_collect", "collect", "transpose", "map_ok", "and_then", "zip", "enumerate", "cloned", "copied", "rev", "chain",
             "flat_map", "filter", "filter_map", "flatten", "try_map", "map_values", "into_values", "values", "keys", "drain", "clone", "take", "unwrap_or_default", "unwrap_or",
             "into", "as_ref", "as_mut", "to_vec", "collect_vec", "try_fold", "fold", "ok", "boxed", "pluck", "into_inner"}


_RET = {}      # function / method name -> does any workspace function of that name return a Result (filled by r10)


def _tail(body):
    st = body.get("s") or []
    return st[-1] if st and st[-1].get("k") not in ("local", "item_fn") and not st[-1].get("semi") else None


def _error_sources(f):
    """Places where the body of `f` can produce an Err of its own (not merely pass on the Err of a fold call): [(line, what)]."""
    out = []
    for n in walk(f["body"]):
        k = n.get("k")
        if k == "call" and n["f"].get("k") == "path" and last_seg(n["f"]["p"]) == "Err":
            out.append((n["l"], "Err(..)"))
        elif k == "macro" and n.get("n") in ("bail", "ensure"):
            out.append((n["l"], n["n"] + "!"))
        elif k == "mcall" and n["m"] in ("ok_or", "ok_or_else", "context", "with_context"):
            out.append((n["l"], "." + n["m"] + "()"))
        elif k == "try" or (k == "return" and n.get("e") is not None) or n is _tail(f["body"]):
            # the operand of `?`, and what the function returns: every call in it is a fold call, an adapter, a constructor, or a
            # workspace function that does not return a Result
            for c in walk(n["e"] if k in ("try", "return") else n):
                if c.get("k") == "mcall":
                    nm = c["m"]
                    if nm.startswith("fold") or nm in _ADAPTERS or (nm in _RET and not _RET[nm]):
                        continue
                    if k != "try" and nm not in _RET:
                        continue        # (outside a `?`: a method of another crate; its Result, if any, would need a `?` or be the tail itself)
                    out.append((c["l"], f"`?` on .{nm}()" if k == "try" else f"returns .{nm}()"))
                elif c.get("k") == "call" and c["f"].get("k") == "path":
                    nm = last_seg(c["f"]["p"])
                    if nm.startswith("fold") or nm in ("Ok", "Some", "Box::new", "new") or nm[:1].isupper() or (nm in _RET and not _RET[nm]):
                        continue
                    if k != "try" and nm not in _RET:
                        continue
                    out.append((c["l"], f"`?` on {nm}()" if k == "try" else f"returns {nm}()"))
    return out


def r10(ctx, rep):
    rep.rule("C12.R10", "a fold whose result is unwrapped is infallible: no method of the folder, of the fold traits it implements or of their helper functions produces an Err of its own", floor=10)
    cg, syn = ctx.cg, ctx.syn
    _RET.clear()
    for f in syn.fns:
        _RET[f["name"]] = _RET.get(f["name"], False) or ("Result" in (f.get("ret") or ""))
    sites = [s_ for s_ in panics.collect(cg, syn) if s_["cls"] in ("Result::unwrap", "Result::expect") and re.match(r"^\.?fold\w*\(\)$", s_["step"] or "")]
    # the folder type of each site: `self` of the resolved fold call on the same line (driver)
    fold_self = {}
    for fid, f in cg.fns.items():
        for r in f["refs"]:
            if r["kind"] == "call" and r.get("self") and re.search(r"(^|::)fold\w*$", r.get("def") or ""):
                fold_self.setdefault((r["file"], r.get("ml") if r.get("ml", -1) > 0 else r["l"]), r["self"])
                fold_self.setdefault((r["file"], r["l"]), r["self"])
    trait_files = {}
    for f in syn.fns:
        if f.get("trait_short") in FOLD_TRAITS and f.get("self_short") in FOLD_TRAITS:
            trait_files.setdefault(f["trait_short"], f["file"])
    n_sites = 0
    ordinal = {}
    for s_ in sorted(sites, key=lambda x: (x["file"], x["l"])):
        ty = fold_self.get((s_["file"], s_["l"]))
        short = re.sub(r"<.*$", "", (ty or "").split("::")[-1] if "<" not in (ty or "") else re.sub(r"<.*$", "", ty).split("::")[-1])
        fn_short = s_["fn"].split("::")[-1]
        ordinal[(s_["fn"], short)] = ordinal.get((s_["fn"], short), 0) + 1
        key = f"infallible:{s_['fn']}:{short or '?'}#{ordinal[(s_['fn'], short)]}"
        n_sites += 1
        if not short:
            rep.bad(key, f"the folder type of the unwrapped fold at line {s_['l']} could not be resolved", file=s_["file"], line=s_["l"], fn=s_["fn"])
            continue
        impls = [i for i in syn.impls if i.get("self_short") == short and i.get("trait_short") in FOLD_TRAITS]
        traits = sorted({i["trait_short"] for i in impls})
        family = [f for f in syn.fns if "body" in f and ((f.get("self_short") == short and f.get("trait_short") in FOLD_TRAITS)
                                                         or (f.get("self_short") in traits and f.get("trait_short") in traits)
                                                         or (f.get("self_short") is None and f["name"].startswith("fold") and f["file"] in {trait_files.get(t) for t in traits}))]
        src = []
        for f in family:
            for (l, what) in _error_sources(f):
                src.append(f"{f['path'].split('::')[-1]}:{l} {what}")
        rep.check(bool(family) and not src, key, f"{s_['fn']} unwraps the result of folding with `{short}` (line {s_['l']}), but that fold can fail: {src[:4]} - an input that reaches the error is a panic, "
                  "not an error" if src else f"no fold implementation found for `{short}`", file=s_["file"], line=s_["l"], fn=s_["fn"], detail={"folder": short, "traits": traits, "family": len(family)})
    rep.check(n_sites >= 10, "sites", f"expected >= 10 unwrapped folds, found {n_sites}")


def r11(ctx, rep):
    rep.rule("C12.R11", "the Flattener reaches every expression: the lowerer's `unreachable!(\"transform `Group` / `Window` cannot be lowered\")` holds only if no part of the "
             "tree (the body of a `loop` function included) is returned as it is", floor=5)
    import C10
    syn = ctx.syn
    fns = [f for f in syn.fns if f["crate"] == "prqlc" and f["file"].endswith("resolver/flatten.rs") and f.get("self_short") == "Flattener" and f["name"].startswith("fold_") and "body" in f]
    if not fns:
        raise AnchorMissing("impl PlFold for Flattener")
    n = C10.fold_audit(ctx, rep, fns, consequence="a `group` / `window` inside it is never flattened and the lowerer panics on it", parts=("arms",))
    fe = [f for f in fns if f["name"] == "fold_expr"]
    # the catch-all of fold_expr hands the rest to the default folder
    ok = False
    for f in fe:
        for m in matches_of(f["body"]):
            last = m["arms"][-1]
            if last["pat"].get("k") in ("p_ident", "p_wild") and last["pat"].get("sub") is None and any(x.get("k") == "mcall" and x["m"] == "fold_expr_kind" for x in walk(last["body"])):
                ok = True
    rep.check(bool(fe) and ok, "catch-all-delegates", "Flattener::fold_expr must pass every expression kind it does not handle itself to `fold_expr_kind` (the default folder, which descends into it)",
              file=fe[0]["file"] if fe else None, line=fe[0]["l"] if fe else None, fn=fe[0]["path"] if fe else None)
    rep.check(n >= 4, "sites", f"expected the arms of Flattener::fold_expr over TransformCall and its kinds, found {n} expression-carrying parts")


def r12(ctx, rep):
    """`g(p)` unwraps a fallible conversion of its own parameter (`p.try_map(as_int).unwrap()`): a stated belief that the caller has
    validated `p`. The belief is checked: every caller makes the same conversion of the same value *fallibly* (`..?`) before it calls g.
    When a caller stops doing so (the validation turned into a default), the unwrap is reachable with the unvalidated value."""
    import guards
    rep.rule("C12.R12", "an unwrapped fallible conversion of a parameter is preceded, in every caller, by the same conversion with error propagation", floor=1)
    syn = ctx.syn
    n_sites = 0
    for g in syn.fns:
        if g["crate"] not in ("prqlc", "prqlc_parser") or "body" not in g or g.get("in_test"):
            continue
        params = []
        for i, p_ in enumerate(g.get("params", [])):
            for x in walk(p_ if isinstance(p_, dict) else {}):
                if x.get("k") == "p_ident" and x["n"] != "self":
                    params.append((x["n"], i))
        pn = dict(params)
        for x in walk(g["body"]):
            if not (x.get("k") == "mcall" and x["m"] in ("unwrap", "expect")):
                continue
            root, convs = x["r"], []
            while root.get("k") in ("mcall", "field", "try", "paren", "ref"):
                if root.get("k") == "mcall":
                    convs.append((root["m"], [show(a_) for a_ in root["a"]]))
                    root = root["r"]
                else:
                    root = root["e"]
            conv = [c for c in convs if c[0].startswith("try_") or c[0] == "parse"]
            if not (root.get("k") == "path" and root["p"] in pn and conv):
                continue
            n_sites += 1
            cname, cargs = conv[-1]
            has_self = any(isinstance(p_, dict) and (p_.get("name") == "self" or p_.get("k") == "self") for p_ in g.get("params", []))
            idx = pn[root["p"]]
            callers = []
            for f in syn.fns:
                if f["crate"] != g["crate"] or "body" not in f or f is g:
                    continue
                for c in walk(f["body"]):
                    if c.get("k") == "call" and c["f"].get("k") == "path" and last_seg(c["f"]["p"]) == g["name"] and len(c["a"]) > idx - (1 if has_self else 0):
                        callers.append((f, c))
            key = f"validated-by-caller:{g['name']}:{root['p']}.{cname}"
            if not callers:
                rep.bad(key, f"{g['name']} unwraps `{show(x['r'], maxdepth=6)}` of its parameter `{root['p']}` and no caller was found that could have validated it", file=g["file"], line=x["l"], fn=g["path"])
                continue
            for f, c in callers:
                arg = c["a"][idx - (1 if has_self else 0)]
                v = arg
                while v.get("k") in ("mcall", "ref", "paren", "field") and not (v.get("k") == "mcall" and v["m"] not in ("clone", "to_owned", "as_ref")):
                    v = v["r"] if v.get("k") == "mcall" else v["e"]
                vname = show(v)
                ok = False
                for t in walk(f["body"]):
                    if t.get("k") != "try" or t["l"] > c["l"]:
                        continue
                    for m in walk(t["e"]):
                        if m.get("k") == "mcall" and m["m"] == cname and [show(a_) for a_ in m["a"]] == cargs:
                            r2 = m["r"]
                            while r2.get("k") in ("mcall", "ref", "paren") and (r2.get("k") != "mcall" or r2["m"] in ("clone", "to_owned", "as_ref")):
                                r2 = r2["r"] if r2.get("k") == "mcall" else r2["e"]
                            if show(r2) == vname:
                                ok = True
                rep.check(ok, key + ":" + f["name"], f"{g['name']} unwraps `{show(x['r'], maxdepth=6)}` on the belief that its caller has validated `{root['p']}`; {f['name']} calls it with `{show(arg)}` "
                          f"without a preceding `{vname}...{cname}({', '.join(cargs)})..?`: a value that does not convert reaches the unwrap and panics", file=f["file"], line=c["l"], fn=f["path"])
    rep.check(n_sites >= 1, "sites", f"expected the take range conversion in create_filter_by_row_number, found {n_sites} unwrapped conversions of parameters")


def r13(ctx, rep):
    """A `TableDecl` of the resolver is read with `ty.as_ref().unwrap().as_relation().unwrap()` (lineage_of_table_decl, lower_table_decl): the
    readers rely on every table declaration having a relation type. That is decided where declarations are made: each construction gives
    `Some(Ty::relation(..))`, or stands under a test that the type it is given `is_relation()`."""
    import guards
    rep.rule("C12.R13", "every resolver TableDecl is constructed with a relation type (built with Ty::relation, or under an `is_relation()` test of the type it gets)", floor=4)
    syn = ctx.syn
    n_sites = 0
    for f in syn.fns:
        if f["crate"] != "prqlc" or "/semantic/" not in f["file"] or "body" not in f:
            continue
        par = None
        inits = {}
        for n in walk(f["body"]):
            if n.get("k") == "local" and n.get("init") is not None and n["pat"].get("k") == "p_ident":
                inits.setdefault(n["pat"]["n"], []).append(n["init"])
        for n in walk(f["body"]):
            if not (n.get("k") == "struct" and last_seg(n["p"]) == "TableDecl"):
                continue
            d = dict(n["f"])
            if set(d) != {"ty", "expr"}:
                continue
            n_sites += 1
            tyv = d["ty"]
            cands = [tyv] + (inits.get(tyv["p"], []) if tyv.get("k") == "path" else [])
            built = any(re.fullmatch(r"Some\(Ty::relation\(.*\)\)", show(c, maxdepth=10), re.S) for c in cands)
            guarded = False
            if not built:
                par = par or guards.parents(f["body"])
                cur = n
                tname = show(tyv)
                while id(cur) in par:
                    p_ = par[id(cur)]
                    if p_.get("k") == "if" and p_.get("t") is not None and any(x is cur for x in walk(p_["t"])):
                        for cj in guards.conjuncts(p_["c"]):
                            t = show(cj, maxdepth=10)
                            if t.startswith(tname) and "is_relation()" in t and not t.startswith("!") and "||" not in t:
                                guarded = True
                            # the same test under a name: `let is_rel = match <ty>.as_ref() { Some(t) => t.is_relation(), None => false };`
                            if cj.get("k") == "path" and cj["p"] in inits and len(inits[cj["p"]]) == 1:
                                i_ = inits[cj["p"]][0]
                                ti = show(i_, maxdepth=10)
                                if ti.startswith(tname) and "is_relation()" in ti and "||" not in ti and not ti.startswith("!"):
                                    guarded = True
                                if i_.get("k") == "match" and show(i_["e"], maxdepth=6).startswith(tname):
                                    arms = {show(a_["pat"]): show(a_["body"], maxdepth=6) for a_ in i_["arms"]}
                                    some = [v for k_, v in arms.items() if k_.startswith("Some(")]
                                    none = [v for k_, v in arms.items() if k_ in ("None", "_")]
                                    if len(some) == 1 and re.fullmatch(r"\w+\.is_relation\(\)", some[0]) and none == ["false"]:
                                        guarded = True
                    cur = p_
            rep.check(built or guarded, f"table-decl-type:{f['name']}:{n_sites}", f"{f['name']} declares a table whose type is `{show(tyv, maxdepth=6)}`: neither built with `Ty::relation(..)` nor under a test "
                      f"`{show(tyv)}..is_relation()`; readers of table declarations unwrap `ty.as_relation()` (lineage_of_table_decl, lower_table_decl), so a reference to this declaration panics",
                      file=f["file"], line=n["l"], fn=f["path"])
    rep.check(n_sites >= 4, "sites", f"expected the table declarations of stmt.rs (2), inference.rs and module.rs, found {n_sites}")


def r14(ctx, rep):
    """A function that calls itself (`let f = x -> f x`, or two that call each other) is resolved by materialising its body, which applies
    it again: without a bound this never ends - a stack overflow abort on a three-line program. The function that materialises a body
    counts how many bodies are open and refuses with an error beyond a constant; the count is restored on the way out."""
    import guards
    rep.rule("C12.R14", "materialising a user function's body is bounded: a depth counter is tested against a constant (Err beyond it), incremented before and restored after the body is resolved", floor=3)
    syn = ctx.syn
    f = syn.fn("Resolver::materialize_function", crate="prqlc")
    loc = dict(file=f["file"], fn=f["path"])
    stmts = f["body"].get("s", [])
    # the counter: a field of self that is incremented at the top level of the body
    incs = [(i, st) for i, st in enumerate(stmts) if st.get("k") == "bin" and st.get("op") == "+=" and show(st["lhs"]).startswith("self.") and lit_val(st["rhs"]) in (1, "1")]
    if not incs:
        incs = [(i, st) for i, st in enumerate(stmts) if st.get("k") in ("assign_op",) and show(st.get("lhs", {})).startswith("self.")]
    rep.check(len(incs) == 1, "function-depth:counted", f"materialize_function counts the open function bodies (`self.<counter> += 1` at the top level; found {len(incs)})", line=f["l"], **loc)
    if len(incs) != 1:
        rep.bad("function-depth:bounded", "materialize_function has no bound on the number of function bodies that are open at once: a function that calls itself "
                "(`let f = x -> f x`) is resolved until the stack overflows", line=f["l"], **loc)
        return
    i_inc, inc = incs[0]
    counter = show(inc["lhs"])
    # the test: before the increment, `if <counter> >= / > CONST { return Err(..) }`
    tests = []
    for i, st in enumerate(stmts[:i_inc]):
        if st.get("k") == "if" and st["c"].get("k") == "bin" and st["c"]["op"] in (">=", ">") and show(st["c"]["lhs"]) == counter:
            bound = st["c"]["rhs"]
            is_const = bound.get("k") == "lit" or (bound.get("k") == "path" and bound["p"].isupper())
            errs = any(x.get("k") == "return" and x.get("e") is not None and show(x["e"], maxdepth=3).startswith("Err(") for x in walk(st["t"]))
            if is_const and errs:
                tests.append(st)
    rep.check(len(tests) == 1, "function-depth:bounded", f"before it goes deeper materialize_function compares `{counter}` with a constant and returns an error beyond it (found {len(tests)} such test(s)): "
              "a recursive function otherwise overflows the stack", line=f["l"], **loc)
    # the body is resolved between the increment and a restoring assignment; the result of the body is what is returned
    after = stmts[i_inc + 1:]
    body_calls = [st for st in after if st.get("k") == "local" and st.get("init") is not None and any(x.get("k") == "mcall" and show(x["r"]) == "self" for x in walk(st["init"]))]
    restores = [st for st in after if st.get("k") == "assign" and show(st["lhs"]) == counter and re.search(r"saturating_sub\(1\)| - 1", show(st["rhs"], maxdepth=6))]
    restores += [st for st in after if st.get("k") == "bin" and st.get("op") == "-=" and show(st["lhs"]) == counter]
    ok = len(body_calls) >= 1 and len(restores) == 1 and restores[0]["l"] > body_calls[0]["l"] and not any(x.get("k") == "try" for st in after[:after.index(restores[0])] for x in walk(st))
    rep.check(ok, "function-depth:restored", f"`{counter}` is restored after the body was resolved, on the error path too (no `?` between the increment and the restore; found {len(body_calls)} body call(s), "
              f"{len(restores)} restore(s)): otherwise sibling calls add up and a long pipeline of user-function calls is refused", line=f["l"], **loc)


def r15(ctx, rep):
    """`resolve_ident` follows an `import` declaration to its target by calling itself. `import a = a` (or a longer cycle) would be followed
    forever: the recursive call stands between an increment and a restore of a counter that is tested against a constant first."""
    import guards
    rep.rule("C12.R15", "following an import is bounded: the recursive resolve_ident call is preceded by a counter test against a constant (Err beyond it) and an increment, and followed by the restore", floor=2)
    syn = ctx.syn
    f = syn.fn("Resolver::resolve_ident", crate="prqlc")
    loc = dict(file=f["file"], fn=f["path"])
    par = guards.parents(f["body"])
    rec = [n for n in walk(f["body"]) if n.get("k") == "mcall" and n["m"] == "resolve_ident" and show(n["r"]) == "self"]
    rep.check(len(rec) >= 1, "import-follow:site", f"expected the recursive call that follows an import target, found {len(rec)}", line=f["l"], **loc)
    for k_, c in enumerate(rec, 1):
        # the block the call's statement stands in
        cur = c
        while id(cur) in par and par[id(cur)].get("k") != "block":
            cur = par[id(cur)]
        blk = par.get(id(cur))
        stmts = blk.get("s", []) if blk else []
        i = next((j for j, st in enumerate(stmts) if st is cur), None)
        before, after = (stmts[:i], stmts[i + 1:]) if i is not None else ([], [])
        incs = [st for st in before if st.get("k") == "bin" and st.get("op") == "+=" and show(st["lhs"]).startswith("self.")]
        counter = show(incs[-1]["lhs"]) if incs else None
        tests = [st for st in before if counter and st.get("k") == "if" and st["c"].get("k") == "bin" and st["c"]["op"] in (">=", ">") and show(st["c"]["lhs"]) == counter
                 and (st["c"]["rhs"].get("k") == "lit" or (st["c"]["rhs"].get("k") == "path" and st["c"]["rhs"]["p"].isupper()))
                 and any(x.get("k") == "return" and x.get("e") is not None and show(x["e"], maxdepth=3).startswith("Err(") for x in walk(st["t"]))]
        restores = [st for st in after if counter and ((st.get("k") == "assign" and show(st["lhs"]) == counter) or (st.get("k") == "bin" and st.get("op") == "-=" and show(st["lhs"]) == counter))]
        no_try = not any(x.get("k") == "try" for x in walk(cur))
        rep.check(bool(counter) and len(tests) == 1 and len(restores) == 1 and no_try, f"import-follow:bounded:{k_}",
                  f"resolve_ident follows an import by calling itself; the call must be bounded by a counter (`self.<n> >= CONST => Err`, `+= 1` before, restore after, no `?` on the call): "
                  f"found counter {counter}, {len(tests)} test(s), {len(restores)} restore(s) - `import a = a` otherwise overflows the stack", line=c["l"], **loc)


def run(ctx, rep):
    for r in (r1, r2, r3, r4, r5, r6, r7, r8, r9, r10, r11, r12, r13, r14, r15):
        rep.guard(r, ctx)
