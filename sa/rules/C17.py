"""C17 - tokens tile the source and re-lex to themselves.

Decides (combinator-chain rules on the lexer):
  R1 every token's span is the span consumed by the parser of exactly that token
  R2 a rejected source yields errors and no tokens
  R3 between tokens only inline whitespace is discarded
  R4 look-ahead used after keywords / literals accepts end of input and consumes nothing
Not decided: re-lexing each slice in isolation; ordering/non-overlap as such (follows from R1+R3 and chumsky's
sequencing, assumption A4).
"""
from synq import (walk, show, show_stmts, strs, last_seg, pat_alts, pat_head, tail_expr, matches_of, mcalls, calls,
                  macros, lit_val, AnchorMissing)
from synq import chain as mchain

META = (
    "combinator-chain rules on the lexer",
    ["A1", "A4 chumsky sequencing and map_with span semantics"],
    "syntax-tree rules over the chumsky combinator chains of lexer/mod.rs (who is spanned, what is discarded, what the "
    "look-ahead accepts) and over the two entry points' error arms",
    True,
)

LEX = "prqlc-parser/src/lexer/mod.rs"


def r1(ctx, rep):
    import alpha
    import re
    rep.rule("C17.R1", "a token's span is exactly what its own parser consumed", floor=4)
    syn = ctx.syn
    n_sites = 0
    for f in syn.fns_in_file(LEX):
        if "body" not in f:
            continue
        A = alpha.Inliner(f)
        for n in walk(f["body"]):
            if n.get("k") == "struct" and last_seg(n["p"]) == "Token":
                n_sites += 1
                d = {a: b for a, b in n["f"]}
                sp = d.get("span")
                key = f"token-site:{f['name']}:{n_sites}"
                if f["name"] == "insert_start":
                    ok = sp is not None and sp.get("k") == "range" and lit_val(sp.get("s")) == 0 and lit_val(sp.get("e")) == 0 and show(d.get("kind")) == "TokenKind::Start"
                    rep.check(ok, key, "the synthetic Start token must be 0..0", file=f["file"], line=n["l"], fn=f["path"])
                    continue
                # locals inlined, closure parameters numbered: `<extra>.span().start()..<extra>.span().end()` for the closure's `extra`
                t = A.show(sp) if sp is not None else ""
                m = re.fullmatch(r"(\w+)\.span\(\)\.start\(\)\.\.(\w+)\.span\(\)\.end\(\)", t)
                rep.check(bool(m) and m.group(1) == m.group(2), key, f"Token.span must be start..end of the span of the parser it is mapped over (`extra.span()`); found `{t}`", file=f["file"], line=n["l"], fn=f["path"])
    rep.check(n_sites == 3, "token-sites", f"expected 3 Token construction sites in the lexer (range, other tokens, start), found {n_sites}")
    lt = syn.fn("lexer::lex_token", crate="prqlc_parser")
    A = alpha.Inliner(lt)
    tail = tail_expr(lt["body"])
    alts = []
    if tail is not None and tail.get("k") == "call" and last_seg(show(tail["f"])) == "choice" and tail["a"] and tail["a"][0].get("k") == "tuple":
        for e in tail["a"][0]["e"]:
            node = e
            for _ in range(4):
                if node.get("k") == "path" and "::" not in node["p"]:
                    i = A._init_of(node, node["p"])
                    if i is None:
                        break
                    node = i
                else:
                    break
            alts.append(node)
    is_range = lambda n: any(x.get("k") == "call" and last_seg(show(x["f"])) == "just" and x["a"] and lit_val(x["a"][0]) == ".." for x in walk(n))
    rep.check(len(alts) == 2 and is_range(alts[0]) and not is_range(alts[1]), "choice", "lex_token must try the range token first, then any other token", file=lt["file"], line=lt["l"], fn=lt["path"])
    rg = alts[0] if alts and is_range(alts[0]) else None
    ot = alts[1] if len(alts) == 2 else None
    ok = False
    if ot is not None and ot.get("k") == "mcall" and ot["m"] == "ignore_then":
        recv = show(ot["r"])
        arg = ot["a"][0]
        ok = recv == "whitespace().or_not()" and arg.get("k") == "mcall" and arg["m"] == "map_with" and show(arg["r"]) == "token()"
    rep.check(ok, "other-tokens:span-scope", "for ordinary tokens the leading whitespace must be skipped OUTSIDE the spanned parser: `whitespace().or_not().ignore_then(token().map_with(..extra.span()..))`; "
              "otherwise token spans include the whitespace before them", file=lt["file"], line=lt["l"], fn=lt["path"])
    ok = rg is not None and rg.get("k") == "mcall" and rg["m"] == "map_with" and show(rg["r"], maxdepth=8) == "whitespace().or_not().then(just('..')).then(whitespace().or_not())"
    rep.check(ok, "range:owns-whitespace", "the range token is the one token that owns its surrounding whitespace (bind_left / bind_right are derived from it)", file=lt["file"], line=lt["l"], fn=lt["path"])
    if ok:
        cl = rg["a"][0]
        names = [x["n"] for x in walk(cl["params"][0]) if x.get("k") in ("p_ident", "p_wild") and x.get("k") == "p_ident"]
        st = None
        for n in walk(cl):
            if n.get("k") == "struct" and last_seg(n["p"]) == "Range":
                st = {a: show(b) for a, b in n["f"]}
        # ((left, _), right): first bound name is the whitespace before, last the whitespace after
        rep.check(len(names) == 2 and st == {"bind_left": f"{names[0]}.is_none()", "bind_right": f"{names[1]}.is_none()"} and cl["params"][0].get("k") == "p_tuple", "range:binding",
                  f"bind_left / bind_right must mean 'no whitespace on that side'; found {st} for parameters {show(cl['params'][0])}", file=lt["file"], line=lt["l"], fn=lt["path"])


def r2(ctx, rep):
    rep.rule("C17.R2", "a rejected source yields errors and no tokens", floor=2)
    syn = ctx.syn
    import alpha
    for name, want_ok, want_err in (("lex_source", "Ok(Tokens(insert_start({ok}.to_vec())))", "Err({err})"),
                                    ("lex_source_recovery", "(Some(insert_start({ok}.to_vec())), vec!())", "(None, {err})")):
        f = syn.fn("lexer::" + name, crate="prqlc_parser")
        A = alpha.Inliner(f)
        # the match over the lexer's result (scrutinee compared after inlining: the local may have any name or none)
        m = None
        for mm in matches_of(f["body"]):
            if A.show(mm["e"]) == "lexer().parse(source).into_result()":
                m = mm
        rows = {}
        bound = {}
        if m:
            for arm in m["arms"]:
                h = str(pat_head(arm["pat"]))
                b = arm["body"]
                bound[h] = [x["n"] for x in walk(arm["pat"]) if x.get("k") == "p_ident"]
                ab = alpha.Inliner(f, max_inline=2)
                rows[h] = ab.show(tail_expr(b) if b.get("k") == "block" else b)
        okn, errn = (bound.get("Ok") or ["?"])[0], (bound.get("Err") or ["?"])[0]
        err_tail = rows.get("Err", "")
        # the Err arm converts the errors (map + collect) and returns only them
        err_ok = err_tail.startswith(want_err.split("{err}")[0]) and "convert_lexer_error" in err_tail and okn not in err_tail
        rep.check(rows.get("Ok") == want_ok.format(ok=okn) and err_ok, f"arms:{name}",
                  f"{name} must return the tokens only on success and only the errors on failure; found {rows}", file=f["file"], line=f["l"], fn=f["path"])
        rep.check(m is not None, f"whole-input:{name}", "the lexer must be run over the whole source with into_result() (errors => no output)", file=f["file"], line=f["l"], fn=f["path"])
        # `source` must be the caller's string itself: spans are offsets into it
        params = [show(p.get("pat", p)) if isinstance(p, dict) else str(p) for p in f.get("params", [])]
        shadow = [show(n["pat"]) for n in walk(f["body"]) if n.get("k") == "local" and show(n["pat"]).replace("mut ", "") == "source"]
        rep.check(not shadow and any(p.split(":")[0].strip() == "source" for p in params), f"same-string:{name}",
                  f"{name} lexes a string derived from its argument (`let source = ..`): token spans then index the derived string, not the source the caller holds "
                  "(a stripped prefix shifts every span)", file=f["file"], line=f["l"], fn=f["path"])
    ce = syn.fn("lexer::convert_lexer_error", crate="prqlc_parser")
    rep.check("Reason::Unexpected" in show_stmts(ce["body"], maxdepth=10) or any(n.get("k") == "struct" and n["p"].endswith("Reason::Unexpected") for n in walk(ce["body"])), "error-has-reason", "every lexer error must carry a reason", file=ce["file"], line=ce["l"], fn=ce["path"])


def r3(ctx, rep):
    rep.rule("C17.R3", "only inline whitespace is discarded between tokens", floor=4)
    syn = ctx.syn
    ws = syn.fn("lexer::whitespace", crate="prqlc_parser")
    rep.check(show(tail_expr(ws["body"])) == "text::inline_whitespace().at_least(1)", "whitespace-def", "whitespace() must be inline whitespace only (newlines are tokens)", file=ws["file"], line=ws["l"], fn=ws["path"])
    for name in ("lexer", "lex_token"):
        f = syn.fn("lexer::" + name, crate="prqlc_parser")
        for n in walk(f["body"]):
            if n.get("k") == "mcall" and n["m"] in ("ignore_then", "then_ignore", "padded_by", "padded", "delimited_by"):
                dropped = n["r"] if n["m"] == "ignore_then" else (n["a"][0] if n["a"] else None)
                if n["m"] in ("padded", "padded_by", "delimited_by"):
                    rep.bad(f"discard:{name}:{n['m']}", f"`.{n['m']}(..)` in {name} discards input that is not inline whitespace", file=f["file"], line=n["l"], fn=f["path"])
                    continue
                t = show(dropped, maxdepth=6)
                rep.check(t in ("whitespace().or_not()", "whitespace()", "whitespace().repeated()"), f"discard:{name}:{n['m']}:{t[:30]}",
                          f"{name} discards `{t}` between tokens; only inline whitespace may be dropped (anything else is source text no token covers)", file=f["file"], line=n["l"], fn=f["path"])
    lx = syn.fn("lexer::lexer", crate="prqlc_parser")
    rep.check(show(tail_expr(lx["body"]), maxdepth=8) == "lex_token().repeated().collect().then_ignore(whitespace().or_not())", "lexer-shape", "the lexer must be lex_token* followed by optional trailing whitespace", file=lx["file"], line=lx["l"], fn=lx["path"])
    # token(): comment and newline are tokens (not skipped)
    tk = syn.fn("lexer::token", crate="prqlc_parser")
    t = show(tail_expr(tk["body"]), maxdepth=10)
    rep.check("newline().to(TokenKind::NewLine)" in t and "comment()" in t and "line_wrap()" in t, "newline-comment-are-tokens", "newlines, comments and line wraps must be emitted as tokens", file=tk["file"], line=tk["l"], fn=tk["path"])


def r4(ctx, rep):
    rep.rule("C17.R4", "look-ahead accepts end of input and consumes nothing", floor=3)
    syn = ctx.syn
    f = syn.fn("lexer::end_expr", crate="prqlc_parser")
    t = tail_expr(f["body"])
    ok = t is not None and t.get("k") == "mcall" and t["m"] == "rewind"
    alts = show(t["r"], maxdepth=10) if ok else ""
    rep.check(ok, "rewind", "end_expr must be a pure look-ahead (.rewind())", file=f["file"], line=f["l"], fn=f["path"])
    rep.check("end()" in alts, "accepts-end", f"end_expr must accept end of input (a keyword or literal at the very end of its own slice must still lex); alternatives: {alts}", file=f["file"], line=f["l"], fn=f["path"])
    # every character that starts a newline token ends an expression
    nl = syn.fn("lexer::newline", crate="prqlc_parser")
    nl_first = set()
    for n in walk(nl["body"]):
        if n.get("k") == "call" and last_seg(show(n["f"])) == "just" and n["a"] and isinstance(lit_val(n["a"][0]), str):
            nl_first.add(lit_val(n["a"][0])[:1])
    # only the heads of the or-chain count: `just('\r').then_ignore(just('\n').or_not())` contributes '\r'; '\n' is also a head
    accepted = set()
    if ok:
        for n in walk(t["r"]):
            if n.get("k") == "call":
                cn = last_seg(show(n["f"]))
                if cn == "one_of" and n["a"] and isinstance(lit_val(n["a"][0]), str):
                    accepted |= set(lit_val(n["a"][0]))
                if cn == "just" and n["a"] and isinstance(lit_val(n["a"][0]), str):
                    accepted.add(lit_val(n["a"][0])[:1])
                if cn == "newline":
                    accepted |= nl_first
    missing = sorted(nl_first - accepted)
    rep.check(bool(nl_first) and not missing, "accepts-newline", f"end_expr does not accept {missing!r}, which start(s) a newline token: a keyword or `true`/`false`/`null` at the end of such a line lexes as an identifier "
              "(CR / CRLF line endings)", file=f["file"], line=f["l"], fn=f["path"])
    # every character that can start the NEXT token without being part of a word must end the look-ahead, otherwise the word
    # is lexed as an identifier there but as a keyword / literal in isolation
    tk = syn.fn("lexer::token", crate="prqlc_parser")
    starts = set()
    for n in walk(tk["body"]):
        if n.get("k") == "call" and last_seg(show(n["f"])) == "one_of" and n["a"] and isinstance(lit_val(n["a"][0]), str):
            starts |= set(lit_val(n["a"][0]))
    import tables as _tables
    mo, multi_ops = _tables.lexer_multi_char_ops(syn)
    for spelling in multi_ops:
        starts.add(spelling[:1])
    not_ending = sorted(c for c in starts - accepted if not (c.isalnum() or c == "_"))
    rep.check(len(starts) >= 15 and not not_ending, "accepts-token-starts",
              f"end_expr does not accept {''.join(not_ending)!r}: a keyword or `true`/`false`/`null` directly followed by one of these operator characters lexes as an identifier "
              "(`true+1` -> Ident(\"true\")), while its own slice `true` lexes as a literal", file=f["file"], line=f["l"], fn=f["path"])
    # users of end_expr use then_ignore (so the look-ahead text is not part of the token)
    n_users = 0
    for g in syn.fns_in_file(LEX):
        if "body" not in g:
            continue
        for n in walk(g["body"]):
            if n.get("k") == "call" and show(n["f"]) == "end_expr":
                n_users += 1
    rep.check(n_users >= 5, "users", f"expected >= 5 uses of end_expr (keywords, booleans, null, value_and_unit, dates), found {n_users}")
    dt = syn.fn("lexer::date_token", crate="prqlc_parser")
    # (wherever the sub-parser is bound: in the tail expression or in an intermediate `let`)
    look = [n for n in walk(dt["body"]) if n.get("k") == "mcall" and n["m"] == "rewind" and "is_ascii_digit" in show(n["r"], maxdepth=10)]
    rep.check(bool(look), "date-lookahead", "the digit look-ahead after `@` must not consume the digit", file=dt["file"], line=dt["l"], fn=dt["path"])


def r5(ctx, rep):
    # "for every source it rejects, it reports at least one error and no tokens": a panic while the error is converted is neither. The
    # panic-capable sites of the lexer (indexing / slicing a string by an offset, unwraps) are those of C12's inventory for lexer/
    import C12
    rep.borrowed(C12.r1, ctx, "C17.R5", "the lexer's error path returns errors: its panic-capable sites stay within their reviewed classes", only=r"^(class|guard):lexer/")


CONSUMING = {"then", "then_ignore", "ignore_then", "repeated", "separated_by", "delimited_by", "padded_by", "foldl", "foldr"}


def r6(ctx, rep):
    """A token re-lexes to itself only if accepting it never needs text beyond its own span. A look-ahead (`.rewind()`, `.not()`,
    `and_is(..)`) is such a need. It is harmless in two cases: the token's own parser goes on to consume what was looked at (the digit
    after `@` in a date), or the look-ahead also accepts the end of input (then the token lexes at the end of its own slice)."""
    from guards import parents
    rep.rule("C17.R6", "every look-ahead in the lexer is followed by consumption inside the same token or accepts end of input", floor=2)
    syn = ctx.syn
    n = 0
    for f in syn.fns_in_file(LEX):
        if "body" not in f or f.get("in_test"):
            continue
        par = parents(f["body"])
        for x in walk(f["body"]):
            if not (x.get("k") == "mcall" and x["m"] in ("rewind", "not", "and_is") and x.get("r") is not None):
                continue
            if x["m"] == "rewind" and show(x["r"]) in ("input", "inp") or (x["m"] == "rewind" and x["a"]):
                continue  # imperative `input.rewind(checkpoint)` in a custom parser: covered by C08.R12 (quotes given back)
            n += 1
            looked = x["r"] if x["m"] != "and_is" else x["a"][0]
            accepts_end = any(c.get("k") == "call" and last_seg(show(c["f"])) == "end" and not c["a"] for c in walk(looked)) or \
                any(c.get("k") == "call" and show(c["f"]) == "end_expr" for c in walk(looked))
            if x["m"] == "not":
                # a negative look-ahead succeeds at the end of input exactly when what it negates does not
                accepts_end = not accepts_end
            # climb: is the look-ahead followed, inside the same combinator chain, by something that consumes input?
            def climbs(cur, depth=0):
                while id(cur) in par:
                    p_ = par[id(cur)]
                    if p_.get("k") == "mcall":
                        if p_.get("r") is cur and p_["m"] in CONSUMING:
                            return True
                        # cur is an argument of p_ (`.then(<look-ahead>)`, `.then_ignore(<look-ahead>)`): go on from p_, what follows p_ in the chain follows the look-ahead
                        cur = p_
                        continue
                    if p_.get("k") in ("paren", "ref"):
                        cur = p_
                        continue
                    if p_.get("k") == "local" and p_.get("init") is cur and p_["pat"].get("k") == "p_ident" and depth < 3:
                        # the chain so far is bound to a name (`let at_before_digit = just('@').then(<look-ahead>);`): it goes on where the name is used
                        uses = [u for u in walk(f["body"]) if u.get("k") == "path" and u["p"] == p_["pat"]["n"] and u["l"] >= p_["l"]]
                        return bool(uses) and all(climbs(u, depth + 1) for u in uses)
                    return False
                return False
            consumed_after = climbs(x)
            whole_fn_is_lookahead = tail_expr(f["body"]) is x
            key = f"lookahead:{f['name']}:{n}"
            if whole_fn_is_lookahead:
                # a helper that *is* a look-ahead (end_expr): its users append it to a token; it must accept the end of input itself
                rep.check(accepts_end, key, f"{f['name']} is a look-ahead helper that does not accept the end of input", file=f["file"], line=x["l"], fn=f["path"])
            else:
                rep.check(consumed_after or accepts_end, key, f"{f['name']}: the token parser ends in a look-ahead `{show(looked, maxdepth=6)[:80]}` that neither is consumed by the same token afterwards nor "
                          "accepts end of input: whether the token lexes depends on the character after its span, so the token's own slice does not lex to the same token",
                          file=f["file"], line=x["l"], fn=f["path"])
    rep.check(n >= 2, "sites", f"expected the look-aheads of end_expr and date_token, found {n}")


def run(ctx, rep):
    for r in (r1, r2, r3, r4, r5, r6):
        rep.guard(r, ctx)
