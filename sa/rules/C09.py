"""C09 - identifiers are referenced verbatim; generated names never capture user names.

Decides:
  R1 the class of identifiers emitted bare is inside the safe bare class (language enumeration of the regex)
  R2 quoting is total: bare iff (regex and not keyword), otherwise the dialect's quote; quote characters are " or `
  R3 keyword tables are upper-case (lookup upper-cases) and the dialect table is consulted for its dialect
  R4 every generated table / column name is tested against the names in scope in a loop
  R5 every relation / CTE / alias name is emitted through translate_ident / translate_ident_part
Not decided: which object a name binds to in a database.
"""
import itertools
import re

from synq import (walk, show, show_stmts, strs, last_seg, pat_alts, pat_head, tail_expr, matches_of, mcalls, calls,
                  macros, lit_val, AnchorMissing, walk_no_closure)
import guards

META = (
    "identifier quoting and generated-name discipline",
    ["A1", "A2 oracles/libs.json: sqlparser prints quoted identifiers through the same heuristic escaper as strings"],
    "language enumeration of the bare-identifier regex, shape of translate_ident_part, keyword table hygiene, loop "
    "dominance of membership tests over every NameGenerator::gen call site",
    True,
)


def r1(ctx, rep):
    rep.rule("C09.R1", "identifiers emitted without quotes are plain lower-case names", floor=2)
    syn = ctx.syn
    f = syn.fn("utils::valid_ident", crate="prqlc")
    rx = [s for s in strs(f["body"]) if s.startswith("^")]
    try:
        cre = re.compile(rx[0]) if rx else None
    except re.error:
        cre = None
    if cre is None:
        rep.bad("regex", f"valid_ident regex {rx} cannot be interpreted", file=f["file"], line=f["l"], fn=f["path"])
        return
    alphabet = ["a", "z", "A", "_", "0", "9", "$", "-", " ", ".", "é", "*", '"', "'", "`", ";"]
    bad_first, bad_other = [], []
    n = 0
    safe = re.compile(r"^(\*|[a-z_][a-z0-9_]*)$")
    for ln in (1, 2, 3):
        for tup in itertools.product(alphabet, repeat=ln):
            w = "".join(tup)
            n += 1
            if cre.match(w) and not safe.match(w):
                (bad_first if w[0] == "$" else bad_other).append(w)
    rep.check(not bad_other, "bare-class", f"translate_ident_part emits e.g. {bad_other[:6]} without quotes ({n} strings enumerated): upper case, spaces or punctuation need quoting to refer to exactly that name",
              file=f["file"], line=f["l"], fn=f["path"])
    rep.check(not bad_first, "bare-class:leading-dollar", f"identifiers starting with `$` (e.g. {bad_first[:4]}) are emitted without quotes: `$1` is a bind parameter / positional reference in PostgreSQL, SQLite and DuckDB, not the column named `$1`",
              file=f["file"], line=f["l"], fn=f["path"])


def r2(ctx, rep):
    rep.rule("C09.R2", "quoting is total and uses the dialect's identifier quote", floor=4)
    syn = ctx.syn
    f = syn.fn("gen_expr::translate_ident_part", crate="prqlc")
    # decision table over (quoting style of the dialect, matches the bare class, is a keyword): bare output exactly for (Conditionally, true, false).
    # The function body is evaluated (boolfn.leaf): formula, local names, branch order, one match or two are free.
    import alpha
    import boolfn
    A = alpha.Inliner(f)
    prm = f["params"][0]["name"] if f.get("params") and isinstance(f["params"][0], dict) and "name" in f["params"][0] else "ident"
    res = {}
    for style in ("ConditionallyQuoted", "AlwaysQuoted"):
        rows_ok = []
        try:
            for bare in (True, False):
                for kw in (True, False):
                    def atom(t, bare=bare, kw=kw, style=style):
                        t = t.replace(" ", "")
                        if t == f"valid_ident().is_match(&{prm})":
                            return bare
                        if t == f"keywords::is_keyword(&{prm},&ctx.dialect_enum)":
                            return kw
                        if t == "ctx.dialect.ident_quoting_style()":
                            return "IdentQuotingStyle::" + style
                        return None
                    out = show(boolfn.leaf(f["body"], atom, A))
                    want = f"sql_ast::Ident::new({prm})" if (style == "ConditionallyQuoted" and bare and not kw) else f"sql_ast::Ident::with_quote(ctx.dialect.ident_quote(), {prm})"
                    rows_ok.append(out == want)
            res[style] = all(rows_ok)
        except boolfn.Unknown:
            res[style] = False
    rep.check(res["ConditionallyQuoted"], "conditional", "an identifier may be emitted bare only if it matches the bare class AND is not a keyword of the dialect; otherwise it must be quoted with the dialect's quote", file=f["file"], line=f["l"], fn=f["path"])
    rep.check(res["AlwaysQuoted"], "always", "AlwaysQuoted dialects must quote every identifier", file=f["file"], line=f["l"], fn=f["path"])
    # the quoted form: the name is handed unchanged to sqlparser's Ident::with_quote, whose Display uses the same
    # heuristic escaper as string literals (oracles/libs.json)
    import json as _json, os as _os
    L = _json.load(open(_os.path.join(_os.path.dirname(_os.path.dirname(_os.path.dirname(_os.path.abspath(__file__)))), "oracles", "libs.json")))
    raw = [n for n in walk(f["body"]) if n.get("k") == "call" and show(n["f"]) == "sql_ast::Ident::with_quote" and show(n["a"][1]) == "ident"]
    if L["sqlparser"]["single_quoted_string_escaping"] == "heuristic" and raw:
        rep.bad("quoted-ident-unsanitised", "a name that needs quoting is passed unchanged to Ident::with_quote; sqlparser doubles an embedded quote only when it is not preceded by a backslash: "
                "the column `a\\\"b` is emitted as \"a\\\"b\" (identifier `a\\`, then stray text)", file=f["file"], line=raw[0]["l"], fn=f["path"])
    else:
        rep.ok("quoted-ident")
    rep.check(any(n.get("k") == "mcall" and n["m"] == "is_match" and show(n["r"]) == "valid_ident()" for n in walk(f["body"])), "is_bare", "the bare test must be the valid_ident() regex", file=f["file"], line=f["l"], fn=f["path"])
    # quote characters
    quotes = {}
    for g in syn.fns:
        if g["crate"] == "prqlc" and g["name"] == "ident_quote" and "body" in g and (g.get("trait_short") == "DialectHandler" or g.get("self_short") == "DialectHandler"):
            quotes[g.get("self_short")] = lit_val(tail_expr(g["body"]))
    rep.check(bool(quotes) and all(v in ('"', "`") for v in quotes.values()), "quote-chars", f"identifier quote characters must be \" or `; found {quotes}", file="prqlc/prqlc/src/sql/dialect.rs")
    # translate_ident maps every part
    t = syn.fn("gen_expr::translate_ident", crate="prqlc")
    rep.check("translate_ident_part(x, ctx)" in show_stmts(t["body"], maxdepth=12) or any(n.get("k") == "call" and last_seg(show(n["f"])) == "translate_ident_part" for n in walk(t["body"])),
              "every-part", "translate_ident must pass every part of a dotted name through translate_ident_part", file=t["file"], line=t["l"], fn=t["path"])


def r3(ctx, rep):
    rep.rule("C09.R3", "keyword tables are upper-case and the dialect table is used for its dialect", floor=6)
    syn = ctx.syn
    k = syn.fn("keywords::is_keyword", crate="prqlc")
    txt = show_stmts(k["body"], maxdepth=10)
    # truth table of the function over (in the shared table, in the dialect's table); both look-ups must use the UPPER-CASED name
    import alpha
    import boolfn
    Ak = alpha.Inliner(k)
    kp = [p_["name"] for p_ in k.get("params", []) if isinstance(p_, dict) and "name" in p_] or ["ident", "dialect"]
    seen_atoms = set()
    ok = True
    try:
        for a_ in (True, False):
            for b_ in (True, False):
                def atom(t, a_=a_, b_=b_):
                    t2 = t.replace(" ", "")
                    m1 = re.fullmatch(r"sql_keywords\(\)\.contains\((.+)\)", t2)
                    m2 = re.fullmatch(r"dialect_keywords\(%s\)\.contains\((.+)\)" % re.escape(kp[1]), t2)
                    # answer only for the fully inlined form, so that the argument shows where the looked-up text comes from
                    up = f"{kp[0]}.to_ascii_uppercase()"
                    if m1 and up in m1.group(1):
                        seen_atoms.add(("shared", m1.group(1)))
                        return a_
                    if m2 and up in m2.group(1):
                        seen_atoms.add(("dialect", m2.group(1)))
                        return b_
                    return None
                ok = ok and boolfn.ev_body(k["body"], atom, Ak) == (a_ or b_)
    except boolfn.Unknown:
        ok = False
    upper = all(f"{kp[0]}.to_ascii_uppercase()" in arg for _, arg in seen_atoms) and {x for x, _ in seen_atoms} == {"shared", "dialect"}
    rep.check(ok and upper, "lookup",
              "is_keyword must upper-case the identifier and consult both the shared and the dialect's table", file=k["file"], line=k["l"], fn=k["path"])
    n_words = 0
    for st in syn.statics:
        if st["crate"] == "prqlc" and st["file"].endswith("sql/keywords.rs") and st["kind"] == "const" and st["path"].endswith("_KEYWORDS"):
            words = strs(st["init"])
            n_words += len(words)
            bad = [w for w in words if w != w.upper()]
            rep.check(not bad, f"upper:{last_seg(st['path'])}", f"{last_seg(st['path'])} contains {bad[:5]} which are not upper-case: the lookup upper-cases the identifier, so these entries never match",
                      file=st["file"], line=st["l"])
    rep.check(n_words > 300, "tables-present", f"expected the SQLite/Postgres/DuckDB/BigQuery/Redshift keyword tables (>300 words), found {n_words}")
    d = syn.fn("keywords::dialect_keywords", crate="prqlc")
    rows = {}
    for mm in matches_of(d["body"]):
        for a in mm["arms"]:
            rows[last_seg(str(pat_head(a["pat"])))] = show(a["body"])
    rep.check(rows.get("Redshift") == "redshift_keywords()" and rows.get("_") == "empty_keywords()", "dialect-table", f"the Redshift table must be consulted for Redshift only; found {rows}", file=d["file"], line=d["l"], fn=d["path"])
    rk = syn.fn("keywords::redshift_keywords", crate="prqlc")
    # by role: the only table mentioned in the function that fills the Redshift set is the Redshift table (extend / iter().collect() / from_iter ..),
    # and no filtering adapter stands between the table and the set
    tabs = sorted({last_seg(n["p"]) for n in walk(rk["body"]) if n.get("k") == "path" and n["p"].isupper() is False and last_seg(n["p"]).endswith("_KEYWORDS")} |
                  {last_seg(n["p"]) for n in walk(rk["body"]) if n.get("k") == "path" and last_seg(n["p"]).isupper() and "KEYWORDS" in last_seg(n["p"])})
    dropping = [n["m"] for n in walk(rk["body"]) if n.get("k") == "mcall" and n["m"] in ("filter", "filter_map", "skip", "take", "step_by", "skip_while", "take_while", "retain", "remove", "truncate", "pop")]
    rep.check(tabs == ["REDSHIFT_KEYWORDS"] and not dropping, "redshift-source", f"redshift_keywords must be built from the whole of REDSHIFT_KEYWORDS (tables mentioned: {tabs}, dropping adapters: {dropping})", file=rk["file"], line=rk["l"], fn=rk["path"])


def show_stmts_deep(node):
    return " ; ".join(show(n, maxdepth=8) for n in walk(node) if n.get("k") in ("mcall", "call"))


def r4(ctx, rep):
    rep.rule("C09.R4", "generated names are regenerated until they clash with nothing in scope", floor=4)
    syn = ctx.syn
    rev = {
        "gen:prqlc::sql::pq::context::AnchorContext::ensure_column_name:col_name": "names an unnamed expression; the name is entered into column_names and any clash with another column of the "
        "same SELECT is resolved at the split by anchor_split's used_new_names loop (checked below)",
        "gen:prqlc::sql::gen_query::query_to_set_expr:table_name": "alias of the only relation in `SELECT * FROM (<query>) AS table_N` wrapping an operand of a set operation: nothing refers to the alias and no other relation is in scope of that SELECT",
        "gen:prqlc::sql::gen_expr::translate_select_item:col_name": "alias for an expression whose expected name is unknown in the FINAL projection only; it names a result column, nothing refers to it",
    }
    n_sites = 0
    for f in syn.fns:
        if f["crate"] != "prqlc" or "body" not in f or "/sql/" not in f["file"]:
            continue
        par = None
        for n in walk(f["body"]):
            if n.get("k") == "mcall" and n["m"] == "gen" and not n["a"] and (show(n["r"]).endswith("table_name") or show(n["r"]).endswith("col_name")):
                n_sites += 1
                gen = "table_name" if show(n["r"]).endswith("table_name") else "col_name"
                key = f"gen:{f['path']}:{gen}"
                if par is None:
                    par = guards.parents(f["body"])
                # inside a regeneration loop with a membership test? (`while <taken>` or `loop { .. <free> => break .. }`)
                loop, tests, form = guards.regen_loop(par, n, fn=f)
                if loop is not None and tests:
                    rep.ok(key, {"loop": form, "tests": [t[0] for t in tests]})
                elif key in rev:
                    rep.ok(key, {"reviewed": rev[key]})
                else:
                    rep.bad(key, f"`{show(n)}` in {f['path']} is not inside a `while <name already used>` loop: the generated name (`{'table_N' if gen == 'table_name' else '_expr_N'}`) is not checked against "
                            "user tables / columns of the same name, so a user object named like a generated one is captured or a column is dropped as a duplicate", file=f["file"], line=n["l"], fn=f["path"])
    rep.check(n_sites >= 5, "gen-sites", f"expected >= 5 NameGenerator::gen call sites in the SQL back-end, found {n_sites}")
    # the reviewed reason for ensure_column_name rests on anchor_split: the name that yields in a clash must be the generated one
    a = syn.fn("pq::anchor::anchor_split", crate="prqlc")
    pre = {}
    loops = []        # (loop node, [(set text, tested arg node)], locals defined before the column loop, the column loop)
    par_a = guards.parents(a["body"])
    for st in a["body"]["s"]:
        if st.get("k") == "local" and st.get("init") is not None:
            txt = show(st["init"], maxdepth=12)
            if ".gen()" not in txt and "ensure_column_name" not in txt:
                pre[show(st["pat"]).replace("mut ", "")] = st
        if st.get("k") == "for":
            for n in walk(st["body"]):
                if n.get("k") == "mcall" and n["m"] == "gen" and not n["a"] and show(n["r"]).endswith("col_name"):
                    lp, tests, form = guards.regen_loop(par_a, n, fn=a)
                    if lp is not None and tests:
                        loops.append((lp, tests, dict(pre), st))
            break
    ok = False
    for lp, tests, before, _st in loops:
        sets = sorted({t[0] for t in tests if t[0] in before})
        # one set filled inside the loop (names given so far), one collected BEFORE any name is generated (names columns already have)
        def init_text(st0):
            # the initialiser, and (one level) the body of a private helper of the same file it calls with the split's columns
            t0 = show(st0["init"], maxdepth=14)
            i0 = st0["init"]
            if i0.get("k") == "call" and i0["f"].get("k") == "path":
                hs = [h for h in syn.fns if h["crate"] == a["crate"] and h["file"] == a["file"] and h["name"] == last_seg(i0["f"]["p"]) and "body" in h]
                if len(hs) == 1:
                    hb = show_stmts(hs[0]["body"], maxdepth=14) if hs[0]["body"].get("k") == "block" else show(hs[0]["body"], maxdepth=14)
                    if ".gen()" not in hb and "ensure_column_name" not in hb:
                        t0 += " " + hb
            return t0
        pre_filled = [nm for nm in sets if "collect" in init_text(before[nm]) and "cols_at_split" in init_text(before[nm])]
        ok = ok or (len(sets) >= 2 and bool(pre_filled))
    # writer / reader agreement on the set that is filled while names are given out: what is entered is the name that was given
    # (the variable the loop tests and regenerates), each time one is given
    strip = lambda t: re.sub(r"\.(clone|to_owned|to_string)\(\)$", "", t.lstrip("&*")).strip()
    filled_ok, detail = False, "no set that is filled inside the column loop is tested by the regeneration loop"
    for lp, tests, before, st in loops:
        for S, argn in tests:
            if S not in before:
                continue
            v = strip(show(argn))
            fills = [x for x in walk(st["body"]) if x.get("k") == "mcall" and x["m"] in ("insert", "extend", "push") and show(x["r"]) == S and x["a"]]
            if not fills:
                continue        # a set collected before the loop (checked above)
            wrong = [show(x["a"][-1]) for x in fills if strip(show(x["a"][-1])) != v]
            # the fill follows the regeneration loop in the same block (the name is final there)
            blk = guards.parents(st["body"]).get(id(lp))
            after = []
            if blk is not None and blk.get("k") == "block" and any(s2 is lp for s2 in blk["s"]):
                i_lp = [i for i, s2 in enumerate(blk["s"]) if s2 is lp][0]
                after = [x for x in fills if any(guards._contains(s2, x) or s2 is x for s2 in blk["s"][i_lp + 1:])]
            filled_ok = not wrong and bool(after)
            detail = f"`{S}` is tested for `{v}` but filled with {wrong or [show(x['a'][-1]) for x in fills]}" + ("" if after else " (not after the regeneration loop, where the name is final)")
    rep.check(filled_ok, "gen:prqlc::sql::pq::anchor::anchor_split:given-names-recorded",
              f"anchor_split: the set of names already given at this split must receive every name that is given (the regenerated one, not the name before renaming): {detail}; "
              "otherwise a later column that is literally called like a name just generated (`_expr_0`) is not seen as a clash, two columns of the sub-query share a name and a reference binds to the wrong one",
              file=a["file"], line=a["l"], fn=a["path"])
    rep.check(ok, "gen:prqlc::sql::pq::anchor::anchor_split:user-names-first",
              "anchor_split regenerates a clashing name in column order, so when an unnamed expression precedes a user column called `_expr_N` it is the USER's column that is renamed; "
              "the loop must also test a set of the names the split's columns had before any name was generated, and only rename generated names",
              file=a["file"], line=a["l"], fn=a["path"])


def r5(ctx, rep):
    rep.rule("C09.R5", "names are emitted only through translate_ident / translate_ident_part", floor=5)
    cg = ctx.cg
    allowed = {"sql::gen_expr::translate_ident_part"}
    reviewed = {
        "sql::gen_expr::ExprOrSource::into_ast": "the documented s-string hatch: SQL text supplied by the user / a template is wrapped as an unquoted identifier",
        "sql::gen_query::translate_query_sstring": "the documented s-string hatch for whole relations",
        "sql::gen_expr::process_concat": "the constant function name CONCAT",
        "sql::gen_query::translate_query_operator": "the s-string hatch for relation-valued operators (read_parquet ..): template text, not a name",
        "sql::gen_query::query_to_set_expr": "alias generated by NameGenerator (`table_N`): lower-case ASCII, no quoting needed",
        "sql::gen_expr::translate_datetime_literal_with_sqlite_function": "function name DATE/TIME/DATETIME chosen from a fixed match, not user text",
    }
    n = 0
    for fid, f in cg.fns.items():
        if f["crate"] != "prqlc":
            continue
        owner = cg.owner_fn(fid)["path"]
        for r in f["refs"]:
            if r["kind"] == "call" and r.get("def") in ("sqlparser::ast::Ident::new", "sqlparser::ast::Ident::with_quote"):
                n += 1
                key = f"ident-ctor:{owner}:{last_seg(r['def'])}"
                if owner in allowed:
                    rep.ok(key)
                elif owner in reviewed:
                    rep.ok(key, {"reviewed": reviewed[owner]})
                else:
                    rep.bad(key, f"{owner} builds a sqlparser Ident directly ({r['def']}): names must go through translate_ident_part so that quoting and keyword handling apply",
                            file=r["file"], line=r["l"], fn=owner)
    rep.check(n >= 4, "ctor-sites", f"expected >= 4 Ident constructor calls, found {n}")


def r6(ctx, rep):
    import json
    import os
    rep.rule("C09.R6", "the shared keyword table contains every word the engines reserve (bare use would not mean the column)", floor=200)
    syn = ctx.syn
    f = syn.fn("keywords::sql_keywords", crate="prqlc")
    ext = [show(n["a"][0]) for n in walk(f["body"]) if n.get("k") == "mcall" and n["m"] == "extend" and n["a"] and n["a"][0].get("k") == "path"]
    consts = {last_seg(st["path"]): st for st in syn.statics if "sql/keywords.rs" in st["file"] and st["kind"] == "const"}
    union = set()
    for name in ext:
        st = consts.get(name)
        if st is None:
            rep.bad(f"table:{name}", f"sql_keywords extends the set with `{name}`, which is not a const array of keywords.rs", file=f["file"], line=f["l"], fn=f["path"])
            continue
        union |= {lit_val(n) for n in walk(st["init"]) if n.get("k") == "lit"}
    rep.check(len(ext) >= 4, "tables", f"sql_keywords must be built from the engine tables (found {ext})", file=f["file"], line=f["l"], fn=f["path"])
    ora = json.load(open(os.path.join(os.path.dirname(os.path.dirname(os.path.dirname(os.path.abspath(__file__)))), "oracles", "sql_reserved.json")))
    # per-dialect tables: the arm of dialect_keywords for that dialect -> the function it calls -> the const arrays it extends the set with
    dk = syn.fn("keywords::dialect_keywords", crate="prqlc")
    per_dialect = {}
    for m in matches_of(dk["body"]):
        for a in m["arms"]:
            for alt in pat_alts(a["pat"]):
                h = str(pat_head(alt))
                if not h.startswith("Dialect::"):
                    continue
                words_d = set()
                for c_ in walk(a["body"]):
                    if c_.get("k") == "call" and c_["f"].get("k") == "path":
                        hs = [g for g in syn.fns if g["crate"] == "prqlc" and g["file"] == dk["file"] and g["name"] == last_seg(c_["f"]["p"]) and "body" in g]
                        for g in hs:
                            for e_ in walk(g["body"]):
                                if e_.get("k") == "mcall" and e_["m"] == "extend" and e_["a"] and e_["a"][0].get("k") == "path" and last_seg(e_["a"][0]["p"]) in consts:
                                    words_d |= {lit_val(n) for n in walk(consts[last_seg(e_["a"][0]["p"])]["init"]) if n.get("k") == "lit"}
                per_dialect[last_seg(h)] = words_d
    dgroups = ora.get("_dialect_groups", {})
    for group, words in ora.items():
        if group.startswith("_"):
            continue
        have = union | per_dialect.get(dgroups.get(group, ""), set()) if group in dgroups else union
        for w in words:
            why = "bare, it is a niladic function call, not the column" if group == "niladic_functions" else f"it is reserved ({group})"
            if group in dgroups:
                rep.check(w in have, f"reserved:{group}:{w}", f"`{w}` is neither in the shared keyword tables nor in the table dialect_keywords gives for Dialect::{dgroups[group]}: a column or table "
                          f"of that name is emitted unquoted for that target although {why}", file=dk["file"], line=dk["l"], fn=dk["path"])
                continue
            rep.check(w in union, f"reserved:{group}:{w}", f"`{w}` is missing from the keyword tables sql_keywords() is built from: a column or table of that name is emitted unquoted although {why}",
                      file=f["file"], line=f["l"], fn=f["path"])


def r7(ctx, rep):
    # a column renamed to a spelling that differs only in case (`ID = id`) must keep its alias: names are compared exactly
    import C05
    rep.borrowed(C05.r5, ctx, "C09.R7", "the alias decision compares names exactly (an identifier is referenced verbatim)")


def r8(ctx, rep):
    # `"a.b".c` and `a."b.c"` are different identifiers: keyed by their joined text one of them is dropped from the projection
    import C05
    rep.borrowed(C05.r8, ctx, "C09.R8", "select items are compared by their whole (qualified) identifier", only=r"^dedupe-key")


def r9(ctx, rep):
    rep.rule("C09.R9", "table names are kept unique as whole identifiers (schema path and name), never by their last part", floor=1)
    syn = ctx.syn
    f = syn.fn("postprocess::assign_names", crate="prqlc")
    # role anchor: the set that the regeneration loop of `table_name.gen()` tests
    par = guards.parents(f["body"])
    found = [guards.regen_loop(par, n, fn=f) for n in walk(f["body"]) if n.get("k") == "mcall" and n["m"] == "gen" and show(n["r"]).endswith("table_name")]
    found = [x for x in found if x[0] is not None and x[1]]
    if not found:
        raise AnchorMissing("assign_names: the loop that regenerates `table_name.gen()` until the name is free")
    sets = {t[0] for _, tests_, _ in found for t in tests_}
    loop_keys = [("contains", t[1]) for _, tests_, _ in found for t in tests_]

    def whole(a):
        while a.get("k") in ("ref", "paren") or (a.get("k") == "mcall" and a["m"] in ("clone", "as_ref", "unwrap", "cloned", "to_owned") and not a["a"]):
            a = a["e"] if a.get("k") in ("ref", "paren") else a["r"]
        return show(a, maxdepth=4)
    # the tested / inserted value is the declaration's whole name: `decl.name` itself, or a variable bound to it (`Some(name)` of `&decl.name`, `break name.clone()`)
    def is_whole(a):
        t = whole(a)
        if re.fullmatch(r"\w+\.name", t):
            return True
        if re.fullmatch(r"\w+", t):
            # a local: bound by matching `<decl>.name` (pattern `Some(x)`), or to the value the regeneration loop breaks with
            for m_ in walk(f["body"]):
                if m_.get("k") == "match" and re.fullmatch(r"&?\w+\.name", show(m_["e"])) and any(re.fullmatch(r"Some\(" + t + r"\)", show(a_["pat"])) for a_ in m_["arms"]):
                    return True
            d = guards.visible_def_nodes(par, a, t)
            if d is not None and d.get("init") is not None and d["init"].get("k") == "loop":
                return all(is_whole(b["e"]) for b in walk(d["init"]) if b.get("k") == "break" and b.get("e") is not None)
        return False
    keys = [(x["m"], whole(x["a"][0]), is_whole(x["a"][0])) for n in walk(f["body"]) if n.get("k") == "mcall" for x in [n] if x["m"] in ("contains", "insert") and show(x["r"]) in sets and x["a"]]
    bad = [k[:2] for k in keys if not k[2]]
    rep.check(len(keys) >= 2 and not bad, "taken-names:whole-ident", f"the set of taken table names of assign_names is tested / filled with {keys}: every key must be the declaration's whole `name` (an Ident with its "
              "schema path). Keyed by the last part, `s.t` and `r.t` clash and the user's table `s.t` is renamed to a generated `table_0`, which does not exist", file=f["file"], line=f["l"], fn=f["path"])


def r10(ctx, rep):
    # two relation instances of one SELECT must not share a name: the set of names in use is isolated around nested pipelines, not cleared
    import C07
    rep.borrowed(C07.r4, ctx, "C09.R10", "generated relation aliases are distinct from every name already used in the same SELECT, and the flag that drops table qualifiers belongs to the SELECT it was computed for", only=r"^(names-scope|writes-in-scope)")


TEXT_CHANGING = {"trim", "trim_start", "trim_end", "trim_matches", "trim_start_matches", "trim_end_matches", "strip_prefix", "strip_suffix", "to_lowercase", "to_uppercase",
                 "to_ascii_lowercase", "to_ascii_uppercase", "replace", "replacen", "split", "split_once", "rsplit", "chars", "truncate", "pop", "remove", "retain", "nth", "skip", "take",
                 "filter", "rev", "repeat", "escape_default", "escape_debug", "split_whitespace", "lines", "get", "drain", "insert", "push", "push_str", "make_ascii_lowercase", "make_ascii_uppercase"}


def r11(ctx, rep):
    rep.rule("C09.R11", "the lexer takes an identifier as it is written: the name part is the very text of the word / of what stands between the backticks", floor=2)
    syn = ctx.syn
    f = syn.fn("lexer::ident_part", crate="prqlc_parser")
    # every closure of the function that receives the matched text only converts it (`to_string`, `to_owned`, `into`, `String::from`)
    n_conv = 0
    for n in walk(f["body"]):
        if n.get("k") == "mcall" and n["m"] in ("map", "map_with", "try_map", "map_slice") and n["a"] and n["a"][-1].get("k") == "closure":
            cl = n["a"][-1]
            n_conv += 1
            changing = sorted({x["m"] for x in walk(cl["body"]) if x.get("k") == "mcall" and x["m"] in TEXT_CHANGING} |
                              {"[..]" for x in walk(cl["body"]) if x.get("k") == "index"} | {"format!" for x in walk(cl["body"]) if x.get("k") == "macro" and x.get("n") == "format"})
            rep.check(not changing, f"ident-text:closure:{n_conv}", f"ident_part passes the matched text through `{show(cl, maxdepth=8)[:80]}`, which alters it ({changing}): `` ` amount` `` and `amount` are "
                      "different column names; the identifier that reaches the SQL must be the one written", file=f["file"], line=n["l"], fn=f["path"])
    # the backticked alternative: everything except a backtick, any number of times, between two backticks
    bt = [n for n in walk(f["body"]) if n.get("k") == "mcall" and n["m"] == "delimited_by" and all("`" in show(a) for a in n["a"])]
    ok = False
    for n in bt:
        chain = show(n["r"], maxdepth=14).replace(" ", "")
        ok = ok or (re.match(r"^none_of\('`'\)\.repeated\(\)", chain) is not None and not re.search(r"\.(at_least|at_most|exactly|filter|and_is|not)\(", chain))
    rep.check(len(bt) == 1 and ok, "ident-text:backtick", "the backticked alternative of ident_part must be `none_of('`').repeated()` (collected or sliced) between two backticks: every character "
              "between them belongs to the name", file=f["file"], line=bt[0]["l"] if bt else f["l"], fn=f["path"])


def r12(ctx, rep):
    # generated names (`_expr_N`, `table_N`) differ among themselves because the counter behind them advances on every call
    import C01
    rep.borrowed(C01.r18, ctx, "C09.R12", "two generated names are never equal: the counter of NameGenerator (an IdGenerator) hands out its value and advances", only=r"^gen:")


def run(ctx, rep):
    for r in (r1, r2, r3, r4, r5, r6, r7, r8, r9, r10, r11, r12):
        rep.guard(r, ctx)
